import os
from common import Ctx, RULES, case_lines

PID = "C06"
COQ_FILES = ["Model/Base.v", "Model/Decode.v", "Proofs/DecodeProofs.v", "Gen/Decode.v", "Ties/DecodeTie.v", "Properties/C06.v"]
RULES[PID] = ("c06-e2e: seeded generator of Rust debuggees; 6 fixed coverage programs (all integer widths/signs at boundary values, floats by bit "
              "pattern, bool/char/unit/str/String/NonZero, tuples/arrays/slices; C-like enums with 2..300 variants and explicit repr(i8..u64) "
              "discriminants, Option of them, data enums with 130-260 variants and explicit high discriminants; Vec/VecDeque scripted by "
              "push/pop histories incl. capacity 20000 with the head far inside; HashMap/HashSet with 0,1,7,8,15,16,17,100 entries and removals, "
              "fixed hasher; BTreeMap/BTreeSet with 0..500 entries = 1 leaf/2/3 levels and removals; Box/Rc/Arc/Cell/RefCell/&/&mut/*const/*mut) "
              "then programs of 22 variables from the recursive type grammar, depth <= 3. The debugger stops at a line where all variables are "
              "initialised, every variable is read with read_variable(Dqe::Variable) (and must be listed by read_local_variables), the Value "
              "tree is canonicalised (pointers dereferenced, hash collections sorted, floats by bits, type names normalised: module paths and "
              "the allocator parameter dropped) and compared in Rust with the generator's value tree; the generator is checked against the "
              "program's own {:?} output. Non-trivial: any variable whose type is not a bare int/bool/unit; distinct by (type, value). "
              "c06-unit: same sessions; for every integer (24 per variable), data-carrying/niche enum (variant part read from DWARF by the harness "
              "with gimli raw forms, tag bytes from /proc/pid/mem), Vec/String/&str, VecDeque, HashMap/HashSet and integer-keyed BTreeMap/BTreeSet "
              "met anywhere in a value tree: header fields from the raw structure, buffers/control bytes/B-tree nodes from /proc/pid/mem, and the "
              "slots the debugger showed (item addresses) -> int_case/enum_case/vec_case/vd_case/hb_case/bt_case decided in Coq (model exact, spec "
              "on the same bytes). Non-trivial: non-empty container / non-zero integer / any enum; distinct by case text.")

KNOWN_CAUSES = {
    "enum-unsigned-discr-high-bit": "c06:enum-unsigned-discr-high-bit",
    "vecdeque-cap-guard": "c06:vecdeque-cap-guard",
    "len-guard": "c06:len-guard",
    "array-type-name": "c06:array-type-name",
    "btree-empty-not-interpreted": "c06:btree-empty-not-interpreted",
    "slice-of-zst-panics": "c06:slice-of-zst-panics",
    "cenum-u64-discr-above-i64": "c06:cenum-u64-discr-above-i64",
    "enum-128bit-tag": "c06:enum-128bit-tag",
}


def classify_unit(stem, meta, verdict, text):
    """key for a failing model case; the rule looks at the inputs of the case only"""
    if stem == "enum" and not meta.get("tag_signed", True):
        d = meta.get("truth_discr") or {}
        bits = {"FData1": 8, "FData2": 16, "FData4": 32}.get(d.get("form"))
        if bits and (int(d.get("raw", "0")) >> (bits - 1)) & 1:
            return KNOWN_CAUSES["enum-unsigned-discr-high-bit"]
    if stem == "vd":
        if meta.get("len", 0) > 10000:
            return KNOWN_CAUSES["len-guard"]
        if meta.get("cap", 0) > 10000:
            return KNOWN_CAUSES["vecdeque-cap-guard"]
    if stem == "vec" and meta.get("len", 0) > 10000:
        return KNOWN_CAUSES["len-guard"]
    return "c06-unit:%s:%s" % (stem, "spec" if verdict >= 2 else "model")


def unit_leg(ctx, args):
    leg = "c06-unit"
    summ = ctx.run_leg(leg, args, timeout=3000)
    if summ is None:
        return None
    files = summ.get("files", [])
    metas = summ.get("case_meta") or {}
    bad = ctx.eval_cases(files, leg)
    seen = {}
    for fn, i, v, text in bad:
        base = os.path.basename(fn)                      # cases_C06_<stem>_<k>.v
        stem, k = base[len("cases_C06_"):-2].rsplit("_", 1)
        fam = metas.get(stem, {})
        gi = int(k) * int(fam.get("shard", 0) or 0) + i
        ml = fam.get("meta", [])
        meta = ml[gi] if gi < len(ml) else {}
        key = classify_unit(stem, meta, v, text)
        if seen.get(key, 0) >= 3:
            continue
        seen[key] = seen.get(key, 0) + 1
        kind = "impl-violates-spec" if v >= 2 else "tie-broken"
        ctx.violate(kind, leg, {"family": stem, "case_index": gi, "meta": meta, "case": text[:3000],
                                "what": "the decoder's answer on these bytes differs from the %s" % ("specification" if v >= 2 else "model only"),
                                "replay": "%s %s" % (leg, " ".join(map(str, args)))}, key=key, found_input=(v >= 2))
    d = dict(summ)
    d.pop("case_meta", None)
    ctx.add_leg(d, {"mismatches": len(bad)})
    if summ.get("errors"):
        ctx.violate("tie-broken", leg, {"errors": summ["errors"][:5]}, key=leg + ":errors", found_input=False)
    return summ


def e2e_leg(ctx, args):
    leg = "c06-e2e"
    summ = ctx.run_leg(leg, args, timeout=3000)
    if summ is None:
        return None
    seen = {}
    for f in summ.get("value_failures") or []:
        key = KNOWN_CAUSES.get(f.get("cause") or "", "c06-e2e:value")
        if seen.get(key, 0) >= 3:
            continue
        seen[key] = seen.get(key, 0) + 1
        ctx.violate("impl-violates-spec", leg, {"what": "the value shown differs from the value the program holds", "failure": f,
                                                "replay": "%s %s ; source file and line are in the failure" % (leg, " ".join(map(str, args)))},
                    key=key, found_input=True)
    if summ.get("selfcheck_failures"):
        ctx.violate("tie-broken", leg, {"what": "generator's ground truth differs from the program's own {:?} output", "failures": summ["selfcheck_failures"][:3]},
                    key=leg + ":selfcheck", found_input=False)
    if summ.get("errors"):
        ctx.violate("tie-broken", leg, {"errors": summ["errors"][:5]}, key=leg + ":errors", found_input=False)
    d = dict(summ)
    vf = d.pop("value_failures", [])
    d.pop("selfcheck_failures", None)
    ctx.add_leg(d, {"mismatches": len(vf)})
    return summ


def run(tier, seed):
    ctx = Ctx(PID, tier, seed, COQ_FILES)
    ctx.translate()
    ok = ctx.coq_build()
    ctx.hygiene()
    if not ok:
        ctx.violate("proof-broken", ctx.broken_proof["where"], ctx.broken_proof, key="proof", found_input=False)
    if tier == "thorough" and ok:
        ctx.coqchk()
    if ctx.harness_build():
        # quick: the 6 coverage programs + 1 grammar program; thorough: 60 programs, and the coverage programs again under the other toolchains
        n = 7 if tier == "quick" else 60
        e2e_leg(ctx, [seed, n, ctx.cases_dir, ctx.scratch])
        unit_leg(ctx, [seed, n, ctx.cases_dir, ctx.scratch])
        if tier == "thorough":
            for tc in ("stable", "nightly"):
                e2e_leg(ctx, [seed, 8, ctx.cases_dir, ctx.scratch + "_" + tc, tc])
    ctx.refuted += [
        {"theorem": "enum_unsigned_high_discr_refuted", "witness": "u8 tag, DW_FORM_data1 0xc8, tag byte 200", "status": "replayed by both legs on generated enums (key c06:enum-unsigned-discr-high-bit) until the fix is in /repo"},
        {"theorem": "vecdeque_cap_guard_refuted", "witness": "len 1, cap 10001, head 10000", "status": "replayed by both legs (VecDeque::with_capacity(20000), head far inside; key c06:vecdeque-cap-guard) until the fix is in /repo"},
        {"theorem": "vecdeque_len_guard_refuted / vec_len_guard_refuted", "witness": "more than 10000 elements", "status": "by design (LEN_GUARD); key c06:len-guard"},
    ]
    return ctx.finish(["x86-64 little endian; the debuggee is stopped, so memory does not change during one decoding",
                       "hashbrown's control-byte layout (hb_layout) is a hypothesis of hb_iter_exact; the unit leg checks the decoder on the real control bytes",
                       "parse_inner on element bytes is outside the Coq model; it is covered by the e2e leg's value comparison"])
