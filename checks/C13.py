from common import Ctx, RULES, standard_unit_leg
from legs import run_classified_leg

PID = "C13"
COQ_FILES = ["Model/Base.v", "Model/DapBp.v", "Proofs/DapBpProofs.v", "Gen/HitCond.v", "Ties/HitCondTie.v", "Properties/C13.v"]
RULES[PID] = ("c13-hc (unit): hit-condition strings from the grammar <ws> op <ws> [+]digits <ws> (op in '', =, ==, >=, >, <, <=; ws from six ASCII "
              "white-space bytes; numbers 0..11, random u32/u64, 2^63-1, 2^63, 2^64-2 .. 2^64+9, 20..29 digits, up to 24 leading zeros) plus a malformed "
              "stream (43 fixed strings such as '%2', '> =3', '=>3', '-1', '0x10', '1_0', '+', '>=', NUL, and random strings over 0-9<>=+-%x_! blank tab); "
              "hit counts 0, 1, v-1, v, v+1, u64::MAX, 0..7; the real HitCondition::parse / matches answers (through a verif accessor) are compared inside "
              "Coq with hc_parse / hc_matches and with the arithmetic meaning. Non-trivial: non-blank input; distinct by (input, hit count). "
              "c13-e2e: request histories against a real DebugSession (in-memory DAP client) and a real debuggee with a line inside a 5-round loop, a "
              "function called from the loop (function-breakpoint target, its first line shares the address), a generic function with two "
              "instantiations called three times, a comment-only line, an absent line, instruction addresses (shared, mid-statement, unmapped, "
              "unparsable), data breakpoints on an untouched cell: 0-3 set requests before configurationDone, then 4-12 seeded requests among "
              "continue / set* / restart (<= 2), then with probability 1/3 set requests after the exit and a restart; half of the requested "
              "breakpoints carry options (condition: variable truthiness 'n' / 'i', literals, a parse error; hitCondition from 13 strings; logMessage "
              "with a tag and the clock cell). Ground truth: the harness's reference tracer gives the native pc sequence; a clock cell incremented by the "
              "debuggee makes (pc, clock) unique, so every stop is located in the trace and the arrivals at installed addresses between two stops are "
              "reconstructed; the registry is read after every request through the read-only verifState request. Each history is a hist_case checked by "
              "hist_check (model: responses, ids, registry numbers/forms; spec: registry = locations of the latest sets, verified iff a location exists, "
              "every arrival stops/logs as the owner's options say) and is also decided by the harness at the observable level (expected next stop "
              "computed from the latest sets, the trace and the options; log outputs present); that verdict travels with the case. Non-trivial: >= 2 set "
              "requests and >= 1 arrival; distinct by case text.")

# genuine defects recorded in known_findings.txt (keys); everything else is an alarm
KNOWN_CAUSES = {
    "shared-location-lost": "shared-location",
    "shared-location-options": "shared-location",
    "instr-verified-not-running": "instr-verified-not-running",
    "condition-bare-identifier-true": "bare-identifier",
}


def classify(i, meta, v):
    d = meta.get("divergence") or {}
    cause = d.get("cause")
    if v == 1:
        return ("c13-e2e:model", False, "the adapter differs from the Coq model on this history (specification met)")
    if not d:
        return ("c13-e2e:spec-coq-only", True, "hist_check reports a specification violation that the harness-level decision did not see")
    key = KNOWN_CAUSES.get(cause, "spec:%s:%s" % (d.get("kind"), cause))
    return ("c13-e2e:" + key, True, "step %s: %s (%s)" % (d.get("step"), d.get("detail"), cause))


def run(tier, seed):
    ctx = Ctx(PID, tier, seed, COQ_FILES)
    ctx.translate()
    ok = ctx.coq_build()
    ctx.hygiene()
    if not ok:
        ctx.violate("proof-broken", ctx.broken_proof["where"], ctx.broken_proof, key="proof", found_input=False)
    if tier == "thorough" and ok:
        ctx.coqchk()
    if ctx.harness_build():
        n = 3000 if tier == "quick" else 60000
        standard_unit_leg(ctx, "c13-hc", [seed, n, ctx.cases_dir],
                          "HitCondition::matches disagrees with the arithmetic meaning of the parsed condition")
        n = 8 if tier == "quick" else 300
        s = run_classified_leg(ctx, "c13-e2e", [seed, n, ctx.cases_dir, ctx.scratch],
                               "after this request history the program does not stop exactly at the locations of the latest sets, or `verified` / an option is not honoured",
                               classify)
        if s is not None and s.get("log_interpolation_literal"):
            # `{CLOCK}` in a log message came out as the text CLOCK (bare identifiers are taken as enum-variant literals)
            ctx.violate("impl-violates-spec", "c13-e2e log interpolation",
                        {"what": "logMessage `LPn@{CLOCK}` printed `LPn@CLOCK`", "count": s["log_interpolation_literal"]},
                        key="c13-e2e:bare-identifier", found_input=True)
    for name, wit in [("C13_shared_location_refuted", "Start; SetSource 1 [10]; SetFunction [7]; SetFunction []  (line 10 and function 7 share g100)"),
                      ("C13_instr_verified_refuted", "SetInstruction [5] before Start (unmapped address)")]:
        ctx.refuted.append({"theorem": name, "witness": wit, "status": "genuine defect, recorded in known_findings.txt; replayed by c13-e2e"})
    return ctx.finish(["resolver answers (line -> places, function -> places, valid instruction addresses) are taken from a probe session of the real debugger and enter the model as tables",
                       "conditions are variable truthiness / literals whose value is known by construction of the debuggee; condition errors are only sent without other options",
                       "hardware data breakpoints are not delivered in this VM: setDataBreakpoints is checked for responses / ids only",
                       "one source file, one object file; ASCII hit-condition strings"])
