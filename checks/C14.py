from common import Ctx, RULES, standard_unit_leg

PID = "C14"
COQ_FILES = ["Model/Base.v", "Gen/Dr.v", "Spec/DrArch.v", "Model/Dr.v", "Model/Wp.v", "Model/WpE2E.v",
             "Proofs/DrProofs.v", "Proofs/WpProofs.v", "Properties/C14.v",
             "Model/WpKernel.v", "Proofs/WpKernelProofs.v", "Properties/C14K.v",
             "Model/WpX.v", "Proofs/WpXProofs.v", "Properties/C14X.v"]
RULES[PID] = ("unit leg: DR6/DR7 images (sparse, dense, one-bit-cleared, random 64-bit) x dr_enabled/configure_bp/set_dr/detect_and_flush, "
              "real functions vs model (non-trivial: image != 0, distinct by case text). e2e leg: a real multi-threaded debuggee; seeded "
              "histories of watch-by-address (sizes 1/2/4/8, w/rw, aligned sub-offsets of 6 globals), scoped expression watch on a caller's local, "
              "remove by number/address, threads spawned/exited between stops; after every command and stop DR0-3/DR7 of EVERY kernel thread are "
              "read with PTRACE_PEEKUSER and compared inside Coq with the model's thread images (exact) and with the CPU-level decode of the "
              "requested set (spec). Non-trivial: >= 2 threads alive at some point or >= 3 commands; distinct by case text.")


def run(tier, seed):
    ctx = Ctx(PID, tier, seed, COQ_FILES)
    ctx.translate()
    ok = ctx.coq_build()
    ctx.hygiene()
    if not ok:
        ctx.violate("proof-broken", ctx.broken_proof["where"], ctx.broken_proof, key="proof", found_input=False)
    if tier == "thorough" and ok:
        ctx.coqchk()
    if ctx.harness_build():
        n = 4000 if tier == "quick" else 60000
        standard_unit_leg(ctx, "c14-unit", [seed, n, ctx.cases_dir],
                          "a DR6/DR7 bit function returned an image other than the architecture-level meaning of the operation")
        k = 16 if tier == "quick" else 120
        s = standard_unit_leg(ctx, "c14-e2e", [seed, k, ctx.cases_dir, ctx.scratch],
                              "after a watchpoint command or stop, some thread's debug registers did not decode to exactly the requested watchpoint set, "
                              "or a command was accepted/refused against the rule (at most four, one per address)")
        if s is not None:
            if s.get("errors"):
                ctx.violate("tie-broken", "c14-e2e", {"errors": s["errors"][:5]}, key="c14-e2e:errors", found_input=False)
            if not s.get("hardware_delivers_data_breakpoints"):
                ctx.notes.append("this machine does not deliver hardware data breakpoints (a watched write does not trap): the clause "
                                 "'every write stops the program once and reports old and new value' is not exercised here; register contents are")
    return ctx.finish(["ptrace reads/writes of debug registers succeed while threads are stopped (the e2e leg observes the registers the kernel actually holds)",
                       "the kernel clears the debug registers of a new thread (Linux: ptrace breakpoints are not inherited on clone)",
                       "Intel SDM DR7 layout as written in Spec/DrArch.v"])
