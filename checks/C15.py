from common import Ctx, RULES, standard_unit_leg

PID = "C15"
COQ_FILES = ["Model/Base.v", "Model/Mem.v", "Gen/Regs.v", "Spec/X86Dwarf.v", "Model/Regs.v", "Proofs/MemProofs.v",
             "Proofs/RegsProofs.v", "Gen/Mem.v", "Ties/MemTie.v", "Gen/Disasm.v", "Model/Disasm.v", "Proofs/DisasmProofs.v",
             "Properties/C15.v"]
RULES[PID] = ("e2e leg: a debuggee maps 8 pages and punches holes (munmap), PROT_NONE and read-only pages; seeded (address, length, data) triples, "
              "80% within +-28 bytes of a page edge, lengths 0..40, through Debugger::read_memory and the DAP write_bytes helper; before/after windows "
              "are taken from /proc/<pid>/mem byte by byte (None = unmapped) and the case is decided inside Coq against the model (exact) and the "
              "spec (read = bytes iff all mapped; write changes exactly [a,a+n)). Non-trivial: the window contains both mapped and unmapped bytes, or the "
              "range is unaligned and crosses a word boundary; distinct by case text. Registers: set_register_value vs PTRACE_GETREGS (14 GPRs, boundary values). "
              "disasm leg: eight functions laid out with 2-byte alignment (several directly followed by the next one); breakpoints on random instruction starts, the "
              "last instruction and the first address behind the function; Debugger::disasm() (one visit per function and session: the disassembler caches per range) and "
              "DAP disassemble are compared with the harness's own capstone decoding of the ELF file's bytes; the verdict is computed in Coq by Model/Disasm.v over "
              "(image, memory, patched addresses, outcome). Non-trivial: >= 2 patched addresses.")


def run(tier, seed):
    ctx = Ctx(PID, tier, seed, COQ_FILES)
    ctx.translate()
    ok = ctx.coq_build()
    ctx.hygiene()
    if not ok:
        ctx.violate("proof-broken", ctx.broken_proof["where"], ctx.broken_proof, key="proof", found_input=False)
    if tier == "thorough" and ok:
        ctx.coqchk()
    if ctx.harness_build():
        n = 900 if tier == "quick" else 12000
        s = standard_unit_leg(ctx, "c15-e2e", [seed, n, ctx.cases_dir, ctx.scratch],
                              "read_memory returned bytes other than the process holds (or failed on a fully mapped range), or write_bytes changed "
                              "something other than exactly [a, a+n)")
        if s is not None:
            if s.get("errors"):
                ctx.violate("tie-broken", "c15-e2e", {"errors": s["errors"][:5]}, key="c15-e2e:errors", found_input=False)
            if s.get("register_failures"):
                ctx.violate("impl-violates-spec", "c15-e2e registers", {"failures": s["register_failures"][:5]},
                            key="c15-e2e:registers", found_input=True)
            if not s.get("program_sees_writes"):
                ctx.violate("impl-violates-spec", "c15-e2e program view",
                            {"what": "the debuggee's own checksum of the region differs from /proc/<pid>/mem after the writes",
                             "program_sum": s.get("program_sum"), "expected": s.get("expected_sum")}, key="c15-e2e:program-view", found_input=True)
            ctx.notes.append("register checks: %s, failures: %d" % (s.get("register_checks"), len(s.get("register_failures") or [])))
        nd = 60 if tier == "quick" else 900
        d = standard_unit_leg(ctx, "c15-disasm", [seed, nd, ctx.cases_dir, ctx.scratch + "/d"],
                              "disassembly (Debugger::disasm or DAP disassemble) showed something other than the program's original instructions, "
                              "or panicked, with breakpoints set in / directly behind the function")
        if d is not None and d.get("errors"):
            ctx.violate("tie-broken", "c15-disasm", {"errors": d["errors"][:5]}, key="c15-disasm:errors", found_input=False)
    ctx.refuted.append({"theorem": "C15_disasm_end_panic_refuted_old", "witness": "function [16,17), breakpoint at 17",
                        "status": "describes the implementation before fix c4e56bb; the disasm leg replays it against the current code"})
    ctx.refuted.append({"theorem": "C15_dap_disasm_raw_refuted_old", "witness": "a breakpoint on the first byte of the window",
                        "status": "describes the implementation before fix 7fbf91e; the disasm leg replays it against the current code"})
    ctx.refuted.append({"theorem": "C15_read_unaligned_refuted", "witness": "m = 8 mapped bytes then a hole, a = 7, n = 1",
                        "status": "describes the implementation before fix f6b9bcc; the e2e leg replays it against the current code"})
    return ctx.finish(["PTRACE_PEEKDATA/POKEDATA move 8 bytes and fail with EIO unless all 8 are mapped; mappings are page-granular",
                       "/proc/<pid>/mem is the ground truth for memory contents, PTRACE_GETREGS for registers"])
