from common import Ctx, RULES
from legs import run_classified_leg

PID = "C18"
COQ_FILES = ["Model/Base.v", "Model/Reloc.v", "Proofs/RelocProofs.v", "Gen/Reloc.v", "Ties/RelocTie.v", "Properties/C18.v"]
RULES[PID] = ("e2e leg: one debuggee source built as PIE / non-PIE dynamic (-C relocation-model=static) / static non-PIE (+crt-static) / static-PIE, "
              "a Rust cdylib linked at startup (DT_NEEDED + rpath) and a second cdylib loaded, closed and re-loaded with dlopen/dlclose by a seeded "
              "script (e exe fn, a/u startup-lib fns, o dlopen, c dlclose, t/i dlopen-lib fns, m marker); per session 0-5 breakpoint requests by "
              "function or by file:line, each before start or at a seeded marker stop (before the library is loaded -> NoSuitablePlace -> deferred "
              "through add_deferred_at_*, or after it is loaded), every 4th dynamic session with `ldd` unavailable (PATH emptied: no pre-scan). "
              "Ground truth taken by the harness: ELF symbols / PT_LOAD addresses (object crate), PTRACE_GETREGS rip at every stop, /proc/<pid>/maps. "
              "Coq cases: relocate_case (place address of every installed breakpoint and relocate_to_segment of symbol values vs real position of "
              "the image), maps_case (shared_libs() vs maps), reloc_case (mapping_offset_for_pc at start-1/start/start+1/inside/end-1/end/end+1 of "
              "every range + random addresses). Behaviour (in the leg): the stops are exactly the calls of the requested functions in program order; "
              "breakpoint address == place + real load bias; `sharedlib info` lists exactly the objects with an executable mapping. "
              "Non-trivial: relocate cases, reloc probes other than 0 / 2^63, maps cases with >= 3 files; distinct by case text.")

# behaviour failures that are specific recorded defects (everything else keeps the generic key)
BEHAVIOUR_KEYS = {"start-failed:nopie", "start-failed:static", "start-failed:staticpie", "stops:deferred-at-entry", "stops:after-reopen",
                  "breakpoint-address:nopie", "breakpoint-address:static"}


def classify(i, meta, v):
    kind = meta.get("kind")
    if kind == "relocate" and meta.get("et_exec"):
        return ("c18-e2e:nonpie-offset", True, "ET_EXEC image relocated by its own link base")
    if kind == "reloc" and meta.get("probe") == "end":
        return ("c18-e2e:range-end-inclusive", True, "address == end of an object's last mapping attributed to the object")
    return ("c18-e2e:spec", True, "load-address handling differs from the specification")


def run(tier, seed):
    ctx = Ctx(PID, tier, seed, COQ_FILES)
    ctx.translate()
    ok = ctx.coq_build()
    ctx.hygiene()
    if not ok:
        ctx.violate("proof-broken", ctx.broken_proof["where"], ctx.broken_proof, key="proof", found_input=False)
    if tier == "thorough" and ok:
        ctx.coqchk()
    if ctx.harness_build():
        n = 6 if tier == "quick" else 72   # ~25 s per session on a loaded machine (DWARF of std in two cdylibs)
        s = run_classified_leg(ctx, "c18-e2e", [seed, n, ctx.cases_dir, ctx.scratch],
                               "an address was relocated / attributed to an object differently from where the object really is", classify)
        if s is not None:
            seen = {}
            for f in s.get("behaviour_failures", []):
                k = f.get("key", "behaviour")
                key = "c18-e2e:" + (k if k in BEHAVIOUR_KEYS else k.split(":")[0])
                if seen.get(key, 0) >= 2:
                    continue
                seen[key] = seen.get(key, 0) + 1
                ctx.violate("impl-violates-spec", "c18-e2e behaviour", f, key=key, found_input=True)
    ctx.refuted += [
        {"theorem": "C18_nonpie_refuted", "witness": "ET_EXEC image linked at 0x400000: relocate g = g + 0x400000", "status": "implementation before fix_1 (load bias = lowest mapping - link base)"},
        {"theorem": "C18_find_range_refuted", "witness": "addr == range.to accepted", "status": "implementation before fix_4"},
        {"theorem": "C18_deferred_startup_refuted", "witness": "deferred request resolvable at the entry-point stop is not retried there", "status": "implementation before fix_5"},
        {"theorem": "(not modelled) static executables", "witness": "no .dynamic section / DT_DEBUG == 0: Rendezvous::new fails and the start is aborted", "status": "implementation before fix_6"},
        {"theorem": "(not modelled) dlclose + dlopen of the same library", "witness": "the breakpoint stays `enabled` in the table while its trap byte is gone with the old mapping", "status": "known finding c18-e2e:stops:after-reopen"},
    ]
    return ctx.finish(["/proc/<pid>/maps and the ELF program headers describe where an image is (load bias = lowest mapping start - lowest PT_LOAD p_vaddr)",
                       "the place (prologue end) the debugger chooses inside a function is not under test here: only that it lies inside the function's symbol "
                       "and is planted at place + bias"])
