from common import Ctx, RULES, standard_unit_leg
from legs import run_classified_leg

PID = "C16"
COQ_FILES = ["Model/Base.v", "Model/Mem.v", "Model/Call.v", "Proofs/CallProofs.v", "Gen/Call.v", "Ties/CallTie.v", "Properties/C16.v"]
RULES[PID] = ("c16-marg (unit): liter_to_arg_bin_repr / CallArgs::new / prepare_registers through add-only hooks; the cross product of 77 boundary "
              "literals (ints at +-2^k+-{0,1,2} for k in 7,8,15,16,31,32,63, i64::MIN/MAX, addresses, bools, float/string/enum/array/assoc) x 111 "
              "parameter types (9 encodings incl. none x byte sizes none,0..9,16; pointer; struct; C enum), subsampled by a seeded stride in the quick "
              "tier, plus seeded random pairs; 20% of the budget are argument lists of length 0..8 with length mismatches (CallArgs::new result and "
              "rdi..r9 after prepare_registers). Decided in Coq by marg_check / margs_check (model exact; spec: literal mod 2^(8*size), zero upper bits, "
              "SysV register order). Non-trivial: an accepted conversion or a refusal that depends on the parameter type; distinct by case text. "
              "c16-e2e: seeded debuggee variants (functions c16f0..c16f6 with random i8..i64/isize/u8..u64/usize/bool/pointer parameters that append "
              "their arguments to a static log, built with -C opt-level=1), every binary in a fresh worker process (the CallCache is process-global); "
              "stops at first instructions of functions (rsp = 8 mod 16), at lines inside a non-leaf function, and inside a leaf function after its "
              "stores to the red zone (verified with objdump: negative rsp offsets, rsp never adjusted); 1-3 Debugger::call per stop with boundary / "
              "random literals, 1 in 6 malformed (missing/extra argument, unsupported literal, literal kind mismatch, unknown function). Before/after: "
              "PTRACE_GETREGS (27 registers), /proc/<pid>/mem [pc,pc+16) and [rsp-128,rsp+128), every text byte that differs from the ELF file, "
              "/proc/<pid>/maps, PTRACE_GETFPREGS, the debuggee's log (exactly one new entry with exactly the arguments; none when refused); at exit the "
              "program's stdout (result checksum, its own log entries) and exit status vs a native run. call_check in Coq + the same spec in the harness "
              "(call_failures). Focus workers replay the refutations: redzone, align (movdqa callee from a first instruction), fp, signal (faulting "
              "callee), cache (two binaries in one process). Non-trivial: a call with >= 1 argument; distinct by (function, literals, position, binary).")

# keys of per-call / per-session failures -> note
NOTES = {
    "c16-e2e:redzone": "bytes in [rsp-128, rsp) of the stopped thread changed (return address of the injected call and the callee's frame are placed directly below rsp)",
    "c16-e2e:align": "callee with 16-byte aligned stack accesses called from a stop with rsp = 8 mod 16 faults; the call is reported as done, nothing logged",
    "c16-e2e:signal-in-callee": "the callee stopped with a signal instead of returning; the call is reported as done",
    "c16-e2e:page-leak": "an RWX page stays mapped after the call",
    "c16-e2e:fpregs": "SSE/x87 state is not saved around the call: the interrupted floating point computation continues with the callee's xmm values",
    "c16-e2e:cache": "second debuggee in the same process: `call c16first 300` is marshalled with the parameter types (and jumps to the address) cached for the first program's c16first: the callee receives 44",
}


def classify(i, meta, v):
    keys = meta.get("keys") or []
    only = set(keys)
    # the case itself (registers + memory windows) can only show these
    if only and only <= {"c16-e2e:redzone", "c16-e2e:align", "c16-e2e:signal-in-callee", "c16-e2e:ran-once", "c16-e2e:args", "c16-e2e:accepted"} \
            and "c16-e2e:redzone" in only and not meta.get("reg_diff") and not meta.get("code_changed") \
            and not meta.get("text_changed") and not meta.get("above_rsp_bytes_changed"):
        return ("c16-e2e:redzone", True, NOTES["c16-e2e:redzone"])
    return ("c16-e2e:spec", True, "registers, code bytes or memory at/above rsp differ after the call: %s" % ",".join(keys))


def run(tier, seed):
    ctx = Ctx(PID, tier, seed, COQ_FILES)
    ctx.translate()
    ok = ctx.coq_build()
    ctx.hygiene()
    if not ok:
        ctx.violate("proof-broken", ctx.broken_proof["where"], ctx.broken_proof, key="proof", found_input=False)
    if tier == "thorough" and ok:
        ctx.coqchk()
    if ctx.harness_build():
        n = 1500 if tier == "quick" else 30000
        s = standard_unit_leg(ctx, "c16-marg", [seed, n, ctx.cases_dir],
                              "liter_to_arg_bin_repr / CallArgs::new produced a register image other than the literal reduced modulo the parameter size "
                              "(or accepted / refused a literal the property does not)")
        if s is not None:
            if s.get("errors"):
                ctx.violate("tie-broken", "c16-marg", {"errors": s["errors"][:5]}, key="c16-marg:errors", found_input=False)
            if s.get("spec_failures"):
                ctx.violate("impl-violates-spec", "c16-marg (harness-side spec)", {"failures": s["spec_failures"][:5]}, key="c16-marg:spec", found_input=True)
        n = 20 if tier == "quick" else 600
        s = run_classified_leg(ctx, "c16-e2e", [seed, n, ctx.cases_dir, ctx.scratch],
                               "registers / code / stack windows before vs after a real injected call", classify)
        if s is not None:
            seen = {}
            for f in s.get("call_failures") or []:
                key = f.get("key", "c16-e2e:spec")
                if seen.get(key, 0) >= 2:
                    continue
                seen[key] = seen.get(key, 0) + 1
                ctx.violate("impl-violates-spec", "c16-e2e (harness-side spec)",
                            {"what": f.get("what"), "worker": f.get("worker"), "note": NOTES.get(key, ""),
                             "replay": "c16-e2e %d %d <cases_dir> <scratch>" % (seed, n)}, key=key, found_input=True)
            cache = s.get("cache") or {}
            if cache.get("stale_cache_served"):
                ctx.violate("impl-violates-spec", "c16-e2e-cache", {"details": cache.get("details"), "note": NOTES["c16-e2e:cache"]},
                            key="c16-e2e:cache", found_input=True)
            elif not cache.get("details"):
                ctx.violate("tie-broken", "c16-e2e-cache", {"error": "the two-binaries worker gave no result"}, key="c16-e2e:cache-missing", found_input=False)
            ctx.notes.append("sessions: %d, outputs equal to native: %d; FP state changed in %s calls"
                             % (len(s.get("sessions") or []), sum(1 for x in (s.get("sessions") or []) if x.get("same_result") and x.get("same_log") and x.get("same_exit")),
                                (s.get("histogram") or {}).get("fp_state_changed", 0)))
    ctx.refuted += [
        {"theorem": "C16_redzone_refuted", "witness": "stack page full of 0xAA, rsp=0x7ffd808: the 8 bytes at rsp-8 are overwritten by the injected call's return address",
         "status": "replayed by the e2e leg (focus redzone); repaired by fix_1"},
        {"theorem": "C16_align_refuted", "witness": "callee entered with rsp+8 not a multiple of 16", "status": "replayed (focus align); repaired by fix_1"},
        {"theorem": "C16_fpregs_refuted", "witness": "callee sets xmm0", "status": "replayed (focus fp); known finding c16-e2e:fpregs"},
        {"theorem": "C16_error_leak_refuted", "witness": "PTRACE_SINGLESTEP of the jmp fails: page stays mapped", "status": "repaired by fix_2 (reachable through fix_3's error)"},
        {"theorem": "C16_signal_refuted", "witness": "callee faults on entry: Ok in release, panic in debug builds", "status": "replayed (focus signal); repaired by fix_3"},
        {"theorem": "C16_brkpt_disable_error_refuted", "witness": "second breakpoint's disable fails: the first stays disabled", "status": "needs a failing PTRACE_POKE; not reachable by generated inputs; recorded"},
        {"theorem": "C16_cache_refuted", "witness": "two resolvers, one cache", "status": "replayed by c16-e2e-cache; known finding c16-e2e:cache"},
    ]
    return ctx.finish(["the kernel executes the three injected instructions (syscall, jmp *%rax, call *%rax; int3) as the model's exec_step/exec_cont say",
                       "callees are functions of the generated debuggees (they write their own frame and the static log only)",
                       "single-threaded debuggees; FP state is observed with PTRACE_GETFPREGS (x87/SSE, not the AVX upper halves)"])
