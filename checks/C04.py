from common import Ctx, RULES
from legs import run_classified_leg

PID = "C04"
COQ_FILES = ["Model/Base.v", "Model/LineTable.v", "Proofs/LineTableProofs.v", "Properties/C04.v"]
RULES[PID] = ("e2e leg c04-e2e: seeded generated Rust programs (loops, recursion, two generic instantiations, closures through dyn Fn, shadowing) "
              "built with rustc 1.89 -g (thorough: + two of {stable 1.95, nightly, opt-level=1, DWARF 5 on each toolchain that accepts the flag, "
              "nightly -Z dwarf-version=4, static non-PIE} per program); the real Debugger loads the binary; add-only hooks export the tables the "
              "look-ups read (unit ranges of all units; sorted line rows, function die ranges and function infos of the units holding the program's "
              "source file); `llvm-dwarfdump --debug-line` gives the program-order rows of the same CUs (the multiset must equal the debugger's rows, "
              "the file-entry counts must agree). Questions: QUnit/QPlace/QExact/QFunc for every instruction address of every user function "
              "(objdump -d inside nm symbol ranges; quick tier thins to ~450 addresses per program, function entries always kept) plus a boundary stream "
              "(0, 1, u64::MAX, one past / last byte / byte before / second byte of every function, first and last row of the unit +-1); QLine for "
              "every source line 0..last+2 and u64::MAX-1 (u64::MAX without overflow checks) with the (unit, file) pairs files_index.get returns; QFnBp "
              "for every function info of those units (user functions, closures, generic instances, std generics instantiated in the crate). Coq "
              "evaluates the model on the exported tables (exact answer) and the specification on llvm-dwarfdump's rows. The same questions go "
              "through the public API (set_breakpoint_at_line / set_breakpoint_at_fn / breakpoint_places_for_file_range before the start, "
              "resolve_function_at_pc after a real start stopped at main) and must give the hook answers. c04-witness (quick tier: the two Rust programs with the default toolchain only): the same on hand-written programs - w7: different subprograms with one DW_AT_name sharing source lines (methods generated for two types by one macro, two `new` inlining one helper, the closures of two functions) - and on a hand-written "
              "Rust program (two functions sharing a source line, closure on its creation line) with 3 toolchains + opt-level 1 and a two-file C "
              "program with gcc (DWARF 5 / 4) and clang. Non-trivial: the answer is a row / function / non-empty place list; distinct by "
              "(tables, question, answer).")

# Genuine defects that stay open (see known_findings.txt); anything else fails the check.
#   key, predicate on (meta, verdict)
def classify(i, meta, v):
    meta = meta or {}
    q = meta.get("q", "?")
    leg = "c04"
    # the keys below name defects repaired by fix_2..fix_4 of this leg; they are only consulted while a patch is not applied
    # (a known finding must be listed in known_findings.txt to be accepted)
    if q == "QPlace" and v >= 2 and meta.get("end_sequence_at_fn_entry"):
        return (leg + ":pc-tie-end-sequence", True,
                "pc in the first row of a function that starts where the previous sequence ends, end_sequence row later in the sorted vector: "
                "the previous function's end_sequence row is answered")
    if q == "QLine" and v >= 2 and meta.get("functions_with_line", 0) >= 2:
        return (leg + ":line-in-several-functions", True,
                "file:line whose statements (or those of line+1 when the line has none) lie in >= 2 functions - closure on its creation line, "
                "two functions on one line: not every function gets a breakpoint")
    if q == "QFnBp" and v >= 2 and meta.get("has_prologue_end") is False:
        return (leg + ":fn-without-prologue-end", True,
                "function without a prologue_end row (gcc; some optimised code): `break f` leaves the function (last row of the unit / next function's prologue end)")
    if q == "QExact" and meta.get("first_row_of_unit"):
        return (leg + ":exact-first-row", True, "find_exact_place_by_pc at the first row of a unit (usize underflow; panic with overflow checks)")
    return ("%s:%s:%s" % (leg, q, "spec" if v >= 2 else "model"), v >= 2, "unclassified disagreement on %s" % q)


def run(tier, seed):
    ctx = Ctx(PID, tier, seed, COQ_FILES)
    ctx.translate()
    ok = ctx.coq_build()
    ctx.hygiene()
    if not ok:
        ctx.violate("proof-broken", ctx.broken_proof["where"], ctx.broken_proof, key="proof", found_input=False)
    if tier == "thorough" and ok:
        ctx.coqchk()
    if ctx.harness_build():
        progs = 4 if tier == "quick" else 12
        s = run_classified_leg(ctx, "c04-e2e", [seed, progs, ctx.cases_dir, ctx.scratch, tier],
                               "an address/source answer disagrees with the binary's line table / function ranges", classify)
        if s is not None:
            ctx.notes.append("c04-e2e: %s public-API cross-checks, %s disagreements; rows vs llvm-dwarfdump: %s disagreements"
                             % (s.get("api_checks"), s.get("api_mismatches"), s.get("rowset_mismatches")))
        if s is not None and s.get("fn_name_search_failures"):
            # not an address <-> source disagreement: `break <generic fn>` finds nothing on nightly although the DIEs have places
            ctx.violate("impl-violates-spec", "c04-e2e function name search", {"failures": s["fn_name_search_failures"][:5]},
                        key="c04:fn-name-search", found_input=True)
        if True:
            import os
            wdir = os.path.join(ctx.cases_dir, "w")
            s = run_classified_leg(ctx, "c04-witness", [seed, 1 if tier == "quick" else 0, wdir, os.path.join(ctx.scratch, "w")],
                                   "an address/source answer disagrees with the binary's line table / function ranges (hand-written witnesses)", classify)
    ctx.refuted += [
        {"theorem": "find_place_by_pc_refuted", "witness": "W1: function B emitted right after A's end: the end_sequence row of A ties with B's first row",
         "status": "reproduced with gcc -ffunction-sections -Wl,--sort-section=name (c04-witness w1); never with rustc; fix_2.patch"},
        {"theorem": "find_exact_refuted", "witness": "W2: find_exact_place_by_pc(address of row 0) subtracts 1 from 0 (panic with overflow checks)", "status": "release branch confirmed on real binaries; fix_1.patch"},
        {"theorem": "find_closest_place_every_function_refuted", "witness": "W3: prologue_end look-ahead crosses an end_sequence row into the next function", "status": "reproduced (w34.rs lines 9, 20); fix_3.patch"},
        {"theorem": "find_closest_place_flags_refuted", "witness": "W4: only rows with the first hit's column and flags are kept", "status": "reproduced on generated programs (closure on its creation line); fix_3.patch"},
        {"theorem": "fn_bp_refuted_no_prologue_end", "witness": "W5: unit without prologue_end rows: `break f` = last row of the unit", "status": "reproduced with gcc -g; fix_4.patch"},
        {"theorem": "fn_bp_refuted_next_function", "witness": "W6: f without prologue_end followed by g with one: `break f` = g's prologue end", "status": "not observed with rustc (every function has a prologue_end row at opt-level 0/1); covered by fix_4.patch"},
    ]
    return ctx.finish(["gimli's line-program decoding is compared with llvm-dwarfdump's on every examined unit (row multisets); DIE ranges and names are taken as "
                       "gimli decodes them (not cross-checked with another DWARF reader; the questions are asked at objdump's instruction addresses inside nm's "
                       "symbols of the user crate and every one of them resolved to a function whose DIE range contains it)",
                       "units that do not hold the program's source file enter the model with their ranges only; questions whose answer would need their "
                       "tables are counted (`skipped:*`, `row_or_lowpc_claimed_by_ranges_only_unit`) and not asked"])
