# NOTE: needs the corrected Model/Step.v of this directory (spec_stop_ok KNext, see NOTES.txt B1); with the old checker 7 of 56
# good `next` cases get verdict 2 (rows of inlined bodies counted as boundaries). After fix_1 is integrated use Step_after_fix1.v.
from common import Ctx, RULES
from legs import run_classified_leg

PID = "C03"
COQ_FILES = ["Model/Base.v", "Model/Step.v", "Proofs/StepProofs.v", "Gen/Step.v", "Ties/StepTie.v", "Properties/C03.v"]
RULES[PID] = ("e2e leg: seeded generated Rust programs (straight-line, branches, loops, the recursive rec_sum, generics, closures) plus one fixed program with "
              "directed histories (finish / next / step at recursion depth 0-3, next with a user breakpoint on the next line, stepi / step / next / finish "
              "through the instruction that ends the process, stepi on `loop {}` under a watchdog). Ground truth: the harness's own ptrace single-stepper "
              "records the complete native (pc, rsp) sequence from main to exit; activations are derived from it (call = rsp drops by 8 with a "
              "non-sequential pc, activation identity = rsp at entry + 8), line table from llvm-dwarfdump --debug-line, function ranges from nm -S. "
              "A history = break at a random reached statement line, run (0-4 continues), then 6-40 random stepi / step_into / step_over / step_out "
              "(and now and then another user breakpoint); after every command the thread's real (pc, rsp) is read with PTRACE_GETREGS and located in "
              "the native sequence. The harness decides the spec on the native sequence (stepi = next position with another pc; finish = first position "
              "of an older activation; next = statement boundary, never deeper, not past the first boundary on another line of this activation or the "
              "first boundary after the return; step = statement boundary, not past the first boundary on another line or in another activation outside "
              "a prologue; on_step place = line-table place of the real pc; an exit during the step is reported). Steps whose window stays inside the "
              "user's compilation unit are also printed as step_case terms and evaluated by Model.Step.step_check in Coq. Every history runs in a "
              "forked child with a watchdog. Non-trivial: a line-level step whose executed window contains a call or a return; distinct by (program, "
              "start position, kind, stop position).")

KNOWN_NOTES = {
    "c03-e2e:finish-recursion": "finish inside a recursive function stops in a deeper activation (temporary breakpoint at the return address, no frame check)",
    "c03-e2e:next-recursion": "next inside a recursive function stops in a deeper activation (temporary breakpoints on the function's lines, no frame check)",
    "c03-e2e:next-userbp-skip": "next skips the following line when a user breakpoint is set on it",
    "c03-e2e:stepi-selfjump": "stepi on an instruction that jumps to itself never returns",
    "c03-e2e:panic-step-at-exit": "stepping over the instruction that ends the process panics",
}


def classify(i, meta, v):
    if meta.get("pad"):
        return ("c03-e2e:index", False, "case index points at padding")
    if not meta.get("harness_ok", True):
        # the harness already decided this step on the full native sequence: same key
        return (meta.get("key", "c03-e2e:spec"), True, "Coq agrees with the harness verdict (%s from %s:%s)" % (meta.get("kind"), meta.get("start_fn"), meta.get("start_line")))
    if v >= 2:
        return ("c03-e2e:coq-spec", True, "Model.Step.spec_stop_ok rejects a stop the harness accepted")
    return ("c03-e2e:model", False, "the model's step lands elsewhere than the implementation (spec satisfied)")


def run(tier, seed):
    ctx = Ctx(PID, tier, seed, COQ_FILES)
    ctx.translate()
    ok = ctx.coq_build()
    ctx.hygiene()
    if not ok:
        ctx.violate("proof-broken", ctx.broken_proof["where"], ctx.broken_proof, key="proof", found_input=False)
    if tier == "thorough" and ok:
        ctx.coqchk()
    if ctx.harness_build():
        progs, hist, cmds = (2, 5, 24) if tier == "quick" else (16, 12, 40)
        s = run_classified_leg(ctx, "c03-e2e", [seed, progs, ctx.cases_dir, ctx.scratch, hist, cmds],
                               "where a step command left the thread vs the native execution", classify)
        if s is not None:
            per_key = {}
            for f in s.get("failures", []):
                k = f.get("key", "c03-e2e:spec")
                per_key[k] = per_key.get(k, 0) + 1
                if per_key[k] > 3:
                    continue
                ctx.violate("impl-violates-spec", "c03-e2e", {"what": KNOWN_NOTES.get(k, "step command violates its definition on the native execution"),
                                                               "failure": f, "replay": "c03-e2e %s %s <cases> <scratch> %s %s" % (seed, progs, hist, cmds)},
                            key=k, found_input=True)
            ctx.notes.append("c03-e2e failure keys: %s" % s.get("failure_keys"))
    ctx.refuted += [
        {"theorem": "C03_stepi_refuted / C03_step_selfjump_refuted", "witness": "`loop {}` = jmp .: single_step re-steps while the pc is unchanged", "status": "confirmed by dir-stepi-selfjump (watchdog)"},
        {"theorem": "C03_finish_refuted", "witness": "rec_sum: finish at depth k stops when a deeper activation returns to the same address", "status": "confirmed by dir-finish-d*"},
        {"theorem": "C03_next_refuted", "witness": "rec_sum: next over the recursive call stops at a temporary hit by the deeper activation", "status": "confirmed by dir-next-d*"},
        {"theorem": "C03_next_userbp_refuted", "witness": "user breakpoint on the next line: no temporary there and the hit is stepped over silently", "status": "confirmed by dir-next-userbp"},
        {"theorem": "find_exact_first_row_panics", "witness": "pc equal to the first row of a unit's line table: p -= 1 on p = 0", "status": "not reached by generated programs (the first row of the user's unit belongs to a function that is entered only through its prologue)"},
    ]
    return ctx.finish(["the native (pc, rsp) sequence of a deterministic program is the same in every run (ASLR disabled, same environment and argv)",
                       "activation identity is derived from rsp (x86-64 System V: call pushes 8 bytes; CFA = rsp at entry + 8)",
                       "a stop is located in the native sequence as the first later position with the same (pc, rsp)"])
