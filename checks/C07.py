from common import Ctx, RULES
from legs import run_classified_leg

PID = "C07"
COQ_FILES = ["Model/Base.v", "Model/Dqe.v", "Proofs/DqeProofs.v", "Properties/C07.v"]
RULES[PID] = ("c07-parse: seeded expression trees of 0..5 operators (depth 1..6: field by name / tuple index, index by every literal form - "
              "strings, ints incl. +-(2^63-1), floats, addresses up to 2^64-1, bools, enum variants with paths and payloads, arrays and struct "
              "literals with wildcards, nested to depth 2 -, slices with absent / small / 2^64-1 bounds, deref, address, canonic, pointer casts) are "
              "printed to their canonical token list, rendered to text (canonical single blanks, or seeded blanks: none / one / two / tab wherever the "
              "grammar pads, random hex spelling), parsed by the real expression::parser() under catch_unwind in a watchdog worker, and the "
              "resulting Dqe is encoded back into the model's AST; Coq checks parse(tokens) = implementation (model) and, when an expression was "
              "intended, tokens = print e and implementation = Ok e (spec: canonical text parses back). 35% of the cases are a malformed stream: "
              "1-3 mutations of a valid token list (deletion, duplication, swap, insertion, keyword-like identifiers, boundary numbers 2^63-1, 2^63, "
              "2^64-1, 2^64, 2^64+1, 2^32, 10^20, 2^128-1, hex with 16/17/32 digits) where implementation and model must agree on accept / reject / panic. "
              "Non-trivial: at least 4 tokens; distinct by case text. "
              "c07-eval: a fixed debuggee (arrays, Vec, VecDeque, HashMap, HashSet, structs, tuples, enums, references) stopped at a breakpoint; seeded "
              "expressions over its variables (index in / out of range and by key literal, slices with in-range and out-of-range bounds, fields, deref, "
              "address, canonic); the real read_variable(dqe) under catch_unwind against the model's eval (code) and spec_eval (documented meaning) on "
              "the encoded root value. Non-trivial: at least two operators or a slice; distinct by case text.")

# what the generator marked in a structured case -> recorded finding
SPECIAL_KEYS = {
    "bool-prefix-enum": ("c07-parse:bool-prefix-enum", "an enum variant whose name starts with `true`/`false` cannot be written as a key"),
    "float-fraction-leading-zero": ("c07-parse:float-fraction-leading-zero", "a float literal whose fraction starts with 0 (1.05) is rejected"),
    "empty-struct-literal": ("c07-parse:empty-struct-literal", "`{}` is the empty array literal; an empty struct literal has no text"),
}


def classify_parse(i, meta, v):
    leg = "c07-parse"
    out = meta.get("outcome")
    if out in ("panic", "timeout"):
        site = meta.get("site") or "?"
        return ("%s:%s@%s" % (leg, out, site), True, "%s at %s on %r" % (out, site, meta.get("text")))
    sp = meta.get("special")
    if v >= 2 and meta.get("stream") == "structured" and sp in SPECIAL_KEYS and out == "reject":
        k, note = SPECIAL_KEYS[sp]
        return (k, True, note)
    if v >= 2 and meta.get("stream") == "structured" and sp == "empty-struct-literal" and out == "ok":
        k, note = SPECIAL_KEYS[sp]
        return (k, True, note)
    if v >= 2:
        return (leg + ":spec", True, "canonical text does not parse back to the expression")
    return (leg + ":model", False, "real parser and model disagree on %r" % meta.get("text"))


def classify_eval(i, meta, v):
    leg = "c07-eval"
    out = meta.get("outcome")
    if out in ("panic", "timeout"):
        site = meta.get("site") or "?"
        return ("%s:%s@%s" % (leg, out, site), True, "%s at %s on `var %s`" % (out, site, meta.get("text")))
    if v >= 2:
        why = meta.get("why") or "spec"
        return ("%s:%s" % (leg, why), True, "`var %s` does not mean what the documentation says" % meta.get("text"))
    return (leg + ":model", False, "real evaluation and model disagree on `var %s`" % meta.get("text"))


def run(tier, seed):
    ctx = Ctx(PID, tier, seed, COQ_FILES)
    ctx.translate()
    ok = ctx.coq_build()
    ctx.hygiene()
    if not ok:
        ctx.violate("proof-broken", ctx.broken_proof["where"], ctx.broken_proof, key="proof", found_input=False)
    if tier == "thorough" and ok:
        ctx.coqchk()
    if ctx.harness_build():
        n = 2400 if tier == "quick" else 40000
        s = run_classified_leg(ctx, "c07-parse", [seed, n, ctx.cases_dir],
                               "the real DQE parser disagrees with the model / the canonical text does not parse back", classify_parse)
        if s is not None:
            d = s.get("display_reparse") or {}
            bad = int(d.get("rejected", 0)) + int(d.get("different", 0))
            ctx.notes.append("Display-for-Literal re-parse probe: %s" % d)
            if bad:
                ctx.violate("impl-violates-spec", "c07-parse display probe",
                            {"what": "Literal::to_string() of a parsed literal is rejected by / parses differently with expression::literal()",
                             "counts": d, "examples": s.get("display_examples")},
                            key="c07-parse:display-not-reparsable", found_input=True)
        n = 300 if tier == "quick" else 4000
        s = run_classified_leg(ctx, "c07-eval", [seed, n, ctx.cases_dir, ctx.scratch],
                               "read_variable(dqe) differs from the model's eval / spec_eval on the real value", classify_eval)
        if s is not None:
            # finding F7 (theorem C07_deref_address_refuted): *&(slice) is the whole container
            for p in s.get("deref_address_of_slice_probe") or []:
                if not p.get("equals_slice"):
                    ctx.violate("impl-violates-spec", "c07-eval probe", {"what": "`var %s` is not the slice" % p.get("expression"), "probe": p},
                                key="c07-eval:slice-keeps-container-address", found_input=True)
            for p in s.get("abort_probes") or []:
                if p.get("exit") != '"0"' or "panic" in (p.get("outcome") or ""):
                    ctx.violate("impl-violates-spec", "c07-eval abort probe", {"what": "`%s` kills or panics the debugger" % p.get("query"), "probe": p},
                                key="c07-eval:abort:%s" % p.get("query"), found_input=True)
    ctx.refuted.append({"theorem": "C07_parse_print_unrestricted_refuted", "witness": "m[trueish], m[1.05], m[-9223372036854775808], m[{}]",
                        "status": "each clause replayed by c07-parse (special cases of the structured stream)"})
    ctx.refuted.append({"theorem": "C07_literal_display_reparse_refuted", "witness": "{k: 1} displays as { \"k\": 1 }; 1.0 displays as 1",
                        "status": "replayed by the Display probe of c07-parse"})
    ctx.refuted.append({"theorem": "C07_deref_address_refuted", "witness": "*&arr[1..3] is the whole arr",
                        "status": "replayed by c07-eval"})
    return ctx.finish(["tokenisation is given: the harness renders token lists to text (REPORT_C07_C08.md section 4) and never writes a text that two token lists share",
                       "ValueParser on memory (deref, pointer slices), type sizes and the f64 comparison of float keys enter the model as tables observed by the harness",
                       "Rc/Arc/Tls/Cell/RefCell/Uuid/SystemTime specialisations and several roots per query are not modelled"])
