from common import Ctx, RULES, standard_unit_leg

PID = "C17"
COQ_FILES = ["Model/Base.v", "Model/PathIndex.v", "Model/SymTab.v", "Proofs/PathIndexProofs.v",
             "Proofs/SymTabProofs.v", "Properties/C17.v"]
RULES[PID] = ("unit leg: seeded insert sequences (0-8, every 50th 20-60 entries; duplicates; root component; components "
              "containing delimiter fragments) + a needle derived from an inserted path (suffix, then one of 8 mutations) or random; "
              "the real PathSearchIndex::get answer is compared inside Coq with the model and with the suffix spec. "
              "Non-trivial: needle has >= 2 components or the answer has >= 2 elements; distinct by the canonical case text.")


def run(tier, seed):
    ctx = Ctx(PID, tier, seed, COQ_FILES)
    ctx.translate()
    ok = ctx.coq_build()
    ctx.hygiene()
    if not ok:
        ctx.violate("proof-broken", ctx.broken_proof["where"], ctx.broken_proof, key="proof", found_input=False)
    if tier == "thorough" and ok:
        ctx.coqchk()
    if ctx.harness_build():
        n = 2000 if tier == "quick" else 40000
        standard_unit_leg(ctx, "c17-unit", [seed, n, ctx.cases_dir],
                          "PathSearchIndex::get answered with values other than those whose path ends with the needle's components")
    return ctx.finish(["interner is injective (symbols compared as strings)",
                       "regex engine and rustc_demangle are not modelled (the symbol theorem takes the match predicate as a parameter)"])
