# NOTE: needs Model/TracerReplay.v (= ModelTracerReplay.v of this directory) next to Model/Tracer.v, the harness leg leg_c09.rs and the
# hooks of hooks.patch. fix_1.patch changes Tracer::apply_new_status: it must go in together with Tracer_after_fix1.diff /
# TracerProofs_after_fix1.diff (else histories that remove a breakpoint with a pending trap get verdict 1: model != implementation).
from common import Ctx, RULES
from legs import run_classified_leg

PID = "C09"
COQ_FILES = ["Model/Base.v", "Gen/Tracer.v", "Model/Tracer.v", "Proofs/TracerProofs.v", "Model/TracerReplay.v", "Ties/TracerTie.v", "Properties/C09.v"]
RULES[PID] = ("e2e leg c09-e2e: a seeded generator writes multi-threaded Rust debuggees: N worker threads (N in 1..64: 5% 1, 55% 2-8, 25% 9-16, 15% 17-64) "
              "each calling the #[inline(never)] targets hit_a / hit_b K times (K <= 5, 3, 2 for N <= 8, 16, 64) with seeded yield_now / spins / sleeps in "
              "between; half of the programs are creation/exit storms (2-5 waves of thread creation while earlier waves are arriving at the breakpoints, "
              "short-lived threads, joins in the middle, the main thread calling hit_a itself); one program in six is a 'hammer' (4-12 threads calling the "
              "targets back to back 6-20 times); every debuggee is confined by the harness to 1-3 seeded CPUs (sched_setaffinity on the forked child: 15% one, 35% two, 50% "
              "three CPUs), a quarter of the programs narrow that themselves to 1-2 CPUs, a fifth of the histories pin tracer and debuggee together to one CPU; "
              "between calls the workers yield, sleep 1-300 us or spin <= 2000 iterations (programs with more than 12 threads only sleep 50-2000 us: the machine is shared). The first action of a target is `add qword [slot], 1` on the calling thread's own counter (label hit_a_inc); "
              "the program prints all counters with the kernel tids at exit. Every program is run in 4 (quick, 6 programs) / 12 (thorough, 32 programs) histories, each in a forked "
              "child with a watchdog, the programs in at most 4 parallel worker processes (debug information loaded with 3 threads each): user breakpoints on hit_a (by function or exactly on the counting "
              "instruction) and sometimes hit_b; `continue` until the exit; the mixes rotate: continue only; breakpoint removed / re-added at stops (and "
              "removed exactly when /proc shows a thread with the breakpoint's SIGTRAP raised but not yet reported); 1-3 stepi after a stop; next / "
              "step-out after a stop; thread switch (+ stepi of a thread standing on a breakpoint) then continue. Seeded delays of 0-50 / 500 / 3000 us "
              "are injected inside the tracer before every waitpid and PTRACE_INTERRUPT (hook debugger::verif::delay) in three quarters of the histories. "
              "Recorded per operation: the returned stop / hook events; the tracer's ordered event log (every waitpid answer with si_code and pc, every "
              "PTRACE_CONT/STEP/SYSCALL/INTERRUPT/SETREGS(pc) with its ESRCH answers, every breakpoint byte patch, entry and exit of Tracer::resume / "
              "single_step with the breakpoint table); and the world at the stop as the harness sees it itself: /proc/<pid>/task/*/stat (state, utime+stime) and "
              ".../syscall (pc) read immediately and again 1-6 ms later, Debugger::thread_state(), the tracer's table, the debuggee's counters read from its "
              "memory. Coq (Model.TracerReplay.c09_check) decides (a) the statement: at every reported stop every live task is in state t both times with "
              "unchanged CPU time and pc, thread list = tracer table = live tasks (tasks whose PTRACE_EVENT_EXIT was consumed count as dead), for every "
              "thread and breakpoint reports - passes is 0 or 1 after every operation and 0 at the end (a removed breakpoint owes nothing, a re-added one "
              "is a new one), the counters equal the planned K, the history ends with the exit report (verdict 2); (b) the model: api_step (continue, "
              "stepi) and resume / sstep call by call (all operations incl. next / step-out) of Model/Tracer.v run over a replay world built from the event "
              "log - wait answers popped per target in order, every request compared with the next recorded event of that thread - must issue exactly the "
              "recorded requests, consume the whole log and return the same stop, thread table and focus (verdict 1). Non-trivial: >= 2 threads alive at "
              "some stop and >= 2 reported breakpoint stops; distinct by (program plan, history plan, sequence of operations and reported stops).")

KEYS = {
    "c09-e2e:tmp-bp-swallow": "arrivals at a user breakpoint are stepped over silently while temporary breakpoints exist (next / step-out in progress): never reported",
    "c09-e2e:focus-switch": "after `thread switch`: continue reports the thread left on its breakpoint a second time for the same arrival, and steps the newly focused thread silently over a breakpoint it was parked on unreported",
    "c09-e2e:remove-bp-pending-trap": "a breakpoint removed while a thread has its SIGTRAP raised but not yet reported: the late trap finds no breakpoint, the thread is never resumed, continue hangs (debug build: debug_assert)",
}


def classify(i, meta, v):
    if v == 1:
        return ("c09-e2e:model", False, "the tracer model issues other requests / returns another stop than the implementation on a history that satisfies the statement")
    clean = meta.get("allstop_ok") and not meta.get("foreign_reports") and not meta.get("lost_other") and not meta.get("dup_other")
    end = int(meta.get("end", 0))
    if end == 2 and clean and int(meta.get("directed_toggles", 0)) >= 1 and (meta.get("last_pre") or {}).get("kind") == "cont":
        return ("c09-e2e:remove-bp-pending-trap", True, KEYS["c09-e2e:remove-bp-pending-trap"])
    if end != 0:
        return ("c09-e2e:%s" % {1: "operation-failed", 2: "hang", 3: "panic", 4: "no-output"}.get(end, "end"), True,
                "the history did not reach the exit report: %s %s %s" % (meta.get("child_error"), meta.get("panic"), meta.get("last_pre")))
    if not meta.get("allstop_ok"):
        return ("c09-e2e:all-stop", True, "a task of the debuggee is not stopped / moves / the thread list differs at a reported stop: %s" % meta.get("allstop_bad"))
    if not meta.get("counts_ok"):
        return ("c09-e2e:counters", True, "a thread's own counter differs from its planned number of calls (instruction skipped or executed twice)")
    if clean and meta.get("lost_tmp") and not meta.get("lost_focus") and not meta.get("dup_nonfocus"):
        return ("c09-e2e:tmp-bp-swallow", True, KEYS["c09-e2e:tmp-bp-swallow"])
    if clean and (meta.get("lost_focus") or meta.get("dup_nonfocus")) and not meta.get("lost_tmp"):
        return ("c09-e2e:focus-switch", True, KEYS["c09-e2e:focus-switch"])
    return ("c09-e2e:exactly-once", True, "an arrival is lost or reported twice outside the known shapes: %s" % meta.get("anomalies"))


def run(tier, seed):
    ctx = Ctx(PID, tier, seed, COQ_FILES)
    ctx.translate()
    ok = ctx.coq_build()
    ctx.hygiene()
    if not ok:
        ctx.violate("proof-broken", ctx.broken_proof["where"], ctx.broken_proof, key="proof", found_input=False)
    if tier == "thorough" and ok:
        ctx.coqchk()
    if ctx.harness_build():
        # programs, histories per program, parallel workers (the leg never uses more than 4: the machine is shared; each debuggee is
        # confined to 1-3 CPUs, each debugger loads debug information with 3 threads). Measured at load 20-25 on 16 cores with these caps:
        # 48 histories 141 s + 75 s coqc (4 at a time); most of it is launching (3-4 s per history). Thorough: 384 histories ~ 19 min + coqc.
        progs, hist, jobs = (6, 4, 4) if tier == "quick" else (32, 12, 4)
        s = run_classified_leg(ctx, "c09-e2e", [seed, progs, ctx.cases_dir, ctx.scratch, hist, jobs],
                               "all-stop / exactly-once on the observations and replay of the tracer model over the recorded event log", classify)
        if s is not None:
            h = s.get("histogram", {})
            ctx.notes.append("c09-e2e: %s stops, %s tracer events replayed, %s absorbed traps, %s stops with clone/exit in flight, %s toggles (%s with a pending trap)"
                             % (h.get("sum:stops"), h.get("sum:tracer-events"), h.get("sum:absorbed-traps"), h.get("sum:stops-with-clone-or-exit-in-flight"),
                                h.get("sum:toggles"), h.get("sum:toggles-removing-a-breakpoint-with-a-pending-trap")))
    ctx.refuted += [
        {"theorem": "C09_arrival_swallowed_refuted", "witness": "a temporary breakpoint in the table (next / step-out in progress): another thread's arrival at a user breakpoint is stepped over",
         "status": "confirmed on the real debugger by the next / step-out histories (key c09-e2e:tmp-bp-swallow; c09-repro: 500-1200 arrivals, 0 reports during one `next`); the model replays these histories exactly"},
    ]
    return ctx.finish(["/proc/<pid>/task/<tid>/stat state 't' = ptrace stop; utime+stime and the pc of /proc/.../syscall do not change while a task is stopped",
                       "a task whose PTRACE_EVENT_EXIT stop has been consumed and resumed executes no user instruction anymore (it is counted as dead although /proc may still show it running in the kernel)",
                       "the order in which TraceeCtl's HashMap is iterated (cont_stopped, group_stop_interrupt) is not recorded: requests are compared per thread, in order; across threads only as a multiset",
                       "register reads (pc) are taken from the recorded wait answers, the recorded SETREGS and the harness' own reading at the previous stop; thread_db, DWARF look-ups and the hooks of the UI are outside the model",
                       "hardware watchpoints are not delivered in this VM: no watchpoint stops in the histories"])
