from common import Ctx, RULES
from legs import run_classified_leg

PID = "C10"
COQ_FILES = ["Model/Base.v", "Model/SigSpec.v"]
RULES[PID] = ("e2e leg: a debuggee with counting handlers for SIGINT/USR1/USR2/ALRM/CHLD/URG/VTALRM/PROF/WINCH/IO runs 3-6 rounds with a breakpoint per "
              "round; at every stop 0-3 distinct signals are sent with kill() (they become pending), followed by 1-12 stepi or directly by continue; "
              "signal stops are collected; at exit the debuggee prints its counters. Spec (decided in Coq): every counter equals the number of sends "
              "(0 for SIGINT), every non-quiet signal is reported once with the receiving thread, quiet ones never. Non-trivial: >= 2 signals sent or a "
              "signal sent before a stepi run; distinct by case text.")


def classify(i, meta, v):
    if int(meta.get("max_pending", 0)) >= 2:
        return ("c10-e2e:multi-pending", True, "two or more signals pending for the thread at one resume")
    return ("c10-e2e:spec", True, "a single pending signal was lost, duplicated or misreported")


def run(tier, seed):
    ctx = Ctx(PID, tier, seed, COQ_FILES)
    ctx.translate()
    ok = ctx.coq_build()
    ctx.hygiene()
    if not ok:
        ctx.violate("proof-broken", ctx.broken_proof["where"], ctx.broken_proof, key="proof", found_input=False)
    if ctx.harness_build():
        n = 30 if tier == "quick" else 400
        run_classified_leg(ctx, "c10-e2e", [seed, n, ctx.cases_dir, ctx.scratch],
                           "signals sent vs the debuggee's own handler counters vs reported signal stops", classify)
    return ctx.finish(["kernel: a signal pending for a stopped thread is reported at its next resume; standard signals do not queue (at most one instance of a kind is pending at a time in the generated histories)"])
