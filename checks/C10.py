from common import Ctx, RULES
from legs import run_classified_leg

PID = "C10"
COQ_FILES = ["Model/Base.v", "Model/SigSpec.v", "Gen/Tracer.v", "Model/Tracer.v", "Proofs/TracerProofs.v", "Ties/TracerTie.v", "Properties/C10.v"]
RULES[PID] = ("e2e leg: a debuggee with counting handlers for SIGINT/USR1/USR2/ALRM/CHLD/URG/VTALRM/PROF/WINCH/IO runs 3-6 rounds with a breakpoint per "
              "round; at every stop 0-3 distinct signals are sent with kill() (they become pending), followed by 1-12 stepi or directly by continue; "
              "signal stops are collected; at exit the debuggee prints its counters. Spec (decided in Coq): every counter equals the number of sends "
              "(0 for SIGINT), every non-quiet signal is reported once with the receiving thread, quiet ones never. Non-trivial: >= 2 signals sent or a "
              "signal sent before a stepi run; distinct by case text. acct leg: single-threaded handler-counting debuggee, 1-3 windows of 0-3 kill()s "
              "followed by 0-10 stepi, then continue to exit; the same event list is run through the Coq model of the tracer (Model/Tracer.v, api_step over "
              "the kernel model) and the model's deliveries and reports are compared with the printed counters and the reported signal stops (verdict 1 on "
              "difference), the spec is evaluated on the same case (verdict 2). every fifth history is directed: a non-quiet signal, 1-2 stepi (its stop is reported, it waits in the tracer queue), a quiet signal, 1-2 stepi, continue. max_pending is measured, not assumed: /proc/<pid>/status SigPnd|ShdPnd before every stepi; queue length (stops reported by steps) + kernel-pending before every continue. Non-trivial: at least one signal sent.")


def classify(i, meta, v):
    if int(meta.get("max_pending", 0)) >= 2:
        return ("c10-e2e:multi-pending", True, "two or more undelivered signals for the thread at one resume (kernel-pending at a step; tracer queue + kernel-pending at a continue)")
    return ("c10-e2e:spec", True, "a single pending signal was lost, duplicated or misreported")


def classify_acct(i, meta, v):
    if int(meta.get("max_pending", 0)) >= 2:
        return ("c10-e2e:multi-pending", True, "two or more undelivered signals for the thread at one resume (kernel-pending at a step; tracer queue + kernel-pending at a continue)")
    if v >= 2:
        return ("c10-acct:spec", True, "a single pending signal was lost, duplicated or misreported")
    return ("c10-acct:model", False, "tracer model and implementation disagree on deliveries / reports for a history that satisfies the spec")


def run(tier, seed):
    ctx = Ctx(PID, tier, seed, COQ_FILES)
    ctx.translate()
    ok = ctx.coq_build()
    ctx.hygiene()
    if not ok:
        ctx.violate("proof-broken", ctx.broken_proof["where"], ctx.broken_proof, key="proof", found_input=False)
    if ctx.harness_build():
        n = 30 if tier == "quick" else 400
        run_classified_leg(ctx, "c10-e2e", [seed, n, ctx.cases_dir, ctx.scratch],
                           "signals sent vs the debuggee's own handler counters vs reported signal stops", classify)
        n = 40 if tier == "quick" else 600
        run_classified_leg(ctx, "c10-acct", [seed, n, ctx.cases_dir, ctx.scratch],
                           "tracer model (Model/Tracer.v) run on the same send/stepi/continue history vs handler counters and reported stops", classify_acct)
    ctx.refuted += [
        {"theorem": "C10_step_suppresses_refuted", "witness": "stepi reports SIGUSR1, the next stepi withholds it; delivered only at the next continue", "status": "model-level; delivery is late, not lost (counters match at exit)"},
        {"theorem": "C10_signal_lost_refuted", "witness": "signal absorbed during a group stop on a thread standing on a breakpoint", "status": "model-level witness; covered by known finding c10-e2e:multi-pending family"},
    ]
    return ctx.finish(["kernel: a signal pending for a stopped thread is reported at its next resume; standard signals do not queue (at most one instance of a kind is pending at a time in the generated histories)"])
