from common import Ctx, RULES
from legs import run_classified_leg

PID = "C08"
# the parser / operator part of C08 is stated in Properties/C07.v (theorems C08_*)
COQ_FILES = ["Model/Base.v", "Model/Dqe.v", "Proofs/DqeProofs.v", "Properties/C08.v"]
RULES[PID] = ("c08-console: command lines derived from the console grammar (src/ui/command/parser/mod.rs): every keyword and short form "
              "(continue/run/step*/next/finish/bt/help/symbol/sharedlib/oracle/async/trigger/source/thread/frame/register/memory/break/watch/var/"
              "arg/call) with valid arguments, seeded blanks and, for every numeric argument (hex addresses, FILE:LINE, breakpoint / watchpoint / "
              "thread / frame / trigger numbers, source line, integer keys, slice bounds), values below / at / above the type bound (2^32, 2^64), "
              "2^63, 2^64-1, 2^64, 23-digit and 39-digit numbers; 12% expression-carrying commands (var/arg/watch with generated and mutated "
              "expressions, also checked against the model's parser); 13% character-level mutations (delete / duplicate / insert from the command "
              "alphabet incl. NUL, non-ASCII, quotes / truncate / 20-60 digit numbers / word swap / case / doubling) and 14 stress lines (3000-deep "
              "parentheses, literal nesting, operator chains, 100000-digit number, 200000-character symbol). Each line goes to the real "
              "Command::parse under catch_unwind in a worker thread (8 MiB stack) with a wall-clock watchdog; outcome class Ok / Err / Panic / "
              "Timeout; Panic and Timeout violate the property. Numeric lines are num_cases (model predicts the panic), expression lines are "
              "dqe_parse_cases. Non-trivial: at least two words; distinct by (case, line). c08-dap: sessions of a real DebugSession (in-memory client, real debuggee): "
              "0-4 requests before initialize/launch, 4-14 while stopped at a breakpoint, 0-4 after the exit, then terminate or disconnect; commands drawn from the "
              "adapter's 41 request kinds (+ an unknown one); per argument key: a plausible value (60%), missing (10%), a value of another JSON kind incl. null / nested arrays "
              "/ objects (40% of the rest), a boundary number (0, -1, 2^31, 2^32, 2^53, i64::MIN/MAX, u64::MAX, 1.5, 1e300); strings from 45 texts (empty, non-ASCII of 2/3/4 "
              "UTF-8 bytes, combining marks, NUL, over-long hex, unbalanced expressions, 10000 characters); completions is also directed at every column around the char / "
              "byte / UTF-16 lengths of the text. Demanded: a response to every request within 30 s, no panic of the session thread, a following `threads` request answered. "
              "Distinct by (phase, command, arguments).")


def classify(i, meta, v):
    leg = "c08-console"
    out = meta.get("outcome")
    if out in ("panic", "timeout"):
        site = meta.get("site") or "?"
        return ("%s:%s@%s" % (leg, out, site), True, "%s at %s on console line %r" % (out, site, meta.get("line")))
    if v >= 2:
        # the line is parsed without a crash but not to what the documentation says: that is C07's statement (the same
        # expressions go through `check C07`), not "no input can crash, hang or corrupt the debugger"
        return None
    return (leg + ":model", False, "real command parser and model disagree on %r" % meta.get("line"))


def run(tier, seed):
    ctx = Ctx(PID, tier, seed, COQ_FILES)
    ctx.translate()
    ok = ctx.coq_build()
    ctx.hygiene()
    if not ok:
        ctx.violate("proof-broken", ctx.broken_proof["where"], ctx.broken_proof, key="proof", found_input=False)
    if tier == "thorough" and ok:
        ctx.coqchk()
    if ctx.harness_build():
        n = 3000 if tier == "quick" else 50000
        s = run_classified_leg(ctx, "c08-console", [seed, n, ctx.cases_dir, ctx.scratch, 5000],
                               "a console line crashes or hangs the command parser", classify)
        if s is not None:
            ctx.notes.append("slowest line: %s us (%s); watchdog %s ms" % (s.get("slowest_line_us"), s.get("slowest_line"), s.get("watchdog_ms")))
            # lines of the documented grammar with in-range arguments that the parser refuses
            for fam, cnt in (s.get("rejected_valid") or {}).items():
                ctx.violate("impl-violates-spec", "c08-console", {"what": "documented command form rejected", "family": fam, "count": cnt,
                                                                  "examples": s.get("rejected_examples")},
                            key="c08-console:rejected:%s" % fam, found_input=True)
        # data queries on a stopped debuggee: only crashes are C08's business here (values are checked by C07)
        n = 200 if tier == "quick" else 3000
        e = ctx.run_leg("c07-eval", [seed + 1, n, ctx.cases_dir, ctx.scratch])
        if e is not None:
            metas = e.get("case_meta") or []
            seen = set()
            for m in metas:
                if m.get("outcome") == "panic" and m.get("site") not in seen and len(seen) < 5:
                    seen.add(m.get("site"))
                    ctx.violate("impl-violates-spec", "c07-eval", {"what": "`var %s` panics at %s: %s" % (m.get("text"), m.get("site"), m.get("msg"))},
                                key="c07-eval:panic@%s" % m.get("site"), found_input=True)
            for p in e.get("abort_probes") or []:
                if p.get("exit") != '"0"' or "panic" in (p.get("outcome") or ""):
                    ctx.violate("impl-violates-spec", "c07-eval abort probe", {"what": "`%s` kills or panics the debugger" % p.get("query"), "probe": p},
                                key="c07-eval:abort:%s" % p.get("query"), found_input=True)
            d = dict(e)
            d.pop("case_meta", None)
            ctx.add_leg(d, {"panics": sum(1 for m in metas if m.get("outcome") == "panic")})
        # DAP requests of every kind with missing / ill-typed / boundary / non-ASCII / huge arguments
        n = 400 if tier == "quick" else 2500
        d = ctx.run_leg("c08-dap", [seed, n, ctx.cases_dir, ctx.scratch + "/dap"])
        if d is not None:
            seen = set()
            for f in d.get("failures") or []:
                key = "c08-dap:%s@%s" % (f.get("kind"), f.get("site") or f.get("command"))
                if key in seen or len(seen) >= 5:
                    continue
                seen.add(key)
                ctx.violate("impl-violates-spec", "c08-dap", {"what": "DAP request `%s` in phase %s: %s %s" % (f.get("command"), f.get("phase"), f.get("kind"), f.get("msg")),
                                                              "request": {"command": f.get("command"), "arguments": f.get("arguments")}, "site": f.get("site"),
                                                              "replay": "c08-dap %s %s - <scratch>" % (seed, n)}, key=key, found_input=True)
            if d.get("errors"):
                ctx.violate("tie-broken", "c08-dap", {"errors": d["errors"][:5]}, key="c08-dap:errors", found_input=False)
            dd = dict(d)
            dd.pop("failures", None)
            ctx.add_leg(dd, {"failures": len(d.get("failures") or [])})
    return ctx.finish(["only the parsing stage of a console line is exercised here (Command::parse); execution of data queries on a stopped "
                       "debuggee is the c07-eval leg of C07; the protocol discipline of DAP answers is C12, crashes / hangs on DAP requests are the c08-dap leg here",
                       "a worker that does not answer within the watchdog limit is abandoned, not killed"])
