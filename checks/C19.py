from common import Ctx, RULES
from legs import run_classified_leg

PID = "C19"
# variables that live in registers are read through the DWARF register numbering: its table (regenerated from register.rs) and the proofs that it is
# the psABI's belong to this property as well
COQ_FILES = ["Model/Base.v", "Model/Scope.v", "Proofs/ScopeProofs.v", "Gen/Scope.v", "Ties/ScopeTie.v", "Gen/Regs.v", "Spec/X86Dwarf.v", "Model/Regs.v",
             "Proofs/RegsProofs.v", "Properties/C19.v"]
RULES[PID] = ("e2e leg: seeded generated Rust programs (gen_prog: nested blocks with shadowing, loops, recursion, closures through dyn Fn, generics), "
              "instrumented by the harness so that the program prints the value of every visible u64 binding before each statement and E/X at "
              "function entry/exit; line breakpoints on every statement where a name is shadowed, on the recursion / closure helpers (prob. 1/2) and "
              "on 8 random statements; at each of up to 24 stops per program and in EVERY frame of the backtrace down to main: (1) the variable "
              "DIEs `var locals` selects, (2) the DIE `var NAME` selects for every doubly-live name, up to 5 other names of the function and an "
              "absent name, (3) the names `arg all` lists - checked in Coq against the DIE tree of the function read with llvm-dwarfdump "
              "(locals_case / lookup_case / params_case); opt-level 1 programs (one in the quick tier, three in the thorough tier) add loc_case: the location-list entry chosen at the "
              "pc vs .debug_loc decoded by the harness and cross-checked with llvm-dwarfdump. In the leg: names listed vs the harness's own static "
              "scope model of the source (multiset, shadowed bindings included), value of `var NAME` / `arg NAME` / the `var locals` entry vs the "
              "value printed by that activation (innermost binding for a shadowed name). Non-trivial: locals with >= 2 names or a doubly-live name, "
              "lookups with >= 1 live binding, non-empty parameter lists, location lists with >= 2 entries; distinct by case text.")

# behaviour keys seen on the unfixed tree: lookup:shadow-outer (and value:shadow-outer when the shadowed binding is a u64)


def classify(i, meta, v):
    kind = meta.get("kind")
    x = meta.get("x") or {}
    if kind == "lookup" and int(x.get("live_bindings", 0)) >= 2:
        return ("c19-e2e:shadow-outer", True, "`var NAME` picks the outer binding of a shadowed name")
    if kind == "loc" and x.get("pc_is_an_entry_end"):
        return ("c19-e2e:loclist-end-inclusive", True, "location list entry that ends at pc is selected")
    return ("c19-e2e:spec", True, "selection differs from the DIE tree")


def run(tier, seed):
    ctx = Ctx(PID, tier, seed, COQ_FILES)
    ctx.translate()
    ok = ctx.coq_build()
    ctx.hygiene()
    if not ok:
        ctx.violate("proof-broken", ctx.broken_proof["where"], ctx.broken_proof, key="proof", found_input=False)
    if tier == "thorough" and ok:
        ctx.coqchk()
    if ctx.harness_build():
        progs, stops, opt1 = (4, 20, 1) if tier == "quick" else (60, 40, 3)
        s = run_classified_leg(ctx, "c19-e2e", [seed, progs, ctx.cases_dir, ctx.scratch, stops, opt1],
                               "variables / parameters selected at a stop are not those of the function's DIE tree at that pc", classify)
        if s is not None:
            seen = {}
            for f in s.get("behaviour_failures", []):
                k = f.get("key", "behaviour")
                key = "c19-e2e:" + k
                if seen.get(key, 0) >= 2:
                    continue
                seen[key] = seen.get(key, 0) + 1
                ctx.violate("impl-violates-spec", "c19-e2e source-level scope / values", f, key=key, found_input=True)
            ctx.notes.append("static scope checks: %s, value checks: %s, failure counts: %s" % (
                s.get("histogram", {}).get("static-scope-checks"), s.get("histogram", {}).get("value-checks"), s.get("failure_counts")))
    ctx.refuted += [
        {"theorem": "C19_shadow_refuted", "witness": "let x=1; { let x=2; show(x) }: `var x` = 1", "status": "implementation before fix_2 (last match of the breadth-first walk)"},
        {"theorem": "C19_loclist_refuted", "witness": "entries [a,b) [b,c), pc = b: first entry chosen", "status": "implementation before fix_3"},
        {"theorem": "C19_scope_refuted", "witness": "variable directly under DW_TAG_inlined_subroutine is filtered by the enclosing block's ranges", "status": "recorded; not produced by opt-level 0/1 generated programs so far"},
    ]
    return ctx.finish(["llvm-dwarfdump's reading of .debug_info and rustc's DWARF are assumed correct; values printed by the instrumented program are the truth for (iii)",
                       "only u64 scalars are compared by value; closure bodies are checked at the DIE level only"])
