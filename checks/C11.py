from common import Ctx, RULES
from legs import run_classified_leg

PID = "C11"
COQ_FILES = ["Model/Base.v", "Model/BpSpec.v", "Model/BpMachine.v", "Proofs/BpMachineProofs.v", "Gen/Bp.v", "Ties/BpTie.v", "Properties/C11.v",
             "Gen/Dr.v", "Spec/DrArch.v", "Model/Dr.v", "Model/Wp.v", "Proofs/DrProofs.v", "Proofs/WpProofs.v",
             "Model/LifecycleX.v", "Proofs/LifecycleXProofs.v", "Properties/C11X.v"]
RULES[PID] = ("e2e leg, two families, every history in a forked child with a watchdog. (1) world histories on a fixed debuggee (0 or 3 worker threads, optional "
              "wait-for-flag-file mode): the full grid launched/attached x single/multi-threaded x stop kind (not started or just attached, at a breakpoint "
              "with a hardware watchpoint armed, after stepi, after exit) x ending (drop, detach + drop) plus the worker-focus plan (attached, 3 workers: a breakpoint on `finale` is created while a worker thread is in focus, the workers' own breakpoint is removed, the workers finish and exit, the main thread stops at `finale`, then drop / detach + drop), then random fill, then a stress tail (40 quick / 300 thorough attached 3-thread histories ending at a breakpoint or after stepi, run while spinner threads keep all cores busy so that traps raised but not yet reported exist at the moment of release); attached = the harness "
              "spawns the program itself and uses DebuggerBuilder::build_attached. Afterwards the harness inspects the world itself: /proc/<pid> gone "
              "(state Z = not reaped) for launched programs; for released ones state R/S, no thread in t/T, TracerPid 0 for every task, executable "
              "mapping byte-equal to the ELF file through /proc/<pid>/mem, DR7 enable bits zero in every thread (own PTRACE_SEIZE + PEEKUSER), then the "
              "process is let go and must finish with the native output and exit status; the exit code reported by the debugger equals the native "
              "status. (2) restart histories on generated programs: 1-3 address breakpoints, restart before start / at a breakpoint / after exit (and "
              "sometimes twice), continues; breakpoints_snapshot() numbers, addresses and lines must survive each restart, no old or new process may "
              "be left, and the reported stops (on_breakpoint pc/number, on_exit code) are evaluated by Model.BpMachine.stop_check against the native "
              "trace. Non-trivial: a world history that reaches >= 1 world check, a restart history with >= 2 stops; distinct by plan / op list.")


def classify(i, meta, v):
    if v >= 2:
        return ("c11-e2e:restart-stops", True, "stops reported around a restart are not the native projection on the user's breakpoints")
    return ("c11-e2e:restart-model", False, "stops differ from the patch-machine model only")


def run(tier, seed):
    ctx = Ctx(PID, tier, seed, COQ_FILES)
    ctx.translate()
    ok = ctx.coq_build()
    ctx.hygiene()
    if not ok:
        ctx.violate("proof-broken", ctx.broken_proof["where"], ctx.broken_proof, key="proof", found_input=False)
    if tier == "thorough" and ok:
        ctx.coqchk()
    if ctx.harness_build():
        world, progs, hist, stress = (36, 2, 5, 40) if tier == "quick" else (160, 12, 10, 300)
        s = run_classified_leg(ctx, "c11-e2e", [seed, world, ctx.cases_dir, ctx.scratch, progs, hist, stress],
                               "state of the world after quit / drop / detach / restart", classify)
        if s is not None:
            per_key = {}
            for f in s.get("failures", []):
                k = f.get("key", "c11-e2e:world")
                per_key[k] = per_key.get(k, 0) + 1
                if per_key[k] > 3:
                    continue
                ctx.violate("impl-violates-spec", "c11-e2e", {"failure": f, "replay": "c11-e2e %s %s <cases> <scratch> %s %s %s" % (seed, world, progs, hist, stress)},
                            key=k, found_input=True)
            ctx.notes.append("c11-e2e failure keys: %s; world checks evaluated: %s" % (s.get("failure_keys"), s.get("checks")))
    ctx.refuted += [
        {"theorem": "C11_no_orphan_refuted", "witness": "detach() of a launched debuggee, then drop: the program keeps running", "status": "confirmed by the launched x DetachDrop histories"},
    ]
    return ctx.finish(["the harness process is both parent and tracer of a launched debuggee: /proc/<pid> gone means killed and reaped",
                       "hardware data breakpoints are not delivered in this VM: only register contents are checked",
                       "restart of an attached process is not exercised"])
