from common import Ctx, RULES, standard_unit_leg

PID = "C01"
COQ_FILES = ["Model/Base.v", "Model/BpSpec.v", "Model/BpMachine.v", "Proofs/BpMachineProofs.v", "Gen/Bp.v", "Ties/BpTie.v", "Properties/C01.v"]
RULES[PID] = ("e2e leg: seeded generated Rust programs (straight-line, branches, loops, recursion, generics with two instantiations, closures, shadowing); "
              "the harness's own ptrace single-stepper records the native instruction trace inside the user's functions; histories of break (address / "
              "file:line / function) / remove (number / address / non-existent) / continue with 0-3 commands per stop; Coq replays the history on the "
              "native trace (projected on every address used) and requires the reported stop pcs to be exactly the next arrivals at the current "
              "breakpoint set, in order, until exit. Non-trivial: >= 2 stops and (a removal or >= 4 stops); distinct by history text.")


def run(tier, seed, pid=PID, files=None, rule_extra=None, extra=None):
    ctx = Ctx(pid, tier, seed, files or COQ_FILES)
    ctx.translate()
    ok = ctx.coq_build()
    ctx.hygiene()
    if not ok:
        ctx.violate("proof-broken", ctx.broken_proof["where"], ctx.broken_proof, key="proof", found_input=False)
    if tier == "thorough" and ok:
        ctx.coqchk()
    if ctx.harness_build():
        progs, hist = (4, 6) if tier == "quick" else (40, 10)
        s = standard_unit_leg(ctx, "c01-e2e", [seed, progs, ctx.cases_dir, ctx.scratch, hist],
                              "reported breakpoint stops are not the projection of the native execution on the current breakpoint set, or the patched "
                              "bytes of the program text are not exactly the current breakpoints (+ the entry-point breakpoint)")
        if s is not None:
            if s.get("errors"):
                ctx.violate("tie-broken", "c01-e2e", {"errors": s["errors"][:5]}, key="c01-e2e:errors", found_input=False)
            if s.get("behaviour_failures"):
                ctx.violate("impl-violates-spec", "c01-e2e native behaviour", {"failures": s["behaviour_failures"][:5]},
                            key="c01-e2e:behaviour", found_input=True)
        if extra:
            extra(ctx, tier, seed)
    ctx.refuted += [
        {"theorem": "C01_remove_zero_refuted", "witness": "`break remove 0` before run removes the entry-point breakpoint (internal breakpoints carry number 0)"},
        {"theorem": "C01_removed_silent_refuted", "witness": "after the program exited `break remove <addr>` looks up the Relocated form, breakpoints are keyed Global"},
        {"theorem": "C01_self_loop_refuted", "witness": "self-jumping instruction: single_step repeats while pc is unchanged"},
    ]
    return ctx.finish(["breakpoints are requested at instruction starts (H_boundary); no instruction jumps to itself (no_stutter); single-threaded debuggee",
                       "the reference trace is taken by the harness's own ptrace single-stepper with ASLR disabled, like the debugger"])
