from common import Ctx, RULES
from legs import run_classified_leg

PID = "C12"
COQ_FILES = ["Model/Base.v", "Gen/Dap.v", "Model/DapWire.v", "Proofs/DapWireProofs.v", "Gen/DapDrain.v", "Ties/DapTie.v", "Properties/C12.v"]
RULES[PID] = ("e2e leg: request sequences from a DAP grammar (initialize/launch/set*Breakpoints/configurationDone, then 14 seeded requests among "
              "continue/next/stepIn/stepOut/threads/stackTrace/scopes/variables/evaluate/readMemory/pause/setBreakpoints/unknown command, with missing, "
              "ill-typed and huge arguments, optional out-of-order prefix, requests after the end, disconnect) against a real DebugSession over an "
              "in-memory transport and a real debuggee that prints on stdout/stderr while running (0-30 lines per round); the complete transcript "
              "is checked inside Coq against the wire-level spec (consecutive seqs in wire order, one response per request with matching "
              "request_seq/command, lifecycle events once and in order, nothing but responses after terminated, thread events alternate). "
              "Non-trivial: >= 3 request kinds and >= 1 failing request; distinct by transcript.")


def classify(i, meta, v):
    tr = meta.get("transcript", [])
    term = [k for k, x in enumerate(tr) if x.endswith("E terminated")]
    # bit-level diagnosis is in the case; the recorded finding is identified by what follows `terminated`
    if term:
        after = [x for x in tr[term[0] + 1:] if " E " in x]
        if after and all(x.endswith("E output") for x in after):
            # is that the only defect of the transcript? (seq / response checks are re-done here cheaply)
            seqs = [int(x.split()[0]) for x in tr]
            resp = [x.split()[1] for x in tr if x.split()[1].startswith("R")]
            reqs = ["R" + r.split(":")[0] for r in meta.get("requests", [])]
            if seqs == list(range(1, len(seqs) + 1)) and resp == reqs[:len(resp)] and len(resp) == len(reqs):
                return ("c12-e2e:output-after-terminated", True, "output event(s) after terminated")
    return ("c12-e2e:spec", True, "wire-level spec violated")


def run(tier, seed):
    ctx = Ctx(PID, tier, seed, COQ_FILES)
    ctx.translate()
    ok = ctx.coq_build()
    ctx.hygiene()
    if not ok:
        ctx.violate("proof-broken", ctx.broken_proof["where"], ctx.broken_proof, key="proof", found_input=False)
    if tier == "thorough" and ok:
        ctx.coqchk()
    if ctx.harness_build():
        n = 14 if tier == "quick" else 150
        run_classified_leg(ctx, "c12-e2e", [seed, n, ctx.cases_dir, ctx.scratch],
                           "the adapter's transcript violates the DAP wire contract", classify)
    return ctx.finish(["transport writes succeed; JSON payloads abstracted to (kind, request_seq, command, thread id / exit code)",
                       "per-handler path coverage is by generated requests, not by proof (handlers are scripts over the messaging primitives in the theorems)"])
