import sys, os
sys.path.insert(0, os.path.dirname(os.path.abspath(__file__)))
import C01 as base
from common import RULES

PID = "C02"
COQ_FILES = ["Model/Base.v", "Model/BpSpec.v", "Model/BpMachine.v", "Proofs/BpMachineProofs.v", "Gen/Bp.v", "Ties/BpTie.v", "Gen/Step.v", "Ties/StepTie.v", "Properties/C02.v"]
RULES[PID] = ("same histories as C01; after every command and at every stop the executable mapping of the program is read from /proc/<pid>/mem and "
              "compared byte by byte with the ELF file: the differing addresses must be exactly the user's current breakpoints plus the ELF entry point; "
              "before start nothing may differ; at the end stdout/stderr and the exit status must equal a native run. Non-trivial as for C01. Step commands: the "
              "step histories of the c03-e2e leg (stepi / step / next / finish on generated programs and the directed ones) compare the text with the ELF file after "
              "every step command (no temporary breakpoint may stay), and three directed histories interrupt next / step / finish by a handled signal raised inside "
              "the callee, then remove every breakpoint and continue to the exit: no patched byte, no stop at a ghost breakpoint, native output and status.")


STEP_KEYS = ("c03-e2e:text-not-clean", "c03-e2e:ghost-stops", "c03-e2e:behaviour-changed", "c03-e2e:interrupted-step-crash")


def steps_leg(ctx, tier, seed):
    """C02's clause for step commands, observed by the step leg (its landing-place verdicts belong to C03 and are ignored here)."""
    progs, hist, cmds = (1, 3, 20) if tier == "quick" else (6, 8, 40)
    s = ctx.run_leg("c03-e2e", [seed, progs, os.path.join(ctx.cases_dir, "steps"), ctx.scratch, hist, cmds])
    if s is None:
        return
    seen = {}
    for f in s.get("failures", []):
        k = f.get("key")
        if k not in STEP_KEYS or seen.get(k, 0) >= 3:
            continue
        seen[k] = seen.get(k, 0) + 1
        ctx.violate("impl-violates-spec", "c03-e2e (text after step commands)", {"failure": f}, key=k.replace("c03-e2e:", "c02-steps:"), found_input=True)
    d = dict(s)
    for k in ("case_meta", "failures", "files"):
        d.pop(k, None)
    ctx.add_leg(d, {"step_text_failures": sum(seen.values())})


def run(tier, seed):
    return base.run(tier, seed, pid=PID, files=COQ_FILES, extra=steps_leg)
