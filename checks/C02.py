import sys, os
sys.path.insert(0, os.path.dirname(os.path.abspath(__file__)))
import C01 as base
from common import RULES

PID = "C02"
COQ_FILES = ["Model/Base.v", "Model/BpSpec.v", "Model/BpMachine.v", "Proofs/BpMachineProofs.v", "Gen/Bp.v", "Ties/BpTie.v", "Properties/C02.v"]
RULES[PID] = ("same histories as C01; after every command and at every stop the executable mapping of the program is read from /proc/<pid>/mem and "
              "compared byte by byte with the ELF file: the differing addresses must be exactly the user's current breakpoints plus the ELF entry point; "
              "before start nothing may differ; at the end stdout/stderr and the exit status must equal a native run. Non-trivial as for C01.")


def run(tier, seed):
    return base.run(tier, seed, pid=PID, files=COQ_FILES)
