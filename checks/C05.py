from common import Ctx, RULES, standard_unit_leg

PID = "C05"
COQ_FILES = ["Model/Base.v", "Gen/Unwind.v", "Model/Unwind.v", "Gen/Regs.v", "Spec/X86Dwarf.v", "Model/Regs.v",
             "Proofs/UnwindProofs.v", "Proofs/RegsProofs.v", "Properties/C05.v"]
RULES[PID] = ("e2e leg: a debuggee built with -C force-frame-pointers=yes interprets a seeded shape string into nested calls (self recursion, "
              "mutual recursion, closures through dyn Fn, two generic instantiations; depth 1..260 shape letters = up to ~780 frames) and stops in the "
              "innermost call; every fourth history uses a second debuggee whose call chain changes stacks 1-5 times (heap stacks and stacks inside "
              "main's frame, through an assembly routine with complete CFI, recursion 0-60 deep on each) so that CFAs go down as well as up walking outwards; the harness walks the saved-frame-pointer chain itself from PTRACE_GETREGS and /proc/<pid>/mem to get the true "
              "(return address, CFA) list down to main; Coq compares the debugger's backtrace with the model fed with that walk (exact) and with the "
              "list itself (spec). At 4 random frames per stop: frame_info CFA / return address vs the walk, and the arguments `acc`/`i` of that "
              "activation (program invariant acc == i). Non-trivial: a return address repeats in the true stack, or > 10 frames; distinct by shape.")


def run(tier, seed):
    ctx = Ctx(PID, tier, seed, COQ_FILES)
    ctx.translate()
    ok = ctx.coq_build()
    ctx.hygiene()
    if not ok:
        ctx.violate("proof-broken", ctx.broken_proof["where"], ctx.broken_proof, key="proof", found_input=False)
    if tier == "thorough" and ok:
        ctx.coqchk()
    if ctx.harness_build():
        n = 18 if tier == "quick" else 240
        s = standard_unit_leg(ctx, "c05-e2e", [seed, n, ctx.cases_dir, ctx.scratch],
                              "the backtrace is not the real chain of return addresses (frame-pointer walk of the same stopped thread)")
        if s is not None:
            if s.get("errors"):
                ctx.violate("tie-broken", "c05-e2e", {"errors": s["errors"][:5]}, key="c05-e2e:errors", found_input=False)
            if s.get("frame_failures"):
                ctx.violate("impl-violates-spec", "c05-e2e frame selection", {"failures": s["frame_failures"][:6]},
                            key="c05-e2e:frame-select", found_input=True)
            ctx.notes.append("frame selection checks: %s" % s.get("frame_checks"))
    ctx.refuted += [
        {"theorem": "C05_unwind_ip_guard_refuted", "witness": "stack [10;20;20;20;30]: ip-only guard lists [10;20]", "status": "implementation before fix b5227fb"},
        {"theorem": "C05_frame_select_old_refuted", "witness": "selecting frame 1 yields frame 2's callee-saved registers", "status": "implementation before fix c16be73"},
        {"theorem": "C05_regmap_total_refuted", "witness": "DWARF register 16 (return address) has no arm in From<gimli::Register> (panic)", "status": "not reached by generated programs; recorded"},
    ]
    return ctx.finish(["gimli's CFI evaluation and the compiler's .eh_frame are assumed correct (step/ra/set_sp are parameters of the theorems); "
                       "the e2e leg cross-checks them against the frame-pointer chain",
                       "CFAs strictly increase towards callers (x86-64 stack grows down)"])
