"""Shared machinery of /verif/bin/check (python3 stdlib only).

A check = translator -> Coq build of the property's .vo closure -> hygiene scan and
Print Assumptions allow-list -> harness build against /repo's working tree (feature
`verif`) -> correspondence / ground-truth legs -> evaluation of cases_*.v inside Coq ->
evidence file + VIOLATION / KNOWN-FINDING lines.
"""
import fcntl
import hashlib
import json
import os
import re
import shutil
import subprocess
import sys
import time
from concurrent.futures import ThreadPoolExecutor

ROOT = os.path.dirname(os.path.dirname(os.path.abspath(__file__)))
COQ = os.path.join(ROOT, "coq")
THEORIES = os.path.join(COQ, "theories")
HARNESS = os.path.join(ROOT, "harness")
REPO = os.environ.get("VERIF_REPO", "/repo")
BSV = os.path.join(HARNESS, "target", "release", "bsv")
NCPU = os.cpu_count() or 4

ALLOWED_AXIOMS = {
    # standard-library axioms only; each is named in the evidence when it appears
    "functional_extensionality_dep",
    "FunctionalExtensionality.functional_extensionality_dep",
    "Coq.Logic.FunctionalExtensionality.functional_extensionality_dep",
    "proof_irrelevance",
    "Eqdep.Eq_rect_eq.eq_rect_eq",
    "Coq.Logic.Eqdep.Eq_rect_eq.eq_rect_eq",
    "JMeq_eq",
    "Coq.Logic.JMeq.JMeq_eq",
}

TRUSTED_BASE = [
    "Coq 8.16.1 kernel (coqc; coqchk in the thorough tier); vm_compute used for finite sweeps, witnesses and case evaluation; no native_compute",
    "gen/extract.py translator (regex-level reading of constants and tables from /repo sources)",
    "harness case writers (printing of integers/lists as Gallina terms) and the scanner of coqc's printed mismatch list",
    "no extraction: models are evaluated inside Coq",
]


def log(msg):
    print(msg, flush=True)


def sh(cmd, cwd=None, timeout=None, env=None, check=False):
    e = dict(os.environ)
    e["CARGO_NET_OFFLINE"] = "true"
    if env:
        e.update(env)
    p = subprocess.run(cmd, cwd=cwd, shell=isinstance(cmd, str), stdout=subprocess.PIPE,
                       stderr=subprocess.STDOUT, timeout=timeout, env=e, text=True, errors="replace")
    if check and p.returncode != 0:
        raise RuntimeError("command failed: %s\n%s" % (cmd, p.stdout[-4000:]))
    return p.returncode, p.stdout


class Lock:
    def __init__(self, name):
        self.path = os.path.join(ROOT, ".lock_" + name)

    def __enter__(self):
        self.f = open(self.path, "w")
        fcntl.flock(self.f, fcntl.LOCK_EX)
        return self

    def __exit__(self, *a):
        fcntl.flock(self.f, fcntl.LOCK_UN)
        self.f.close()


class Violation:
    def __init__(self, kind, where, detail, key, found_input):
        self.kind = kind            # impl-violates-spec | tie-broken | proof-broken | hygiene
        self.where = where          # theorem or leg name
        self.detail = detail        # dict
        self.key = key              # stable key matched against known_findings.txt
        self.found_input = found_input


class Ctx:
    def __init__(self, pid, tier, seed, coq_files, title=""):
        self.pid = pid
        self.tier = tier
        self.seed = seed
        self.t0 = time.time()
        self.coq_files = coq_files          # theories-relative .v files this property depends on
        self.violations = []
        self.known_hits = []
        self.legs = []                      # per-leg coverage dicts
        self.samples = []
        self.assumptions = []
        self.axioms_seen = []
        self.obligations = 0
        self.discharged = 0
        self.theorems = []
        self.notes = []
        self.scratch = os.path.join(ROOT, ".scratch", "%s_%d" % (pid, os.getpid()))
        self.cases_dir = os.path.join(COQ, "cases", "%s_%d" % (pid, os.getpid()))
        self.refuted = []
        self.body_hashes = {}
        self.proof_ok = False

    # ---------- translator ----------
    def translate(self):
        with Lock("coq"):
            only = ",".join(os.path.basename(f) for f in self.coq_files if f.startswith("Gen/"))
            rc, out = sh([sys.executable, os.path.join(ROOT, "gen", "extract.py"), "--only", only], cwd=ROOT, timeout=300)
        if rc != 0:
            self.violate("tie-broken", "translator gen/extract.py", {"output": out[-3000:]},
                         key="translator", found_input=False)
            return False
        try:
            self.body_hashes = json.load(open(os.path.join(ROOT, "gen", "body_hashes.json")))
        except Exception:
            self.body_hashes = {}
        return True

    # ---------- Coq ----------
    def coq_build(self):
        """make the .vo closure of this property's files; count obligations/discharged."""
        targets = ["theories/" + f[:-2] + ".vo" for f in self.coq_files]
        with Lock("coq"):
            if not os.path.exists(os.path.join(COQ, "Makefile")):
                sh("coq_makefile -f _CoqProject -o Makefile", cwd=COQ, timeout=120, check=True)
            rc, out = sh(["timeout", "3000", "make", "-j%d" % NCPU, "-k"] + targets, cwd=COQ, timeout=3100)
        pat = re.compile(r"^\s*(Theorem|Lemma|Corollary|Example|Fact|Proposition|Remark)\s+([A-Za-z0-9_']+)", re.M)
        broken = []
        for f in self.coq_files:
            src = strip_comments(open(os.path.join(THEORIES, f)).read())
            names = pat.findall(src)
            self.obligations += len(names)
            vo = os.path.join(THEORIES, f[:-2] + ".vo")
            v = os.path.join(THEORIES, f)
            if os.path.exists(vo) and os.path.getmtime(vo) >= os.path.getmtime(v) and rc == 0:
                self.discharged += len(names)
            elif os.path.exists(vo) and os.path.getmtime(vo) >= os.path.getmtime(v) and ("theories/" + f) not in out:
                self.discharged += len(names)
            else:
                broken.append(f)
            if f.startswith(("Properties/", "Ties/")):
                self.theorems += [n for k, n in names if k == "Theorem"]
        self.proof_ok = (rc == 0)
        if rc != 0:
            m = re.search(r'File "\./(theories/[^"]+)", line (\d+)', out)
            where = "%s:%s" % (m.group(1), m.group(2)) if m else ",".join(broken) or "coq build"
            self.broken_proof = {"where": where, "output": out[-3000:], "files": broken}
        return rc == 0

    def hygiene(self):
        """forbidden declarations anywhere in the development + axioms of every property theorem."""
        bad = []
        for dp, _, fs in os.walk(THEORIES):
            for fn in fs:
                if not fn.endswith(".v"):
                    continue
                path = os.path.join(dp, fn)
                src = strip_comments(open(path).read())
                for m in re.finditer(r"\b(Admitted|admit|Axiom|Axioms|Parameter|Parameters|Conjecture|Admit Obligations|bypass_check)\b|Unset\s+Guard|Unset\s+Positivity|Unset\s+Universe\s+Checking|type-in-type|impredicative-set", src):
                    bad.append("%s: %s" % (os.path.relpath(path, ROOT), m.group(0)))
                depth = 0
                for line in src.split("\n"):
                    s = line.strip()
                    if re.match(r"^(Section|Module)\s+\w+\s*\.", s) or re.match(r"^Module\s+(Type\s+)?\w+\s*\.", s):
                        depth += 1
                    elif re.match(r"^End\s+\w+\s*\.", s):
                        depth -= 1
                    elif depth <= 0 and re.match(r"^(Variable|Variables|Hypothesis|Hypotheses|Context)\b", s):
                        bad.append("%s: section-less %s" % (os.path.relpath(path, ROOT), s[:40]))
        proj = open(os.path.join(COQ, "_CoqProject")).read()
        if re.search(r"type-in-type|impredicative-set|-vos|-vok", proj):
            bad.append("_CoqProject: forbidden flag")
        if bad:
            self.violate("hygiene", "hygiene scan", {"found": bad[:20]}, key="hygiene", found_input=False)
        # Print Assumptions of every theorem of the property file
        props = [f for f in self.coq_files if f.startswith(("Properties/", "Ties/"))]
        if props and self.proof_ok:
            os.makedirs(self.cases_dir, exist_ok=True)
            fn = os.path.join(self.cases_dir, "assum_%s.v" % self.pid)
            with open(fn, "w") as w:
                for f in props:
                    w.write("From BS Require Import %s.\n" % f[:-2].replace("/", "."))
                for t in self.theorems:
                    w.write('Print Assumptions %s.\n' % t)
            rc, out = sh(["timeout", "600", "coqc", "-Q", THEORIES, "BS", fn], cwd=COQ, timeout=700)
            if rc != 0:
                self.violate("proof-broken", "Print Assumptions", {"output": out[-2000:]}, key="assumptions", found_input=False)
            else:
                blocks = re.split(r"(?=Closed under the global context|Axioms:)", out)
                closed = sum(1 for b in blocks if b.startswith("Closed under"))
                axioms = set()
                for b in blocks:
                    if b.startswith("Axioms:"):
                        for m in re.finditer(r"^([A-Za-z_][\w.']*)\s*:", b[len("Axioms:"):], re.M):
                            axioms.add(m.group(1))
                self.axioms_seen = sorted(axioms)
                notallowed = [a for a in axioms if a not in ALLOWED_AXIOMS and a.split(".")[-1] not in ALLOWED_AXIOMS]
                if notallowed:
                    self.violate("hygiene", "Print Assumptions", {"axioms": notallowed}, key="axioms", found_input=False)
                self.notes.append("Print Assumptions: %d theorems closed under the global context, axioms: %s"
                                  % (closed, ", ".join(self.axioms_seen) or "none"))
        return not bad

    def coqchk(self):
        mods = ["BS." + f[:-2].replace("/", ".") for f in self.coq_files if f.startswith(("Properties/", "Ties/"))]
        rc, out = sh(["timeout", "1800", "coqchk", "-silent", "-o", "-Q", THEORIES, "BS"] + mods, cwd=COQ, timeout=1900)
        ok = rc == 0
        m = re.search(r"\* Axioms:\s*(.*?)(\n\s*\n|\Z)", out, re.S)
        ax = m.group(1).strip() if m else "?"
        self.notes.append("coqchk -o: rc=%d axioms: %s" % (rc, " ".join(ax.split())[:400]))
        if not ok:
            self.violate("proof-broken", "coqchk", {"output": out[-2000:]}, key="coqchk", found_input=False)
        return ok

    # ---------- harness ----------
    def harness_build(self):
        with Lock("harness"):
            lock = os.path.join(HARNESS, "Cargo.lock")
            if not os.path.exists(lock):
                shutil.copy(os.path.join(REPO, "Cargo.lock"), lock)
            rc, out = sh(["cargo", "build", "--release", "--offline"], cwd=HARNESS, timeout=3000)
        if rc != 0:
            self.violate("tie-broken", "harness build against /repo (feature verif)",
                         {"output": out[-3000:]}, key="harness-build", found_input=False)
            return False
        return True

    def run_leg(self, leg, args, timeout=None, env=None):
        """run a harness leg; its last stdout line is a JSON summary."""
        if timeout is None:
            # generous: the machine may be loaded by other jobs; a timeout is reported as a broken tie
            timeout = 1800 if self.tier == "quick" else 7200
        os.makedirs(self.cases_dir, exist_ok=True)
        os.makedirs(self.scratch, exist_ok=True)
        cmd = [BSV, leg] + [str(a) for a in args]
        try:
            rc, out = sh(cmd, cwd=HARNESS, timeout=timeout, env=env)
        except subprocess.TimeoutExpired:
            self.violate("tie-broken", leg, {"error": "leg timed out after %ss" % timeout}, key=leg + ":timeout", found_input=False)
            return None
        lines = [l for l in out.strip().split("\n") if l.startswith("{")]
        if rc != 0 or not lines:
            self.violate("tie-broken", leg, {"rc": rc, "output": out[-3000:]}, key=leg + ":crash", found_input=False)
            return None
        try:
            return json.loads(lines[-1])
        except Exception as ex:
            self.violate("tie-broken", leg, {"error": str(ex), "output": out[-2000:]}, key=leg + ":json", found_input=False)
            return None

    def eval_cases(self, files, leg):
        """coqc each cases file in parallel; returns list of (file, idx, verdict, case_text)."""
        def one(fn):
            rc, out = sh(["timeout", "1500", "coqc", "-noglob", "-Q", THEORIES, "BS", fn], cwd=COQ, timeout=1600)
            return fn, rc, out
        res = []
        with ThreadPoolExecutor(max_workers=NCPU) as ex:
            outs = list(ex.map(one, files))
        for fn, rc, out in outs:
            if rc != 0:
                self.violate("tie-broken", leg, {"file": fn, "error": "cases file does not evaluate", "output": out[-2000:]},
                             key=leg + ":eval", found_input=False)
                continue
            m = re.search(r"bad\s*=\s*(.*?)\s*:\s*list", out, re.S)
            if not m:
                self.violate("tie-broken", leg, {"file": fn, "output": out[-1000:]}, key=leg + ":parse", found_input=False)
                continue
            pairs = re.findall(r"\(\s*(\d+)(?:%N)?\s*,\s*(\d+)(?:%N)?\s*\)", m.group(1))
            # every element of the printed list must have been recognised (Coq wraps long lists)
            if m.group(1).count("(") != len(pairs):
                self.violate("tie-broken", leg, {"file": fn, "error": "could not scan the mismatch list", "output": m.group(1)[:500]},
                             key=leg + ":parse", found_input=False)
            if pairs:
                lines = case_lines(fn)
                for i, v in pairs:
                    i = int(i)
                    res.append((fn, i, int(v), lines[i] if i < len(lines) else "?"))
        return res

    def cleanup(self):
        shutil.rmtree(self.cases_dir, ignore_errors=True)
        shutil.rmtree(self.scratch, ignore_errors=True)

    # ---------- results ----------
    def violate(self, kind, where, detail, key, found_input):
        self.violations.append(Violation(kind, where, detail, key, found_input))

    def add_leg(self, summary, extra=None):
        if summary is None:
            return
        d = dict(summary)
        d.pop("files", None)
        for s in d.pop("samples", []) or []:
            if len(self.samples) < 6:
                self.samples.append({"leg": d.get("leg"), "case": s})
        if extra:
            d.update(extra)
        self.legs.append(d)

    def finish(self, level_text_assumptions=None, extra_cov=None):
        known = load_known_findings().get(self.pid, [])
        real = []
        for v in self.violations:
            hit = next((k for k in known if k["key"] == v.key), None)
            if hit is not None:
                self.known_hits.append((hit, v))
            else:
                real.append(v)
        os.makedirs(os.path.join(ROOT, "replays"), exist_ok=True)
        printed = set()
        for hit, v in self.known_hits:
            line = "KNOWN-FINDING: property=%s %s" % (self.pid, hit["what"])
            if line not in printed:
                log(line)
                printed.add(line)
        rc = 0
        for n, v in enumerate(real):
            rp = os.path.join(ROOT, "replays", "%s_%s_%d_%d.json" % (self.pid, self.tier, self.seed, n))
            json.dump({"property": self.pid, "kind": v.kind, "theorem_or_leg": v.where, "seed": self.seed,
                       "tier": self.tier, "key": v.key, "detail": v.detail,
                       "failing_input_found": bool(v.found_input)}, open(rp, "w"), indent=1, default=str)
            tail = "" if v.found_input else " no-failing-input-found"
            log("VIOLATION property=%s replay=%s%s" % (self.pid, rp, tail))
            rc = 1
        evaluations = sum(int(l.get("cases", 0)) for l in self.legs)
        dn = sum(int(l.get("distinct_nontrivial", 0)) for l in self.legs)
        cov = {
            "obligations": max(self.obligations, 1),
            "discharged": self.discharged,
            "checker_cmd": "cd /verif/coq && make -j16 " + " ".join("theories/" + f[:-2] + ".vo" for f in self.coq_files if f.startswith("Properties/"))
                           + "  (full .vo build by coqc 8.16.1; Print Assumptions on every property theorem; coqchk -o in the thorough tier)",
            "trusted_base": TRUSTED_BASE + ["axioms reported by Print Assumptions: %s" % (", ".join(self.axioms_seen) or "none (closed under the global context)")],
            "theorems": self.theorems,
            "refuted_statements": self.refuted,
            "evaluations": evaluations,
            "distinct_nontrivial": dn,
            "rule": RULES.get(self.pid, ""),
            "samples": self.samples or [{"theorems": self.theorems}],
            "legs": self.legs,
            "modelled_function_body_hashes": self.body_hashes.get(self.pid, {}),
            "known_findings_reported": [h["what"] for h, _ in self.known_hits],
            "notes": self.notes,
        }
        if extra_cov:
            cov.update(extra_cov)
        ev = {"property_id": self.pid, "tier": self.tier, "seed": self.seed, "level": "proof",
              "coverage": cov, "assumptions": (level_text_assumptions or []) + self.assumptions,
              "wall_s": round(time.time() - self.t0, 1), "violations": len(real)}
        os.makedirs(os.path.join(ROOT, "evidence"), exist_ok=True)
        json.dump(ev, open(os.path.join(ROOT, "evidence", self.pid + ".json"), "w"), indent=1, default=str)
        self.cleanup()
        log("%s %s: %d obligations / %d discharged, %d cases (%d distinct non-trivial), %d violations, %d known findings, %.0fs"
            % (self.pid, self.tier, self.obligations, self.discharged, evaluations, dn, len(real), len(self.known_hits), time.time() - self.t0))
        return rc


RULES = {}


def strip_comments(src):
    out = []
    depth = 0
    i = 0
    n = len(src)
    while i < n:
        if src.startswith("(*", i):
            depth += 1
            i += 2
        elif src.startswith("*)", i) and depth > 0:
            depth -= 1
            i += 2
        else:
            if depth == 0:
                out.append(src[i])
            elif src[i] == "\n":
                out.append("\n")
            i += 1
    return "".join(out)


def case_lines(fn):
    """the case terms of a cases file, one per line between `:= [` and `].`"""
    lines = []
    inside = False
    for l in open(fn):
        if not inside:
            if l.rstrip().endswith(":= ["):
                inside = True
            continue
        if l.strip() == "].":
            break
        lines.append(l.strip().rstrip(";"))
    return lines


def load_known_findings():
    """known_findings.txt: `finding: property=Cxx key=<key> <what fails>`; `fixed:` lines suppress nothing."""
    res = {}
    p = os.path.join(ROOT, "known_findings.txt")
    if not os.path.exists(p):
        return res
    for l in open(p):
        l = l.strip()
        m = re.match(r"^finding:\s+property=(C\d+)\s+key=(\S+)\s+(.*)$", l)
        if m:
            res.setdefault(m.group(1), []).append({"key": m.group(2), "what": m.group(3)})
    return res


def standard_unit_leg(ctx, leg, args, what):
    """run a unit correspondence leg and turn mismatches into violations."""
    summ = ctx.run_leg(leg, args)
    if summ is None:
        return None
    bad = ctx.eval_cases(summ.get("files", []), leg)
    for fn, i, v, text in bad[:5]:
        if v >= 2:
            ctx.violate("impl-violates-spec", leg, {"case_index": i, "file": os.path.basename(fn), "case": text[:4000],
                                                    "what": what, "replay": "%s %s" % (leg, " ".join(map(str, args)))},
                        key="%s:spec" % leg, found_input=True)
        else:
            ctx.violate("tie-broken", leg, {"case_index": i, "file": os.path.basename(fn), "case": text[:4000],
                                            "what": "implementation differs from the model; the spec comparison on every generated case found no failing input",
                                            "replay": "%s %s" % (leg, " ".join(map(str, args)))},
                        key="%s:model" % leg, found_input=False)
    ctx.add_leg(summ, {"mismatches": len(bad)})
    return summ
