#!/usr/bin/env python3
"""Regenerates /verif/MANIFEST.json from the table below (keeps it schema-valid at all times)."""
import json
import os

ROOT = os.path.dirname(os.path.dirname(os.path.abspath(__file__)))

TB = ("Trusted: Coq 8.16.1 kernel (+coqchk in thorough), vm_compute; the translator gen/extract.py; the Rust harness "
      "(generators, canonicalisers, case printers) and bin/check. Modelled, not verified: see DESIGN.md section 8 and the per-property 'Not covered'.")

CLAIMED = {
    "C17": dict(
        text=("Theorems (Coq, unbounded): for every insert sequence and every needle the path index returns exactly the values whose path "
              "ends component-wise with the needle (C17_index_refines, no_false_match, no_miss); symbol lookup returns exactly the matching "
              "names once. Tie: the real PathSearchIndex is run on seeded insert/query sequences and compared inside Coq with the model and the spec."),
        ref="DESIGN.md section 5 C17",
        technique="Coq proof (induction over inserts, index invariant) + differential correspondence against the real PathSearchIndex evaluated by vm_compute",
        note=TB + " Interner injectivity; regex/rustc_demangle enter as a predicate."),
    "C14": dict(
        text=("Theorems (Coq, unbounded op sequences and thread counts): every thread's DR0-3/DR7, decoded as the CPU decodes them, equals the "
              "registry's active set slot by slot (C14_invariant), at most four, refusals without side effects, slot reuse, DR6 flush; DR7 encodings "
              "proved equal to the architecture's over constants regenerated from the source. Tie: bit functions and real multi-threaded watchpoint "
              "histories (PTRACE_PEEKUSER of every thread) replayed through the model and the spec inside Coq."),
        ref="DESIGN.md section 5 C14",
        technique="Coq proof (machine invariant by induction over commands; bit-level lemmas by testbit rewriting) + translator for DR constants + differential correspondence (unit and end-to-end) evaluated by vm_compute",
        note=TB + " ptrace debug-register writes are assumed to succeed in the theorem (the e2e leg observes what the kernel really holds); data-breakpoint delivery is not available on this machine, so hit reporting is not exercised."),
    "C15": dict(
        text=("Theorems (Coq): read_memory returns exactly the requested bytes iff all are mapped, at any alignment/length (C15_read_exact); write_bytes "
              "changes exactly [a,a+n) for any alignment and length and fails with EIO when a target byte is unmapped (C15_write_exact / _unmapped_fails), by "
              "induction over the word loops; register update/read and user_regs round trips over tables regenerated from the source. Tie: real reads and "
              "writes on a debuggee with holes, PROT_NONE and read-only pages, decided in Coq against /proc/<pid>/mem snapshots; registers against PTRACE_GETREGS."),
        ref="DESIGN.md section 5 C15",
        technique="Coq proof (induction over the peek/poke word loops) + translator for register tables + end-to-end differential correspondence evaluated by vm_compute",
        note=TB + " ptrace word semantics (8 bytes, EIO unless all mapped) and page-granular mappings are assumed; disassembly masking and DAP setVariable are not yet in the model."),
    "C05": dict(
        text=("Theorems (Coq, any stack depth below the cap, any CFI supplied as functions): the unwinder's loop returns the complete chain of return "
              "addresses whenever no (return address, CFA) pair repeats (C05_unwind_complete, with CFAs strictly increasing this covers every recursion); "
              "registers restored for a selected frame are those the unwinder derives that frame from (C05_frame_select); register-number tables equal the "
              "psABI's. The loop's guard key, loop bounds and outermost-frame handling are read from the source by the translator. Tie: real backtraces, "
              "frame_info and argument reads at depths up to ~780 frames against the harness's own frame-pointer walk, decided in Coq."),
        ref="DESIGN.md section 5 C05",
        technique="Coq proof (loop invariant by induction on fuel, generic in the CFI oracle) + translator (guard key, loop bounds, register tables) + end-to-end differential correspondence against a frame-pointer walk",
        note=TB + " gimli's CFI evaluation and compiler-emitted .eh_frame are parameters of the theorems (cross-checked only against the rbp chain)."),
    "C01": dict(
        text=("Theorems (Coq, arbitrary native traces, hence any loop/recursion): from any prompt of the patch machine `continue` stops at the first later "
              "position that carries a user breakpoint, with its true pc and number, leaves registry and memory as they were, and ends with the whole trace "
              "executed otherwise (C01_projection_partial); removal by address silences the location (C01_removed_silent_partial); memory = image + 0xCC patches "
              "at every prompt. Partial: needs no self-jumping instruction and starts from an established prompt; refuted corner cases are stated "
              "(`break remove 0`, removal after exit, self-loop). Tie: real breakpoint histories on generated programs against the harness's own native "
              "instruction trace, decided in Coq by the trace-level spec."),
        ref="DESIGN.md section 5 C01",
        technique="Coq proof (patch-machine invariant over an arbitrary native trace) + end-to-end differential correspondence against an independent single-step trace, evaluated by vm_compute",
        note=TB + " x86 int3 semantics at the level 'fetching 0xCC traps with pc+1'; breakpoints at instruction starts; single-threaded."),
    "C02": dict(
        text=("Theorems (Coq): the executed instruction sequence at every prompt is a prefix of the native trace (C02_transparent_partial), stepping over a "
              "breakpoint executes the original instruction exactly once and restores memory (C02_step_over_once, adjacent breakpoints in one word do not disturb "
              "each other), detach/drop leave memory equal to the image (C02_clean_after_detach_partial); early-return paths that leak temporaries are refuted with a "
              "witness. Tie: after every command of real histories the program's executable mapping is compared byte by byte with the ELF file (difference = the "
              "user's breakpoints + the entry point) and output/exit status with a native run."),
        ref="DESIGN.md section 5 C02",
        technique="Coq proof (patch-machine invariant) + end-to-end byte-level comparison of /proc/<pid>/mem with the ELF image after every command",
        note=TB + " step*/call/watch commands are covered by the C03/C16/C14 checks, not by this leg yet."),
    "C12": dict(
        text=("Theorems (Coq, any request sequence, any handler scripts, any schedule of the forwarder threads): with sequence numbers taken under the transport "
              "lock - which the translator reads from the source - the wire carries 1,2,3,... in order for every interleaving (C12_seq_discipline); every request "
              "whose handler answers at most once gets exactly one response with matching request_seq/command (C12_one_response_now); a failing handler is answered "
              "with an error exactly when it has not answered; lifecycle events at most once and in order for any event queue (C12_drain_lifecycle). Open "
              "refutations are stated with witnesses. Tie: real request histories with concurrent debuggee output against a real DebugSession; transcripts "
              "decided in Coq by the wire-level spec."),
        ref="DESIGN.md section 5 C12",
        technique="Coq proof (interleaving semantics of lock/alloc/write actions, induction over schedules and request lists) + translator (where sequence numbers are taken, run-loop guard) + end-to-end transcripts checked by vm_compute",
        note=TB + " handlers enter the theorems as arbitrary scripts over the messaging primitives; per-handler path coverage is by generated requests."),
}

NOT_YET = {
    "C20": "not applicable: the property is agreement with the tokio runtime's internal structures (tokio 1.40-1.44); no tokio source, crate or binary exists in this sealed sandbox, so no executable model can be tied to anything real (DESIGN.md section 5 C20)",
}


def main():
    props = [json.loads(l) for l in open(os.path.join(ROOT, "properties.jsonl"))]
    checks = []
    na = []
    for p in props:
        pid = p["id"]
        if pid in CLAIMED:
            c = CLAIMED[pid]
            checks.append({
                "property_id": pid,
                "quick_cmd": "./bin/check %s --tier quick" % pid,
                "thorough_cmd": "./bin/check %s --tier thorough" % pid,
                "evidence_file": "/verif/evidence/%s.json" % pid,
                "replay_cmd_template": "./bin/check %s --replay {path}" % pid,
                "engine": "coq-model+harness",
                "level_claimed": {"category": "proof", "text": c["text"], "design_ref": c["ref"]},
                "level_note": c["note"],
                "technique": c["technique"],
            })
        else:
            na.append({"property_id": pid, "reason": NOT_YET.get(pid, "not claimed yet: model, theorems and tie for this property are not built in the committed state (work in progress, see DESIGN.md section 10)")})
    m = {
        "version": 1,
        "setup_cmd": "./bin/setup",
        "hooks": {
            "guard": "cargo feature `verif` (#[cfg(feature = \"verif\")])",
            "enable": "the harness crate /verif/harness depends on bugstalker = { path = \"/repo\", features = [\"verif\"] } and is rebuilt by every check",
            "baseline_off_cmd": "cd /repo && cargo nextest run --workspace --no-fail-fast --tool-config-file pb:/w/lib/nextest.toml --profile pb --test-threads 8 --offline || cargo test --workspace --no-fail-fast --offline",
            "source_commits": [l.split()[0] for l in os.popen("git -C /repo log --format='%h %s' | grep -i 'verif hook'").read().strip().split("\n") if l.strip()],
            "add_only": True,
        },
        "engines": [
            {"name": "coq-model+harness", "path": "/verif/coq, /verif/harness, /verif/bin/check",
             "serves_properties": sorted(CLAIMED.keys()),
             "kind_free_text": "Gallina models + theorems (coqc full .vo build), translator for constants, Rust harness running the real code; models evaluated by vm_compute on the same inputs"},
        ],
        "checks": checks,
        "not_applicable": na,
        "notes": "Single entry point bin/check; known_findings.txt lists recorded genuine defects (KNOWN-FINDING lines); see DESIGN.md.",
    }
    json.dump(m, open(os.path.join(ROOT, "MANIFEST.json"), "w"), indent=1)


if __name__ == "__main__":
    main()
