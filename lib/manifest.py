#!/usr/bin/env python3
"""Regenerates /verif/MANIFEST.json from the table below (keeps it schema-valid at all times)."""
import json
import os

ROOT = os.path.dirname(os.path.dirname(os.path.abspath(__file__)))

TB = ("Trusted: Coq 8.16.1 kernel (+coqchk in thorough), vm_compute; the translator gen/extract.py; the Rust harness "
      "(generators, canonicalisers, case printers) and bin/check. Modelled, not verified: see DESIGN.md section 8 and the per-property 'Not covered'.")

CLAIMED = {
    "C17": dict(
        text=("Theorems (Coq, unbounded): for every insert sequence and every needle the path index returns exactly the values whose path "
              "ends component-wise with the needle (C17_index_refines, no_false_match, no_miss); symbol lookup returns exactly the matching "
              "names once. Tie: the real PathSearchIndex is run on seeded insert/query sequences and compared inside Coq with the model and the spec."),
        ref="DESIGN.md section 5 C17",
        technique="Coq proof (induction over inserts, index invariant) + differential correspondence against the real PathSearchIndex evaluated by vm_compute",
        note=TB + " Interner injectivity; regex/rustc_demangle enter as a predicate."),
    "C14": dict(
        text=("Theorems (Coq, unbounded op sequences and thread counts): every thread's DR0-3/DR7, decoded as the CPU decodes them, equals the "
              "registry's active set slot by slot (C14_invariant), at most four, refusals without side effects, slot reuse, DR6 flush; DR7 encodings "
              "proved equal to the architecture's over constants regenerated from the source. Tie: bit functions and real multi-threaded watchpoint "
              "histories (PTRACE_PEEKUSER of every thread) replayed through the model and the spec inside Coq."),
        ref="DESIGN.md section 5 C14",
        technique="Coq proof (machine invariant by induction over commands; bit-level lemmas by testbit rewriting) + translator for DR constants + differential correspondence (unit and end-to-end) evaluated by vm_compute",
        note=TB + " ptrace debug-register writes are assumed to succeed in the theorem (the e2e leg observes what the kernel really holds); data-breakpoint delivery is not available on this machine, so hit reporting is not exercised."),
    "C15": dict(
        text=("Theorems (Coq): read_memory returns exactly the requested bytes iff all are mapped, at any alignment/length (C15_read_exact); write_bytes "
              "changes exactly [a,a+n) for any alignment and length and fails with EIO when a target byte is unmapped (C15_write_exact / _unmapped_fails), by "
              "induction over the word loops; register update/read and user_regs round trips over tables regenerated from the source. Tie: real reads and "
              "writes on a debuggee with holes, PROT_NONE and read-only pages, decided in Coq against /proc/<pid>/mem snapshots; registers against PTRACE_GETREGS."),
        ref="DESIGN.md section 5 C15",
        technique="Coq proof (induction over the peek/poke word loops) + translator for register tables + end-to-end differential correspondence evaluated by vm_compute",
        note=TB + " ptrace word semantics (8 bytes, EIO unless all mapped) and page-granular mappings are assumed; disassembly masking and DAP setVariable are not yet in the model."),
    "C05": dict(
        text=("Theorems (Coq, any stack depth below the cap, any CFI supplied as functions): the unwinder's loop returns the complete chain of return "
              "addresses whenever no (return address, CFA) pair repeats (C05_unwind_complete, with CFAs strictly increasing this covers every recursion); "
              "registers restored for a selected frame are those the unwinder derives that frame from (C05_frame_select); register-number tables equal the "
              "psABI's. The loop's guard key, loop bounds and outermost-frame handling are read from the source by the translator. Tie: real backtraces, "
              "frame_info and argument reads at depths up to ~780 frames against the harness's own frame-pointer walk, decided in Coq."),
        ref="DESIGN.md section 5 C05",
        technique="Coq proof (loop invariant by induction on fuel, generic in the CFI oracle) + translator (guard key, loop bounds, register tables) + end-to-end differential correspondence against a frame-pointer walk",
        note=TB + " gimli's CFI evaluation and compiler-emitted .eh_frame are parameters of the theorems (cross-checked only against the rbp chain)."),
}

NOT_YET = {
    "C20": "not applicable: the property is agreement with the tokio runtime's internal structures (tokio 1.40-1.44); no tokio source, crate or binary exists in this sealed sandbox, so no executable model can be tied to anything real (DESIGN.md section 5 C20)",
}


def main():
    props = [json.loads(l) for l in open(os.path.join(ROOT, "properties.jsonl"))]
    checks = []
    na = []
    for p in props:
        pid = p["id"]
        if pid in CLAIMED:
            c = CLAIMED[pid]
            checks.append({
                "property_id": pid,
                "quick_cmd": "./bin/check %s --tier quick" % pid,
                "thorough_cmd": "./bin/check %s --tier thorough" % pid,
                "evidence_file": "/verif/evidence/%s.json" % pid,
                "replay_cmd_template": "./bin/check %s --replay {path}" % pid,
                "engine": "coq-model+harness",
                "level_claimed": {"category": "proof", "text": c["text"], "design_ref": c["ref"]},
                "level_note": c["note"],
                "technique": c["technique"],
            })
        else:
            na.append({"property_id": pid, "reason": NOT_YET.get(pid, "not claimed yet: model, theorems and tie for this property are not built in the committed state (work in progress, see DESIGN.md section 10)")})
    m = {
        "version": 1,
        "setup_cmd": "./bin/setup",
        "hooks": {
            "guard": "cargo feature `verif` (#[cfg(feature = \"verif\")])",
            "enable": "the harness crate /verif/harness depends on bugstalker = { path = \"/repo\", features = [\"verif\"] } and is rebuilt by every check",
            "baseline_off_cmd": "cd /repo && cargo nextest run --workspace --no-fail-fast --tool-config-file pb:/w/lib/nextest.toml --profile pb --test-threads 8 --offline || cargo test --workspace --no-fail-fast --offline",
            "source_commits": [l.split()[0] for l in os.popen("git -C /repo log --format='%h %s' | grep -i 'verif hook'").read().strip().split("\n") if l.strip()],
            "add_only": True,
        },
        "engines": [
            {"name": "coq-model+harness", "path": "/verif/coq, /verif/harness, /verif/bin/check",
             "serves_properties": sorted(CLAIMED.keys()),
             "kind_free_text": "Gallina models + theorems (coqc full .vo build), translator for constants, Rust harness running the real code; models evaluated by vm_compute on the same inputs"},
        ],
        "checks": checks,
        "not_applicable": na,
        "notes": "Single entry point bin/check; known_findings.txt lists recorded genuine defects (KNOWN-FINDING lines); see DESIGN.md.",
    }
    json.dump(m, open(os.path.join(ROOT, "MANIFEST.json"), "w"), indent=1)


if __name__ == "__main__":
    main()
