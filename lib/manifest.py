#!/usr/bin/env python3
"""Regenerates /verif/MANIFEST.json from the table below (keeps it schema-valid at all times)."""
import json
import os

ROOT = os.path.dirname(os.path.dirname(os.path.abspath(__file__)))

TB = ("Trusted: Coq 8.16.1 kernel (+coqchk in thorough), vm_compute; the translator gen/extract.py; the Rust harness "
      "(generators, canonicalisers, case printers) and bin/check. Modelled, not verified: see DESIGN.md section 8 and the per-property 'Not covered'.")

CLAIMED = {
    "C17": dict(
        text=("Theorems (Coq, unbounded): for every insert sequence and every needle the path index returns exactly the values whose path "
              "ends component-wise with the needle (C17_index_refines, no_false_match, no_miss); symbol lookup returns exactly the matching "
              "names once. Tie: the real PathSearchIndex is run on seeded insert/query sequences and compared inside Coq with the model and the spec."),
        ref="DESIGN.md section 5 C17",
        technique="Coq proof (induction over inserts, index invariant) + differential correspondence against the real PathSearchIndex evaluated by vm_compute",
        note=TB + " Interner injectivity; regex/rustc_demangle enter as a predicate."),
    "C14": dict(
        text=("Theorems (Coq, unbounded op sequences and thread counts): every thread's DR0-3/DR7, decoded as the CPU decodes them, equals the "
              "registry's active set slot by slot (C14_invariant), at most four, refusals without side effects, slot reuse, DR6 flush; the same invariant over "
              "sequences that also contain end-of-scope stops and restarts (C14_invariant_x), global watchpoints survive a restart with number / address / size / "
              "condition and are re-armed in every thread, scoped ones vanish without a trace (C14_global_survives_restart), an end-of-scope stop removes exactly "
              "the watchpoints bound to it (C14_local_removed_at_scope_end_partial); DR7 encodings "
              "proved equal to the architecture's over constants regenerated from the source. Tie: bit functions and real multi-threaded watchpoint "
              "histories (PTRACE_PEEKUSER of every thread) replayed through the model and the spec inside Coq."),
        ref="DESIGN.md section 5 C14",
        technique="Coq proof (machine invariant by induction over commands; bit-level lemmas by testbit rewriting) + translator for DR constants + differential correspondence (unit and end-to-end) evaluated by vm_compute",
        note=TB + " ptrace debug-register writes are assumed to succeed in the theorem (the e2e leg observes what the kernel really holds); data-breakpoint delivery is not available on this machine, so hit reporting is not exercised."),
    "C15": dict(
        text=("Theorems (Coq): read_memory returns exactly the requested bytes iff all are mapped, at any alignment/length (C15_read_exact); write_bytes "
              "changes exactly [a,a+n) for any alignment and length and fails with EIO when a target byte is unmapped (C15_write_exact / _unmapped_fails), by "
              "induction over the word loops; register update/read and user_regs round trips over tables regenerated from the source. Tie: real reads and "
              "writes on a debuggee with holes, PROT_NONE and read-only pages, decided in Coq against /proc/<pid>/mem snapshots; registers against PTRACE_GETREGS. "
              "Disassembly: the masking loops of disasm_function and read_original_code hand the program's original bytes to the decoder for any set of "
              "breakpoints and never index outside the buffer (C15_disasm_original / _no_panic, C15_dap_disasm_original), over the filter / guard regenerated "
              "from the source; tie: Debugger::disasm() and DAP disassemble with breakpoints in and directly behind functions against the ELF file's bytes."),
        ref="DESIGN.md section 5 C15",
        technique="Coq proof (induction over the peek/poke word loops) + translator (register tables; arithmetic skeletons of the write_bytes and read_memory_by_pid loops, proved equal to the model for every input in Ties/MemTie.v; the breakpoint-masking filter of disasm_function, the guard of read_original_code and the DAP read sites) + end-to-end differential correspondence evaluated by vm_compute",
        note=TB + " ptrace word semantics (8 bytes, EIO unless all mapped) and page-granular mappings are assumed; capstone (the decoder) is outside the model: the theorems are about the bytes it is given. DAP setVariable / setExpression are not in the model yet."),
    "C05": dict(
        text=("Theorems (Coq, any stack depth below the cap, any CFI supplied as functions): the unwinder's loop returns the complete chain of return "
              "addresses whenever no (return address, CFA) pair repeats (C05_unwind_complete, with CFAs strictly increasing this covers every recursion); "
              "registers restored for a selected frame are those the unwinder derives that frame from (C05_frame_select); register-number tables equal the "
              "psABI's. The loop's guard key, loop bounds and outermost-frame handling are read from the source by the translator. Tie: real backtraces, "
              "frame_info and argument reads at depths up to ~780 frames against the harness's own frame-pointer walk, decided in Coq."),
        ref="DESIGN.md section 5 C05",
        technique="Coq proof (loop invariant by induction on fuel, generic in the CFI oracle) + translator (guard key, loop bounds, register tables) + end-to-end differential correspondence against a frame-pointer walk",
        note=TB + " gimli's CFI evaluation and compiler-emitted .eh_frame are parameters of the theorems (cross-checked only against the rbp chain)."),
    "C01": dict(
        text=("Theorems (Coq, arbitrary native traces, hence any loop/recursion): from any prompt of the patch machine `continue` stops at the first later "
              "position that carries a user breakpoint, with its true pc and number, leaves registry and memory as they were, and ends with the whole trace "
              "executed otherwise (C01_projection_partial); removal by address silences the location (C01_removed_silent_partial); memory = image + 0xCC patches "
              "at every prompt. Partial: needs no self-jumping instruction and starts from an established prompt; refuted corner cases are stated "
              "(`break remove 0`, removal after exit, self-loop). Tie: real breakpoint histories on generated programs against the harness's own native "
              "instruction trace, decided in Coq by the trace-level spec."),
        ref="DESIGN.md section 5 C01",
        technique="Coq proof (patch-machine invariant over an arbitrary native trace) + translator (Breakpoint::enable/disable regenerated as word functions and proved equal to the model's byte operations for every word, Ties/BpTie.v) + end-to-end differential correspondence against an independent single-step trace, evaluated by vm_compute",
        note=TB + " x86 int3 semantics at the level 'fetching 0xCC traps with pc+1'; breakpoints at instruction starts; single-threaded."),
    "C02": dict(
        text=("Theorems (Coq): the executed instruction sequence at every prompt is a prefix of the native trace (C02_transparent_partial), stepping over a "
              "breakpoint executes the original instruction exactly once and restores memory (C02_step_over_once, adjacent breakpoints in one word do not disturb "
              "each other), detach/drop leave memory equal to the image (C02_clean_after_detach_partial); early-return paths that leak temporaries are refuted with a "
              "witness. Tie: after every command of real histories the program's executable mapping is compared byte by byte with the ELF file (difference = the "
              "user's breakpoints + the entry point) and output/exit status with a native run."),
        ref="DESIGN.md section 5 C02",
        technique="Coq proof (patch-machine invariant) + translator (Breakpoint::enable/disable word functions, Ties/BpTie.v) + end-to-end byte-level comparison of /proc/<pid>/mem with the ELF image after every command",
        note=TB + " step*/call/watch commands are covered by the C03/C16/C14 checks, not by this leg yet."),
    "C12": dict(
        text=("Theorems (Coq, any request sequence, any handler scripts, any schedule of the forwarder threads): with sequence numbers taken under the transport "
              "lock - which the translator reads from the source - the wire carries 1,2,3,... in order for every interleaving (C12_seq_discipline); every request "
              "whose handler answers at most once gets exactly one response with matching request_seq/command (C12_one_response_now); a failing handler is answered "
              "with an error exactly when it has not answered; lifecycle events at most once and in order for any event queue (C12_drain_lifecycle). Open "
              "refutations are stated with witnesses. Tie: real request histories with concurrent debuggee output against a real DebugSession; transcripts "
              "decided in Coq by the wire-level spec."),
        ref="DESIGN.md section 5 C12",
        technique="Coq proof (interleaving semantics of lock/alloc/write actions, induction over schedules and request lists) + translator (where sequence numbers are taken, run-loop guard) + end-to-end transcripts checked by vm_compute",
        note=TB + " handlers enter the theorems as arbitrary scripts over the messaging primitives; per-handler path coverage is by generated requests."),
}

CLAIMED.update({
    "C03": dict(
        text=("Theorems (Coq, arbitrary native traces and call nesting): stepi executes exactly one instruction of the focused thread or reports the exit "
              "(C03_stepi_partial, _exit, _never_panics); step-in stops at the first instruction of a different line or of a callee with line info "
              "(C03_step_in); step-out/finish stops right behind the call in the caller's frame at any recursion depth (C03_finish, _complete: CFA-keyed, "
              "so recursion cannot stop it early); next never stops inside a callee (C03_next, C03_next_not_in_callee). Refuted with witnesses and kept as "
              "known findings: self-jumping instruction under stepi, user breakpoint inside a callee skipped by next. Tie: step/next/finish/stepi "
              "histories on generated programs (loops, recursion, generics, closures) against the harness's own single-step trace; verdicts in Coq."),
        ref="DESIGN.md section 5 C03 and section 11",
        technique="Coq proof (step algorithms as functions over an arbitrary native trace with frames; induction on the trace) + end-to-end differential correspondence against an independent ptrace single-stepper, evaluated by vm_compute",
        note=TB + " line table and CFA enter as functions of the trace position (validated per program by the leg); inlined-range handling is modelled only as far as the generated programs exercise it."),
    "C04": dict(
        text=("Theorems (Coq, any sorted line program / unit set): the place found for a pc is the last row at or below it inside its sequence "
              "(C04_pc_row_exact, C04_binary_search), exact-place lookup never panics, the unit and function found for a pc are the ones whose ranges contain "
              "it (C04_function_sound, _in_unit), line breakpoints return one statement row per (function, line) key, all of them and nothing else "
              "(C04_line_places_sound/_complete/_one_per_key), function breakpoints land behind the prologue inside the function (C04_fn_bp_inside). Stated "
              "refutations (split ranges, no row at low_pc) carry witnesses. Tie: the real index on the DWARF of generated programs against the harness's own "
              "gimli line-program reading, decided in Coq."),
        ref="DESIGN.md section 5 C04 and section 11",
        technique="Coq proof (sortedness invariants, binary search correctness by induction) + differential correspondence of the real line/function index against an independent DWARF reading, evaluated by vm_compute",
        note=TB + " gimli's decoding of .debug_line/.debug_info is trusted as the common source of rows for both sides."),
    "C06": dict(
        text=("Theorems (Coq, any memory image): integer decoding round-trips at every width and signedness; Vec / VecDeque rendering returns exactly the "
              "len elements in logical order for any head/cap wrap (C06_vec_exact_partial, C06_vecdeque_exact_partial, _no_panic, _total); hashbrown iteration "
              "yields exactly the full buckets, each once, for any control-byte array (C06_hashbrown_exact, _each_once; group match proved equal to the SSE "
              "movemask); B-tree walk returns the keys in order for any well-formed tree (C06_btree_exact); enum variant selection follows the DWARF "
              "discriminant rules incl. signed tags and ranges (C06_enum_select_exact, _decode_exact). Refutations (len above capacity guards, 128-bit tags, "
              "cyclic parents) stated with witnesses; the reachable ones are known findings. Tie: real variable rendering of generated values (std "
              "collections of many shapes and sizes) against the program's own Debug output and raw memory, decided in Coq."),
        ref="DESIGN.md section 5 C06 and section 11",
        technique="Coq proof (container walks as functions over a byte memory; induction over buckets/nodes/ring positions) + translator (LEN_GUARD / CAP_GUARD, Ties/DecodeTie.v) + differential correspondence (unit on synthetic memory images, end-to-end on generated programs) evaluated by vm_compute",
        note=TB + " the std layout facts (field names/offsets from DWARF) are inputs of the model; only the collections named here are modelled."),
    "C07": dict(
        text=("Theorems (Coq, all expression trees / all inputs): printing a well-formed DQE and parsing it back returns the same tree (C07_parse_print_wf, "
              "print injective), integer literals denote their value at any sign/base within range, slices/indices/field/deref evaluate to exactly the "
              "spec's selection over an abstract value tree (C07_eval_is_spec_eval, C07_slice_elements, C07_index_of_slice, map index some/none, wrong-kind "
              "operations yield nothing). Refutations (Display of some literals does not re-parse, slice keeps container address) are recorded findings. "
              "Tie: the real chumsky parser and Display on generated expressions and a malformed stream; real evaluation on a debuggee with nested data; all "
              "decided in Coq."),
        ref="DESIGN.md section 5 C07 and section 11",
        technique="Coq proof (structural induction on the expression grammar; printer/parser round trip) + differential correspondence against the real parser, printer and evaluator, evaluated by vm_compute",
        note=TB + " the Coq parser is a hand model of the chumsky grammar (tied by differential runs on ~thousands of generated and malformed inputs per run)."),
    "C08": dict(
        text=("Theorems (Coq, all input strings): numeric command arguments and integer literals are accepted iff in range and never panic "
              "(C08_num_arg_in_range/_out_of_range/_no_panic, C08_int_literal_rejects_iff), the expression parser and evaluator have no reachable panic site "
              "(C08_parse_no_panic, C08_eval_no_panic, C08_slice_no_panic with clamping); the panics of the code before the repairs are kept as witnesses. Tie: "
              "the real console command parser and evaluator on generated and boundary inputs under catch_unwind, compared in Coq; every DAP request kind with "
              "missing / ill-typed / boundary / non-ASCII arguments against a real DebugSession (answered, no panic, session still usable)."),
        ref="DESIGN.md section 5 C08 and section 11",
        technique="Coq proof (totality with explicit Panic values in the model: theorems state that no input reaches one) + differential correspondence under catch_unwind, evaluated by vm_compute",
        note=TB + " only the command grammar parts listed in DESIGN.md are modelled (numeric arguments, DQE, slices); the DAP leg is observational (no model of the handlers); TUI input handling is not covered."),
    "C09": dict(
        text=("Theorems (Coq, any number of threads, every schedule of the abstract ptrace kernel, any breakpoint table): Tracer::resume keeps the coupling "
              "invariant between the tracer's table and the kernel's thread states and, whenever it reports a breakpoint / watchpoint / non-quiet signal, "
              "every thread - registered or not - is stopped (C09_all_stop, C09_all_stop_runs for any number of consecutive resumes, "
              "C09_all_stop_single_step, C09_stays_stopped). Exactly-once is refuted with a witness while temporary breakpoints exist "
              "(C09_arrival_swallowed_refuted) and holds on the stated example (C09_nonvacuous); both refutations found on the real debugger are recorded "
              "findings (tmp-bp-swallow, focus-switch), a third defect was repaired (fix 6f9b88c). Tie: seeded multi-threaded debuggees (1-64 threads, "
              "creation/exit storms, CPU pinning, delays injected inside the tracer); at every stop /proc task states, thread lists and the debuggee's own "
              "counters decide the statement, and the tracer's recorded event log (every waitpid answer and ptrace request) is replayed through the Coq "
              "model, which must issue the same requests and return the same stops."),
        ref="DESIGN.md section 5 C09 and section 11",
        technique="Coq proof (invariant over all schedules of an abstract ptrace kernel, induction over the tracer's loops) + translator (signal lists, dequeue flag) + end-to-end trace replay of the real tracer's event log through the model, evaluated by vm_compute",
        note=TB + " the kernel model is hand-written from ptrace(2); HashMap iteration order of TraceeCtl is not observable (requests compared per thread); attach, fork, pause and watchpoint stops are outside the leg."),
    "C10": dict(
        text=("Theorems (Coq, every tracer state, kernel state and schedule of the kernel model): the continue phase hands the dequeued signal to its thread "
              "exactly once and nothing else (C10_continue_partial, C10_continue_nothing_else); a quiet signal seen inside single_step is queued, taken back and "
              "delivered once by the step (C10_quiet_in_step_general; the pre-repair double delivery is kept as a refutation of the old flag value, which the "
              "translator reads from the source together with the QUIET / TRANSPARENT lists). Refuted and recorded: two signals pending for one thread at one "
              "resume. Tie: handler-counting debuggees, seeded kill()/stepi/continue histories; the same history is run through the Coq tracer model and "
              "compared with counters and reported stops; spec evaluated on the same case."),
        ref="DESIGN.md section 5 C10 and section 11",
        technique="Coq proof (tracer as a transition function over an abstract ptrace kernel; invariants over all schedules) + translator (signal lists, dequeue flag) + end-to-end differential correspondence evaluated by vm_compute",
        note=TB + " the kernel model (signal-delivery-stop, PTRACE_INTERRUPT, injection rules) is hand-written from ptrace(2) and validated only through the legs."),
    "C11": dict(
        text=("Theorems (Coq, any native trace and command history of the patch machine): drop of a launched debuggee leaves no process in every "
              "execution status (C11_drop_partial, C11_drop_never_started), detach restores the image (with C02), restart keeps the user breakpoints so that "
              "the stops after a restart are the native projection again: by induction over all histories of break / break remove / continue / restart, "
              "restart stops at the first later position carrying an old user breakpoint with the registry holding exactly the old (number, address) pairs and "
              "memory = image + patches again (C11_restart_keeps_partial, C11_restart_history_partial, C11_restart_same_stops); every exit the core reports "
              "carries the trace's exit code (C11_exit_code); detach / drop of an attached process at any prompt after any watchpoint and thread history "
              "releases it alive with memory = image and every thread's DR7 enable bits clear (C11_external_survives_partial / _history_partial). Refuted and "
              "recorded: detach() of a launched program then quit leaves it behind; removing the debugger's own entry-point breakpoint disarms all restarts; "
              "a program ending during next / stepOut is reported with exit code 0 by the DAP adapter. Tie: the full grid launched/attached x single/multi-threaded x stop kind x ending, a stress tail under CPU load, restart "
              "histories on generated programs; the world is inspected from outside (/proc, own ptrace attach, ELF comparison, native exit status)."),
        ref="DESIGN.md section 5 C11 and section 11",
        technique="Coq proof (patch machine + process life-cycle state machine) + translator (Breakpoint::enable/disable word functions, Ties/BpTie.v) + end-to-end inspection of the real world state after every ending; restart stops decided in Coq by vm_compute",
        note=TB + " process life cycle (kill/wait/detach effects) is an abstract state machine validated by the e2e leg only."),
    "C13": dict(
        text=("Theorems (Coq, any sequence of setBreakpoints / setFunctionBreakpoints / setInstructionBreakpoints requests): after each request the "
              "debugger's breakpoints for that source are exactly the requested ones, earlier ones removed (C13_replace), conditions / hit conditions / log "
              "messages are recorded per breakpoint and evaluated as specified (C13_options, C13_hitcondition, invalid iff unparsable), verified flags and ids "
              "are truthful (C13_verified_source/_function/_instruction_partial). Refuted and recorded: two sources sharing one location, instruction "
              "breakpoints reported verified before the process runs, bare identifiers. Tie: real DAP sessions with seeded request sequences; responses and the "
              "debugger's own breakpoint table compared in Coq with the model."),
        ref="DESIGN.md section 5 C13 and section 11",
        technique="Coq proof (breakpoint-record state machine, induction over request sequences) + end-to-end differential correspondence through an in-memory DAP client, evaluated by vm_compute",
        note=TB + " address resolution of a source line enters as a function (covered by C04)."),
    "C16": dict(
        text=("Theorems (Coq, any register file / memory / callee behaviour as a function): an injected call passes the arguments in the System V registers, "
              "runs with rsp below the red zone and 16-byte aligned (C16_redzone_kept, C16_aligned, C16_call_rsp), restores all registers and the patched "
              "text on success and on every error path (C16_restore_regs_text, C16_error_restores), frees the mmap'ed page (C16_error_no_leak), reports a "
              "signal raised inside the callee (C16_signal_reported); the Debug-formatter cache is sound while the binary is unchanged (C16_cache_partial). "
              "Stated refutations: FP state, dealloc error leak, stale cache. Tie: real injected calls on generated functions (argument counts, kinds, "
              "callee that clobbers registers / raises signals), registers and stack compared before/after through ptrace, decided in Coq."),
        ref="DESIGN.md section 5 C16 and section 11",
        technique="Coq proof (call-injection sequence as a state transformer over registers/memory) + translator (argument-register order, syscall numbers and instruction word, Ties/CallTie.v) + end-to-end differential correspondence evaluated by vm_compute",
        note=TB + " the callee is an arbitrary function of the machine state in the theorems; x87/SSE state is outside the model except for the stated refutation."),
    "C18": dict(
        text=("Theorems (Coq, any mapping table): global<->relocated address conversion is exact for PIE and non-PIE images and every shared object "
              "(C18_relocate_exact/_sound, C18_roundtrip_partial), the region found for an address is the unique mapping containing it "
              "(C18_find_range_exact, _total, _unique), library load events re-read the mappings and activate deferred breakpoints exactly once "
              "(C18_deferred, C18_deferred_once, C18_run_events_rounds). Tie: real debuggees (PIE, non-PIE, static, dlopen at run time) - the debugger's "
              "mapping dump and breakpoint addresses against /proc/<pid>/maps and ELF program headers, decided in Coq."),
        ref="DESIGN.md section 5 C18 and section 11",
        technique="Coq proof (mapping table invariants; address arithmetic in Z with explicit wrap) + end-to-end differential correspondence against /proc/<pid>/maps, evaluated by vm_compute",
        note=TB + " the dynamic linker's behaviour (r_debug protocol) is an event list input of the model."),
    "C19": dict(
        text=("Theorems (Coq, any DIE tree): the variables offered at a pc are exactly those of the lexical blocks containing it, innermost first "
              "(C19_visit_desc, C19_local_variables_desc, C19_scope_partial), shadowing resolves to the innermost declaration already in scope "
              "(C19_shadow_partial, C19_lookup_exact_partial), parameters are exact (C19_params_exact), location lists select the entry whose half-open range "
              "contains the pc (C19_loclist_exact, C19_loc_select_exact). One stated refutation with witness (C19_scope_refuted). Tie: generated programs with "
              "nested blocks and shadowing; the real local-variable listing at every statement line against the harness's own DWARF walk and the program's "
              "printed values, decided in Coq."),
        ref="DESIGN.md section 5 C19 and section 11",
        technique="Coq proof (structural induction over the DIE tree; range containment) + end-to-end differential correspondence against an independent DWARF walk, evaluated by vm_compute",
        note=TB + " compiler-emitted scopes/loclists are taken as given (both sides read the same DWARF); optimised code is exercised only at opt-level 0/1."),
})

NOT_YET = {
    "C20": "not applicable: the property is agreement with the tokio runtime's internal structures (tokio 1.40-1.44); no tokio source, crate or binary exists in this sealed sandbox, so no executable model can be tied to anything real (DESIGN.md section 5 C20)",
}


def main():
    props = [json.loads(l) for l in open(os.path.join(ROOT, "properties.jsonl"))]
    checks = []
    na = []
    for p in props:
        pid = p["id"]
        if pid in CLAIMED:
            c = CLAIMED[pid]
            checks.append({
                "property_id": pid,
                "quick_cmd": "./bin/check %s --tier quick" % pid,
                "thorough_cmd": "./bin/check %s --tier thorough" % pid,
                "evidence_file": "/verif/evidence/%s.json" % pid,
                "replay_cmd_template": "./bin/check %s --replay {path}" % pid,
                "engine": "coq-model+harness",
                "level_claimed": {"category": "proof", "text": c["text"], "design_ref": c["ref"]},
                "level_note": c["note"],
                "technique": c["technique"],
            })
        else:
            na.append({"property_id": pid, "reason": NOT_YET.get(pid, "not claimed yet: model, theorems and tie for this property are not built in the committed state (work in progress, see DESIGN.md section 10)")})
    m = {
        "version": 1,
        "setup_cmd": "./bin/setup",
        "hooks": {
            "guard": "cargo feature `verif` (#[cfg(feature = \"verif\")])",
            "enable": "the harness crate /verif/harness depends on bugstalker = { path = \"/repo\", features = [\"verif\"] } and is rebuilt by every check",
            "baseline_off_cmd": "cd /repo && cargo nextest run --workspace --no-fail-fast --tool-config-file pb:/w/lib/nextest.toml --profile pb --test-threads 8 --offline || cargo test --workspace --no-fail-fast --offline",
            "source_commits": [l.split()[0] for l in os.popen("git -C /repo log --format='%h %s' | grep -i 'verif hook'").read().strip().split("\n") if l.strip()],
            "add_only": True,
        },
        "engines": [
            {"name": "coq-model+harness", "path": "/verif/coq, /verif/harness, /verif/bin/check",
             "serves_properties": sorted(CLAIMED.keys()),
             "kind_free_text": "Gallina models + theorems (coqc full .vo build), translator for constants, Rust harness running the real code; models evaluated by vm_compute on the same inputs"},
        ],
        "checks": checks,
        "not_applicable": na,
        "notes": "Single entry point bin/check; known_findings.txt lists recorded genuine defects (KNOWN-FINDING lines); see DESIGN.md.",
    }
    json.dump(m, open(os.path.join(ROOT, "MANIFEST.json"), "w"), indent=1)


if __name__ == "__main__":
    main()
