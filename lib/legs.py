"""Leg runner with per-case classification (known findings are keyed by what fails)."""
import os
from common import case_lines


def run_classified_leg(ctx, leg, args, what, classify):
    """classify(index, meta) -> (key, found_input, note) for a failing case; meta = summary['case_meta'][index] or {}."""
    summ = ctx.run_leg(leg, args)
    if summ is None:
        return None
    files = summ.get("files", [])
    shard = int(summ.get("shard", 0) or 0)
    metas = summ.get("case_meta") or []
    bad = ctx.eval_cases(files, leg)
    seen_keys = {}
    for fn, i, v, text in bad:
        gi = i
        if shard:
            try:
                k = int(os.path.basename(fn).rsplit("_", 1)[1].split(".")[0])
                gi = k * shard + i
            except Exception:
                pass
        meta = metas[gi] if gi < len(metas) else {}
        verdict = classify(gi, meta, v)
        if verdict is None:
            # the classifier says this disagreement is not this property's business (another property's check reports it)
            ctx.notes.append("%s case %d: disagreement left to another property's check" % (leg, gi)) if len(ctx.notes) < 40 else None
            continue
        key, found, note = verdict
        if seen_keys.get(key, 0) >= 3:
            continue
        seen_keys[key] = seen_keys.get(key, 0) + 1
        kind = "impl-violates-spec" if v >= 2 else "tie-broken"
        ctx.violate(kind, leg, {"case_index": gi, "what": what, "note": note, "meta": meta, "case": text[:3000],
                                "replay": "%s %s" % (leg, " ".join(map(str, args)))}, key=key, found_input=found)
    d = dict(summ)
    d.pop("case_meta", None)
    ctx.add_leg(d, {"mismatches": len(bad)})
    if summ.get("errors"):
        ctx.violate("tie-broken", leg, {"errors": summ["errors"][:5]}, key=leg + ":errors", found_input=False)
    return summ
