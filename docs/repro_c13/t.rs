fn tick(i: u32) -> u32 {
    let x = i + 1;
    x
}
#[inline(never)]
fn gen<T: std::fmt::Debug>(t: T) -> usize {
    let y = format!("{t:?}");
    y.len()
}
fn main() {
    let mut s = 0;
    for i in 0..3 {
        s += tick(i);
    }
    let a = gen(1u32);
    let b = gen("xy");
    println!("{s} {a} {b}");
}
