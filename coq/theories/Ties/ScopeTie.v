(* Tie of Model/Scope.v's location-list entry predicate to the one the translator regenerates from
   try_as_expression (src/debugger/debugee/dwarf/location.rs) on every run, for every pc and entry. *)
From Coq Require Import NArith Bool.
From BS Require Import Model.Base Gen.Scope Model.Scope.
Open Scope N_scope.

Theorem lentry_match_is_the_source's : forall pc e,
  lentry_match pc e = match e with LEntry b en _ => Gen.Scope.lentry_in_range pc b en | LBad => Gen.Scope.LENTRY_ERR_MATCHES end.
Proof. intros pc [b en d | ]; reflexivity. Qed.
