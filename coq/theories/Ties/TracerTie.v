(* Tie between Model/Tracer.v and tracer.rs as regenerated from the source (Gen/Tracer.v):
   - the signal lists of the model are the source's lists (as sets);
   - the signal-injection block of Tracer::resume: the model's [resume] pops the head of the queue, keeps stopped every
     thread that still has a queued signal (exclude = map fst rest) and reports the new head when the queue is not empty.
   A change of the exclude expression (e.g. only the next entry's thread) changes [resume_exclude] and breaks these
   proofs; an expression the translator does not know is reported as a changed source shape. *)
From BS Require Import Model.Base Gen.Tracer Model.Tracer.
Open Scope N_scope.

Lemma mem_In : forall l s, mem s l = true <-> In s l.
Proof.
  induction l as [|h t IH]; intros s; unfold mem in *; cbn [existsb In].
  - split; [discriminate|tauto].
  - rewrite orb_true_iff, IH, N.eqb_eq. split; intros [H|H]; auto.
Qed.

Lemma mem_ext : forall l1 l2, (forall x, In x l1 <-> In x l2) -> forall s, mem s l1 = mem s l2.
Proof.
  intros l1 l2 H s. destruct (mem s l1) eqn:E1; destruct (mem s l2) eqn:E2; try reflexivity.
  - apply mem_In in E1. apply H in E1. apply mem_In in E1. congruence.
  - apply mem_In in E2. apply H in E2. apply mem_In in E2. congruence.
Qed.

Theorem quiet_signals_are_source : forall s, quiet s = mem s QUIET_SIGNAL_NUMBERS.
Proof.
  apply mem_ext. intros x. unfold QUIET_SIGNALS, QUIET_SIGNAL_NUMBERS, SIGALRM, SIGURG, SIGCHLD, SIGIO, SIGVTALRM, SIGPROF.
  cbn [In]. tauto.
Qed.

Theorem transparent_signals_are_source : forall s, transparent s = mem s TRANSPARENT_SIGNAL_NUMBERS.
Proof.
  apply mem_ext. intros x. unfold TRANSPARENT_SIGNALS, TRANSPARENT_SIGNAL_NUMBERS, SIGINT. cbn [In]. tauto.
Qed.

Theorem resume_pops_front_now : RESUME_POPS_FRONT = true.
Proof. reflexivity. Qed.

Theorem resume_next_is_front_now : RESUME_NEXT_IS_FRONT = true.
Proof. reflexivity. Qed.

Theorem resume_exclude_is_model : forall rest, resume_exclude rest = map fst rest.
Proof. intros rest. reflexivity. Qed.

(* the injection branch of the model's resume, spelled with the generated exclude set: the head of the queue is
   injected, every thread with a queued signal stays stopped, the process is stopped again and the next queued signal
   is reported *)
Theorem resume_injection_is_source :
  forall dq (W : Type) (ww : W -> option N -> res (wstatus * W)) (wr : W -> preq -> bool * W) (wp : W -> N -> N)
         f bps t (w : W) x sg y s2 rest',
  t_queue t = (x, sg) :: (y, s2) :: rest' ->
  resume dq W ww wr wp (S f) bps t w =
  (let '(t1, w1) := cont_stopped_ex W wr (with_queue t ((y, s2) :: rest')) w (Some (x, sg)) (resume_exclude ((y, s2) :: rest')) in
   r <- gsi dq W ww wr wp f bps t1 w1 None ;; let '(t2, w2) := r in Ok (t2, w2, SRSignal y s2)).
Proof.
  intros dq W ww wr wp f bps t w x sg y s2 rest' Hq. cbn [resume]. rewrite Hq. unfold resume_exclude.
  destruct (cont_stopped_ex W wr (with_queue t ((y, s2) :: rest')) w (Some (x, sg)) (map fst ((y, s2) :: rest'))) as [t1 w1].
  reflexivity.
Qed.
