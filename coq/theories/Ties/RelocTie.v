(* Tie of Model/Reloc.v's range_cmp to the comparator the translator regenerates from the closure of
   DwarfRegistry::find_range (src/debugger/debugee/registry.rs) on every run, for every address and range. *)
From Coq Require Import NArith Bool.
From BS Require Import Model.Base Gen.Reloc Model.Reloc.
Open Scope N_scope.

Definition ord_of (c : comparison) : ord := match c with Eq => OEqual | Gt => OGreater | Lt => OLess end.

Theorem range_cmp_is_the_source's : forall addr r,
  Model.Reloc.range_cmp addr r = ord_of (Gen.Reloc.range_cmp addr (r_from r) (r_to r)).
Proof.
  intros addr r. unfold Model.Reloc.range_cmp, Gen.Reloc.range_cmp.
  destruct ((r_from r <=? addr) && (addr <? r_to r)); [ reflexivity | ].
  destruct (addr <? r_from r); reflexivity.
Qed.
