(* Tie of Model/DapBp.v's hc_parse / hc_matches to the tables the translator regenerates from
   HitCondition::parse / HitCondition::matches (src/dap/yadap/session/breakpoint.rs) on every run:
   the model is the table-driven parser / comparison instantiated with the source's tables, for every input. *)
From Coq Require Import NArith List.
From BS Require Import Model.Base Gen.HitCond Model.DapBp.
Import ListNotations.
Open Scope N_scope.

Definition mk_of_code (c : N) : N -> hitcond :=
  match c with 0 => HExact | 1 => HGe | 2 => HGt | 3 => HLt | _ => HLe end.

(* `if let Some(rest) = trimmed.strip_prefix(p) { return parse_num(rest).map(V).unwrap_or_else(Invalid(trimmed)) }` ..., in order *)
Fixpoint parse_by (tbl : list (list N * N)) (dflt : N) (t : bstr) : hitcond :=
  let num (mk : N -> hitcond) (rest : bstr) :=
    match parse_u64 (trim rest) with Some v => mk v | None => HInvalid t end in
  match tbl with
  | [] => num (mk_of_code dflt) t
  | (p, c) :: r => match strip_prefix p t with Some rest => num (mk_of_code c) rest | None => parse_by r dflt t end
  end.

Theorem hc_parse_is_the_source's : forall input, hc_parse input = parse_by HC_PREFIXES HC_DEFAULT (trim input).
Proof. intros input. reflexivity. Qed.

Definition cmp_by (op hits e : N) : bool :=
  match op with 0 => hits =? e | 1 => e <=? hits | 2 => e <? hits | 3 => hits <? e | _ => hits <=? e end.
Definition hc_code1 (h : hitcond) : option (N * N) :=
  match h with HExact e => Some (0, e) | HGe e => Some (1, e) | HGt e => Some (2, e) | HLt e => Some (3, e) | HLe e => Some (4, e)
  | HInvalid _ => None end.

Theorem hc_matches_is_the_source's : forall h hits,
  hc_matches h hits = match hc_code1 h with
                      | Some (c, e) => match alist_get N.eqb HC_MATCHES c with Some op => cmp_by op hits e | None => false end
                      | None => true end.
Proof. intros [e|e|e|e|e|raw] hits; reflexivity. Qed.
