(* Tie of the hand-written constants of Model/Call.v to the source, through the translator's Gen/Call.v
   (regenerated from src/debugger/call/mod.rs on every run).  If the source changes one of them, this file
   stops compiling: the check reports a broken tie and the c16 legs search for a failing call. *)
From Coq Require Import NArith List String.
From BS Require Import Model.Base Gen.Call Model.Call.
Import ListNotations.
Open Scope string_scope.

Definition reg_name (r : reg) : string :=
  match r with
  | Rax => "Rax" | Rbx => "Rbx" | Rcx => "Rcx" | Rdx => "Rdx" | Rdi => "Rdi" | Rsi => "Rsi" | Rbp => "Rbp" | Rsp => "Rsp"
  | R8 => "R8" | R9 => "R9" | R10 => "R10" | R11 => "R11" | R12 => "R12" | R13 => "R13" | R14 => "R14" | R15 => "R15"
  | _ => "other"
  end.

Theorem arg_regs_are_the_source's : map reg_name Model.Call.arg_regs = Gen.Call.ARG_REG_NAMES.
Proof. reflexivity. Qed.

Theorem syscall_numbers_are_the_source's :
  Model.Call.SYS_MMAP = Gen.Call.SYS_MMAP /\ Model.Call.SYS_MUNMAP = Gen.Call.SYS_MUNMAP /\ Model.Call.SYSCALL = Gen.Call.SYSCALL_WORD.
Proof. repeat split; reflexivity. Qed.
