(* Tie between Model/DapWire.v and the statement sequences of DebugSession::drain_events as regenerated from the
   source (Gen/DapDrain.v): the model's drain_events is, for every session state, the interpretation of the source's
   three branches over the model's primitives.  A reordering (e.g. `terminated` sent before `exited`, the terminated
   flag set after the events, Output no longer flushed first) changes the generated lists and breaks this proof. *)
From BS Require Import Model.Base Gen.Dap Gen.DapDrain Model.DapWire.

Definition run_dstmt (drained : list ievent) (code : Z) (s : st) (d : dstmt) : st :=
  match d with
  | DSendEvents true => send_events is_output drained s
  | DSendEvents false => send_events (fun _ => true) drained s
  | DEmitProcessEnd => emit_process_end s
  | DSetTerminated => set_terminated true s
  | DSetExitCode => set_exit_code (Some code) s
  | DSendExited => send_event EV_EXITED code s
  | DSendTerminated => send_event EV_TERMINATED 0 s
  end.

Definition drain_generated (s : st) : st :=
  let drained := events s in
  let s := set_events [] s in
  if terminated s then s
  else match scan_exit drained with
       | Some code => fold_left (run_dstmt drained code) DRAIN_EXIT_BRANCH s
       | None => if scan_terminated drained
                 then fold_left (run_dstmt drained 0%Z) DRAIN_TERM_BRANCH s
                 else fold_left (run_dstmt drained 0%Z) DRAIN_DEFAULT_BRANCH s
       end.

Theorem drain_events_is_source : forall s, drain_events s = drain_generated s.
Proof.
  intros s. unfold drain_events, drain_generated.
  destruct (terminated (set_events [] s)); [reflexivity|].
  destruct (scan_exit (events s)); [reflexivity|].
  destruct (scan_terminated (events s)); reflexivity.
Qed.

(* refresh_threads_with_events replaces the thread cache by the list of live threads (the model's refresh_threads
   ends with set_thread_cache new_ids) *)
Theorem refresh_replaces_cache_now : REFRESH_REPLACES_CACHE = true.
Proof. reflexivity. Qed.

Theorem refresh_threads_cache : forall ids s, thread_cache (refresh_threads ids s) = dedup_z ids.
Proof.
  intros ids s. unfold refresh_threads. destruct s; reflexivity.
Qed.
