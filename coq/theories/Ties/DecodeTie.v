(* Tie of Model/Decode.v to the source through Gen/Decode.v (regenerated on every run from
   src/debugger/variable/value/specialization/{mod,hashbrown}.rs): the guards, the group width, and the bit
   functions of the hashbrown reflection (translated from the Rust expressions) equal the model's, for every input. *)
From Coq Require Import NArith List.
From BS Require Import Model.Base Gen.Decode Model.Decode.
Import ListNotations.
Open Scope N_scope.

Theorem guards_are_the_source's : Model.Decode.LEN_GUARD = Gen.Decode.LEN_GUARD /\ Model.Decode.CAP_GUARD = Gen.Decode.CAP_GUARD.
Proof. split; reflexivity. Qed.

Theorem group_width_is_the_source's : Model.Decode.GROUP_WIDTH = Gen.Decode.GROUP_WIDTH.
Proof. reflexivity. Qed.

Theorem bitmask_ops_are_the_source's : forall x,
  Model.Decode.bm_invert x = Gen.Decode.bm_invert x /\ Model.Decode.remove_lowest_bit x = Gen.Decode.bm_remove_lowest_bit x.
Proof. intros x. split; reflexivity. Qed.

(* match_empty_or_deleted: the model's loop is the fold of the source's per-byte expression *)
Fixpoint med_src (i : N) (g : list N) (result : N) : N :=
  match g with [] => result | b :: t => med_src (i + 1) t (N.lor result (Gen.Decode.med_byte b i)) end.

Theorem match_empty_or_deleted_is_the_source's : forall g, Model.Decode.match_empty_or_deleted g = med_src 0 g 0.
Proof.
  intros g. unfold Model.Decode.match_empty_or_deleted. generalize 0 at 1 3. generalize 0.
  induction g as [|b t IH]; intros r i; [ reflexivity | ]. cbn [med_loop med_src]. apply IH.
Qed.
