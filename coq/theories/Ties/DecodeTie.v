(* Tie of the guards of Model/Decode.v to src/debugger/variable/value/specialization/mod.rs through Gen/Decode.v. *)
From Coq Require Import NArith.
From BS Require Import Model.Base Gen.Decode Model.Decode.

Theorem guards_are_the_source's : Model.Decode.LEN_GUARD = Gen.Decode.LEN_GUARD /\ Model.Decode.CAP_GUARD = Gen.Decode.CAP_GUARD.
Proof. split; reflexivity. Qed.
