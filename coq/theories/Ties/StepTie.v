(* Tie of the CFA filters used by Model/Step.v to Debugger::stopped_not_above and its two call sites
   (src/debugger/step.rs), regenerated on every run.  Model/Step.v writes the two filters inline:
     step_out:  (pc q =? r) && (cfa q <=? cfa p)          (the temporary hit in a frame not older than the start)
     step_over: memN (pc q) temps && (cfa q <? cfa p0)    (a temporary hit in a deeper frame)
   The theorem states that these are the comparisons the source makes at those two sites.  (The inline lambdas cannot
   be named from here, so this tie is on the comparison only; the step legs tie the whole algorithm.) *)
From Coq Require Import NArith Bool.
From BS Require Import Model.Base Gen.Step.
Open Scope N_scope.

Theorem step_filters_are_the_source's : forall c s,
  Gen.Step.not_above Gen.Step.STEP_OUT_OR_SAME c s = (c <=? s) /\
  Gen.Step.not_above Gen.Step.STEP_OVER_OR_SAME c s = (c <? s).
Proof. intros c s. split; reflexivity. Qed.

(* a `next` that is interrupted (signal, watchpoint) leaves no temporary breakpoint behind: the model's step_over has no
   temporaries in its result state, which is right only if the source removes them before its early returns *)
Theorem step_over_cleans_before_returning : Gen.Step.STEP_OVER_REMOVES_TEMPS_FIRST = true.
Proof. reflexivity. Qed.
