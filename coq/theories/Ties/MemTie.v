(* Tie of Model/Mem.v (write_bytes / read_memory) to the arithmetic skeletons the translator regenerates on every
   run from write_bytes (src/dap/yadap/session/data.rs) and read_memory_by_pid (src/debugger/mod.rs): the loops
   below are the source's loops - condition, cursor arithmetic, offsets, lengths and updates are the regenerated
   Gen.Mem definitions; only the ptrace word access and the slice copy are the model's - and they are proved equal
   to the model's functions for every memory, address and length. *)
From Coq Require Import NArith List Lia.
From BS Require Import Model.Base Gen.Mem Model.Mem.
Import ListNotations.
Open Scope N_scope.
Local Ltac Zify.zify_post_hook ::= Z.to_euclidean_division_equations.

(* ------------------------------------------------------------------ write_bytes *)
Fixpoint write_loop_src (m : mem) (start endp cur : N) (bytes : list N) (k : nat) : res mem :=
  match k with
  | O => Ok m
  | S k' =>
      if wb_cond cur endp then
        existing <- read_memory m (wb_word_start cur) 8 ;;
        let chunk := firstn (N.to_nat (wb_copy_len cur endp)) (skipn (N.to_nat (wb_src_off cur start)) bytes) in
        m' <- poke m (wb_word_start cur) (splice existing (N.to_nat (wb_dst_off cur)) chunk) ;;
        write_loop_src m' start endp (wb_next cur) bytes k'
      else Ok m
  end.

Theorem write_loop_is_the_source's : forall k m start endp cur bytes,
  write_loop m start endp cur bytes k = write_loop_src m start endp cur bytes k.
Proof.
  (* the two fixpoints have convertible bodies once the regenerated definitions are unfolded *)
  intros k m start endp cur bytes. reflexivity.
Qed.

Theorem write_bytes_is_the_source's : forall m a b bs,
  2 ^ 64 <=? a + N.of_nat (length (b :: bs)) = false ->
  write_bytes m a (b :: bs) =
  write_loop_src m (wb_start a (N.of_nat (length (b :: bs)))) (wb_end a (N.of_nat (length (b :: bs))))
                 (wb_cur0 (wb_start a (N.of_nat (length (b :: bs))))) (b :: bs) (words_covering a (N.of_nat (length (b :: bs)))).
Proof.
  intros m a b bs H. unfold write_bytes. rewrite H. unfold wb_start, wb_end, wb_cur0. apply write_loop_is_the_source's.
Qed.

(* ------------------------------------------------------------------ read_memory_by_pid *)
Fixpoint read_loop_src (m : mem) (fuel : nat) (acc : list N) (skip wa n : N) : res (list N) :=
  match fuel with
  | O => OutOfFuel
  | S f =>
      if rm_cond (N.of_nat (length acc)) n then
        w <- peek m wa ;;
        read_loop_src m f (acc ++ firstn (N.to_nat (rm_remains n (N.of_nat (length acc)))) (skipn (N.to_nat skip) w))
                      rm_skip_next (rm_word_next wa) n
      else Ok acc
  end.

Lemma peek_length m a w : peek m a = Ok w -> length w = 8%nat.
Proof.
  unfold peek. destruct (all_mapped m a 8); [ | discriminate ]. intros H. inversion H. unfold get_bytes.
  rewrite map_length. reflexivity.
Qed.

Lemma read_loop_step m f acc skip wa n :
  read_loop_src m (S f) acc skip wa n =
  if rm_cond (N.of_nat (length acc)) n then
    w <- peek m wa ;;
    read_loop_src m f (acc ++ firstn (N.to_nat (rm_remains n (N.of_nat (length acc)))) (skipn (N.to_nat skip) w))
                  rm_skip_next (rm_word_next wa) n
  else Ok acc.
Proof. reflexivity. Qed.

Lemma read_loop_words : forall k m wa acc n skip,
  skip < 8 -> N.of_nat (length acc) < n ->
  n - N.of_nat (length acc) + skip <= 8 * N.of_nat k ->
  8 * N.of_nat k < n - N.of_nat (length acc) + skip + 8 ->
  wa + 8 * N.of_nat k <= 2 ^ 64 ->
  read_loop_src m (S k) acc skip wa n =
  (ws <- read_words m wa k ;; Ok (acc ++ firstn (N.to_nat (n - N.of_nat (length acc))) (skipn (N.to_nat skip) ws))).
Proof.
  induction k as [|k IH]; intros m wa acc n skip Hs Hl Hlo Hhi Hw; [ lia | ].
  rewrite read_loop_step. cbn [read_words]. unfold rm_cond at 1.
  destruct (N.ltb_spec (N.of_nat (length acc)) n) as [_ | Hc]; [ | lia ].
  destruct (peek m wa) as [w | e | s | ] eqn:Hp; try reflexivity.
  cbn [bind]. pose proof (peek_length _ _ _ Hp) as Hlen.
  unfold rm_remains, rm_skip_next.
  set (need := n - N.of_nat (length acc)) in *.
  destruct (N.leb_spec need (8 - skip)) as [Hfit | Hmore].
  - (* the request ends inside this word: this was the last iteration *)
    assert (k = 0%nat) by lia. subst k. cbn [read_words bind]. rewrite read_loop_step.
    rewrite app_nil_r.
    assert (Hal : N.of_nat (length (acc ++ firstn (N.to_nat need) (skipn (N.to_nat skip) w))) = n).
    { rewrite app_length, firstn_length, skipn_length, Hlen. unfold need in *. lia. }
    unfold rm_cond. rewrite Hal, N.ltb_irrefl. reflexivity.
  - (* the whole rest of the word is taken, more words follow *)
    assert (Hk : (1 <= k)%nat) by lia.
    assert (Hall : firstn (N.to_nat need) (skipn (N.to_nat skip) w) = skipn (N.to_nat skip) w).
    { apply firstn_all2. rewrite skipn_length, Hlen. lia. }
    rewrite Hall.
    assert (Hnext : rm_word_next wa = wa + 8).
    { unfold rm_word_next. apply N.mod_small. lia. }
    rewrite Hnext.
    assert (Hal : N.of_nat (length (acc ++ skipn (N.to_nat skip) w)) = N.of_nat (length acc) + (8 - skip)).
    { rewrite app_length, skipn_length, Hlen. lia. }
    rewrite IH; [ | lia | rewrite Hal; unfold need in *; lia | rewrite Hal; unfold need in *; lia
                | rewrite Hal; unfold need in *; lia | lia ].
    destruct (read_words m (wa + 8) k) as [ws | e | s | ]; try reflexivity.
    cbn [bind]. f_equal. rewrite <- app_assoc. f_equal.
    change (N.to_nat 0) with 0%nat. cbn [skipn].
    rewrite Hal.
    rewrite skipn_app, firstn_app, skipn_length, Hlen.
    replace (N.to_nat skip - 8)%nat with 0%nat by lia. cbn [skipn].
    rewrite Hall.
    replace (N.to_nat need - (8 - N.to_nat skip))%nat with (N.to_nat (n - (N.of_nat (length acc) + (8 - skip)))) by (unfold need; lia).
    reflexivity.
Qed.

Theorem read_memory_is_the_source's : forall m a n,
  n < 2 ^ 63 -> a + n <= 2 ^ 64 ->
  read_loop_src m (S (words_covering a n)) [] (rm_skip0 a) (rm_word0 a) n = read_memory m a n.
Proof.
  intros m a n Hn Ha. unfold read_memory.
  destruct (N.leb_spec (2 ^ 63) n) as [Hbig | _]; [ lia | ].
  unfold rm_skip0, rm_word0, words_covering.
  destruct (N.eqb_spec n 0) as [-> | Hn0].
  - cbn [read_loop_src length N.of_nat]. unfold rm_cond. cbn [read_words bind]. reflexivity.
  - rewrite read_loop_words.
    + cbn [length N.of_nat]. rewrite N.sub_0_r. reflexivity.
    + apply N.mod_lt. lia.
    + cbn [length N.of_nat]. lia.
    + cbn [length N.of_nat]. rewrite N2Nat.id. lia.
    + cbn [length N.of_nat]. rewrite N2Nat.id. lia.
    + rewrite N2Nat.id. unfold rm_skip0. change (2 ^ 64) with 18446744073709551616 in *. lia.
Qed.
