(* Tie of Model/BpMachine.v's byte-level bp_enable / bp_disable to the word-level functions the translator
   regenerates from Breakpoint::enable / Breakpoint::disable (src/debugger/breakpoint.rs) on every run:
   for every 8-byte word (first byte lo / cur, the other seven bytes hi) the bytes the model writes are the
   little-endian image of the word the source computes, and the byte the model saves is the one the source saves. *)
From Coq Require Import NArith List Lia.
From BS Require Import Model.Base Gen.Bp Model.BpMachine.
Import ListNotations.
Open Scope N_scope.

Fixpoint le (l : list N) : N := match l with [] => 0 | b :: t => b + 256 * le t end.

Lemma ldiff_low (lo r : N) : lo < 256 -> N.ldiff (lo + 256 * r) 255 = 256 * r.
Proof.
  intros H. change 255 with (N.ones 8). rewrite N.ldiff_ones_r.
  rewrite N.shiftr_div_pow2, N.shiftl_mul_pow2. change (2 ^ 8) with 256.
  replace (lo + 256 * r) with (lo + r * 256) by lia.
  rewrite N.div_add by lia. rewrite (N.div_small lo 256) by exact H. lia.
Qed.

Lemma land_low (lo r : N) : lo < 256 -> N.land (lo + 256 * r) 255 = lo.
Proof.
  intros H. change 255 with (N.ones 8). rewrite N.land_ones. change (2 ^ 8) with 256.
  replace (lo + 256 * r) with (lo + r * 256) by lia.
  rewrite N.mod_add by lia. apply N.mod_small. exact H.
Qed.

Lemma lor_low (r b : N) : b < 256 -> N.lor (256 * r) b = b + 256 * r.
Proof.
  intros H.
  assert (Hd : N.land (256 * r) b = 0).
  { apply N.bits_inj. intros n. rewrite N.land_spec, N.bits_0.
    destruct (N.ltb_spec n 8) as [Hn | Hn].
    - replace (256 * r) with (N.shiftl r 8) by (rewrite N.shiftl_mul_pow2; change (2 ^ 8) with 256; lia).
      rewrite N.shiftl_spec_low by exact Hn. reflexivity.
    - destruct (N.eq_dec b 0) as [-> | Hb]; [ rewrite N.bits_0; apply Bool.andb_false_r | ].
      rewrite (N.bits_above_log2 b n); [ apply Bool.andb_false_r | ].
      assert (N.log2 b < 8); [ | lia ].
      apply N.log2_lt_pow2; [ lia | exact H ]. }
  rewrite <- N.lxor_lor by exact Hd. rewrite <- N.add_nocarry_lxor by exact Hd. lia.
Qed.

(* Breakpoint::enable: the model saves [lo] and writes [INT3 :: hi] *)
Theorem enable_is_the_source's : forall lo hi, lo < 256 ->
  Gen.Bp.enable_saved (le (lo :: hi)) = lo /\ Gen.Bp.enable_word (le (lo :: hi)) = le (Model.BpMachine.INT3 :: hi).
Proof.
  intros lo hi H. unfold Gen.Bp.enable_saved, Gen.Bp.enable_word. cbn [le]. split.
  - apply land_low. exact H.
  - rewrite ldiff_low by exact H. rewrite lor_low by reflexivity. reflexivity.
Qed.

(* Breakpoint::disable: the word is read again (current first byte [cur]) and the model writes [saved :: hi] *)
Theorem disable_is_the_source's : forall cur hi saved, cur < 256 -> saved < 256 ->
  Gen.Bp.DISABLE_REREADS = true /\ Gen.Bp.disable_word (le (cur :: hi)) saved = le (saved :: hi).
Proof.
  intros cur hi saved Hc Hs. split; [ reflexivity | ]. unfold Gen.Bp.disable_word. cbn [le].
  rewrite ldiff_low by exact Hc. apply lor_low. exact Hs.
Qed.

Theorem int3_is_the_source's : Model.BpMachine.INT3 = Gen.Bp.INT3.
Proof. reflexivity. Qed.
