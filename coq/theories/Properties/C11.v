(* C11 — Start, restart, exit, quit and detach leave the world in the promised state. *)
From BS Require Import Model.Base.
From BS Require Import Model.BpMachine Proofs.BpMachineProofs.
Open Scope N_scope.

(* Drop at a prompt: launched -> killed and reaped; attached -> released with original code and an
   empty breakpoint table *)
Theorem C11_drop_partial :
  forall code tr off s i m, Prompt code tr s i m -> s_detached s = false ->
  let s' := drop off s in
  (forall x, p_mem (s_proc s') x = code x) /\ r_bps (s_reg s') = [] /\
  s_fate s' = (if s_external s then FReleased else FReaped).
Proof. exact (fun code tr off => C11_drop_at_prompt code tr 0 off (fun _ => true)). Qed.

(* never-started launched debuggee: killed and reaped (since /repo 74c6c3e the wait loops until the
   child has really terminated), registry untouched *)
Theorem C11_drop_never_started : forall off s, s_status s = Unload -> s_detached s = false -> s_external s = false ->
  s_fate (drop off s) = FReaped /\ s_reg (drop off s) = s_reg s.
Proof. exact BpMachineProofs.C11_drop_never_started. Qed.

Theorem C11_no_orphan_partial : forall off s, s_detached s = false -> s_external s = false ->
  (s_status s = Exited -> s_fate s = FReaped) -> s_fate (drop off s) = FReaped.
Proof. exact C11_no_orphan_not_detached. Qed.

Theorem C11_no_orphan_refuted : exists tr ops,
  let s := fst (wrun tr ops) in s_external s = false /\ s_fate s = FReleased.
Proof. exact BpMachineProofs.C11_no_orphan_refuted. Qed.

Example C11_restart_keeps_nonvacuous :
  snapshot (s_reg (fst (wrun tr_w [Add 20; Add 30; Continue; Restart]))) = [(1, Reloc 20); (2, Reloc 30)] /\
  only_stops (snd (wrun tr_w [Add 20; Add 30; Continue; Restart; Continue])) = [StopBp 20 1; StopBp 20 1; StopBp 30 2].
Proof. exact C11_restart_keeps_example. Qed.
