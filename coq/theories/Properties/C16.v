(* C16 -- Injected calls run once and leave no trace: headline theorems *)
From BS Require Import Model.Base Model.Mem.
From BS Require Import Model.Call Proofs.CallProofs.
Open Scope N_scope.

Theorem C16_args : forall l t,
  match arg_spec l t with
  | Some v => liter_to_arg l t = Ok v
  | None => exists e, liter_to_arg l t = Err e
  end.
Proof. exact CallProofs.C16_args. Qed.

Theorem C16_args_regs : forall r args r',
  prepare_registers r arg_regs args = Ok r' ->
  map r' (firstn (length args) arg_regs) = args /\ (forall x, ~ In x arg_regs -> r' x = r x).
Proof. exact CallProofs.C16_args_regs. Qed.

Theorem C16_restore_regs_text : forall fails mmap_ret munmap_ret callee other_insn dbg fn args s0 s' r,
  bytes_ok (mm s0) ->
  call_fn_raw fails mmap_ret munmap_ret callee other_insn dbg fn args s0 = (s', r) ->
  (forall p, r <> Panic p) ->
  regs_restored s0 s' /\ text_restored s0 s'.
Proof. exact CallProofs.C16_restore_regs_text. Qed.

Theorem C16_error_restores : forall fails mmap_ret munmap_ret callee other_insn dbg fn args s0 s' e,
  bytes_ok (mm s0) ->
  call_fn_raw fails mmap_ret munmap_ret callee other_insn dbg fn args s0 = (s', Err e) ->
  regs_restored s0 s' /\ text_restored s0 s'.
Proof. exact CallProofs.C16_error_restores. Qed.

Theorem C16_stack_partial : forall callee other_insn cw s,
  callee_frame callee cw ->
  mm s (rg s Rip) = Some 255 -> mm s (rg s Rip + 1) = Some 208 ->
  forall a, cw a = false -> ~ (rg s Rsp - 8 <= a < rg s Rsp - 8 + 8) ->
            mm (fst (exec_cont callee other_insn s)) a = mm s a.
Proof. exact (CallProofs.C16_stack_partial (fun _ => false)). Qed.

Theorem C16_redzone_refuted :
  exists fails callee dbg s0 a,
    let out := call_fn fails W_page 0 callee (fun s => s) dbg 0x402000
            [TScalar (Some ATE_signed) (Some 4); TScalar (Some ATE_unsigned) (Some 1)]
            [LInt (-2); LInt 300] s0 in
    snd out = Ok tt /\
    callee_frame callee (fun _ => false) /\
    rg s0 Rsp - 128 <= a < rg s0 Rsp /\ mm (fst out) a <> mm s0 a /\
    ~ mem_untouched (fun _ => false) s0 (fst out).
Proof. exact CallProofs.C16_redzone_refuted. Qed.

Theorem C16_fpregs_refuted :
  let out := W_call no_fail leaf_sse false in
  snd out = Ok tt /\ list_of_regs (rg (fst out)) = list_of_regs (rg W_s0) /\
  ~ all_regs_restored W_s0 (fst out).
Proof. exact CallProofs.C16_fpregs_refuted. Qed.

Theorem C16_error_leak_refuted :
  exists fails e,
    let out := W_call fails leaf false in
    snd out = Err e /\
    list_of_regs (rg (fst out)) = list_of_regs (rg W_s0) /\
    get_bytes (mm (fst out)) 0x401010 8 = get_bytes (mm W_s0) 0x401010 8 /\
    mm W_s0 W_page = None /\ mm (fst out) W_page = Some 0.
Proof. exact CallProofs.C16_error_leak_refuted. Qed.

Theorem C16_signal_refuted :
  snd (W_call no_fail faulting false) = Ok tt /\
  (let out := W_call no_fail faulting true in
   snd out = Panic 3 /\
   rg (fst out) Rip <> rg W_s0 Rip /\ mm (fst out) 0x401010 <> mm W_s0 0x401010 /\
   mm (fst out) W_page = Some 0xFF).
Proof. exact CallProofs.C16_signal_refuted. Qed.

Theorem C16_cache_partial : forall c resolve k c' v,
  cache_consistent c resolve ->
  get_or_insert c resolve k = (c', Ok v) -> cache_spec resolve k = Ok v.
Proof. exact CallProofs.C16_cache_partial. Qed.

Theorem C16_cache_refuted :
  exists (resolve1 resolve2 : ckey -> res cvalue) k v1 v2 c1,
    get_or_insert [] resolve1 k = (c1, Ok v1) /\
    cache_spec resolve2 k = Ok v2 /\ v1 <> v2 /\
    snd (get_or_insert c1 resolve2 k) = Ok v1.
Proof. exact CallProofs.C16_cache_refuted. Qed.

(* non-vacuity: a call that succeeds on a concrete machine *)
Example C16_nonvacuous :
  snd (W_call no_fail leaf false) = Ok tt /\
  log (fst (W_call no_fail leaf false)) = [(0x402000, [0xFFFFFFFE; 44; 0; 0; 0; 0], 0x7ffd800)].
Proof. split; vm_compute; reflexivity. Qed.

Print Assumptions C16_args.
Print Assumptions C16_restore_regs_text.
Print Assumptions C16_stack_partial.
Print Assumptions C16_redzone_refuted.
Print Assumptions C16_cache_refuted.
