(* C12 - The DAP adapter speaks the protocol correctly for any request history.
   Statements only; the proofs are in ProofsDapWire.v. *)
From BS Require Import Model.Base.
From BS Require Import Model.DapWire Proofs.DapWireProofs.
Open Scope N_scope.

(* --- sequence numbers --- *)

(* Session thread alone: for any requests and any handler behaviour (failing or not, answering
   zero, one or several times) the messages are numbered 1,2,3,... in wire order. *)
Theorem C12_seq_single_thread : forall ins, seqs_consecutive (wire (run ins init_st)).
Proof. exact seq_single_thread. Qed.

(* With an output forwarder the code takes the number before the transport lock: the schedule
   alloc_A, alloc_B, lock/write/unlock_B, lock/write/unlock_A puts 2 before 1 on the wire. *)
Theorem C12_seq_interleaved_refuted :
  let c := run_sched [0; 1; 1; 1; 1; 0; 0; 0]%nat
             (init_c [compile_real [Some (Event EV_STOPPED 0)]; compile_real (forwarder_blocks 1)]) in
  c_wire c = [Msg 2 (Event EV_OUTPUT 0); Msg 1 (Event EV_STOPPED 0)] /\
  seqs_consecutiveb (c_wire c) = false.
Proof. exact seq_interleaved_refuted. Qed.

(* The shape of a repair: number taken under the lock.  Any number of threads, any programs
   (send blocks and read blocks), any schedule: consecutive. *)
Theorem C12_seq_locked_alloc_all_schedules :
  forall (threads : list (list (option body))) (sched : list nat),
  seqs_consecutive (c_wire (run_sched sched (init_c (map compile_fixed threads)))).
Proof. exact seq_locked_alloc_all_schedules. Qed.

(* --- responses --- *)

(* For arbitrary scripts the responses on the wire are exactly [expected]: per consumed request,
   one per send_* call of the handler plus one if the handler fails. *)
Theorem C12_responses_general : forall ins s,
  resp_proj (bodies (run ins s)) = resp_proj (bodies s) ++ expected ins.
Proof. exact responses_general. Qed.

(* Hence: handlers that answer exactly once on the path taken (the run loop's error response
   counted) give exactly one response per consumed request, matching seq and command, in order. *)
Theorem C12_one_response : forall ins,
  forallb input_onceb ins = true ->
  one_response_per_request (processed ins) (bodies (run ins init_st)).
Proof. exact one_response. Qed.

(* handle_continue answers before it can fail: two responses to one request *)
Theorem C12_double_response_refuted :
  processed ins_double = [(1%Z, CMD_INITIALIZE); (2%Z, CMD_CONTINUE)] /\
  bodies (run ins_double init_st) =
    [Response 1 CMD_INITIALIZE true; Event EV_INITIALIZED 0;
     Response 2 CMD_CONTINUE true; Event EV_CONTINUED 0; Response 2 CMD_CONTINUE false] /\
  one_response_per_requestb (processed ins_double) (bodies (run ins_double init_st)) = false.
Proof. exact double_response_refuted. Qed.

(* A failing handler is answered with an error response and the session goes on. *)
Theorem C12_error_response : forall r c h s,
  s_fail h = true ->
  error_response_for_failing_request r c (bodies s) (bodies (fst (dispatch_one r c h s))) /\
  snd (dispatch_one r c h s) = true.
Proof. exact error_response. Qed.

(* ... but an undecodable envelope ends the session silently. *)
Theorem C12_bad_envelope_silent_refuted :
  bodies (run [InBadEnvelope; InReq 2 CMD_THREADS (h_simple true)] init_st) = [] /\
  processed [InBadEnvelope; InReq 2 CMD_THREADS (h_simple true)] = [].
Proof. exact bad_envelope_silent_refuted. Qed.

(* --- lifecycle --- *)

(* drain_events from any state, for any queue contents *)
Theorem C12_drain_lifecycle : forall s,
  exists X, bodies (drain_events s) = bodies s ++ X /\
    (count_ev EV_EXITED X <= 1)%nat /\ (count_ev EV_TERMINATED X <= 1)%nat /\
    lifecycle_okb X = true /\ (terminated s = true -> X = []).
Proof. exact drain_lifecycle. Qed.

(* whole sessions with one debuggee, session thread alone *)
Theorem C12_lifecycle_partial : forall ins,
  single_debuggee_b ins = true ->
  lifecycle_once (bodies (run ins init_st)) /\ no_event_after_terminated (bodies (run ins init_st)).
Proof. exact lifecycle_partial. Qed.

(* the forwarders never look at the latch *)
Theorem C12_output_after_terminated_refuted :
  let session := compile_real (session_blocks ins_to_exit) in
  let c := run_sched (repeat 0%nat (length session) ++ repeat 1%nat 4)
             (init_c [session; compile_real (forwarder_blocks 1)]) in
  lifecycle_okb (map m_body (c_wire c)) = false /\
  lastn 3 (c_wire c) = [Msg 19 (Event EV_EXITED 0); Msg 20 (Event EV_TERMINATED 0); Msg 21 (Event EV_OUTPUT 0)].
Proof. exact output_after_terminated_refuted. Qed.

(* the literal "nothing after terminated": the run loop keeps answering after a natural exit *)
Theorem C12_nothing_after_terminated_refuted :
  let bs := bodies (run (ins_to_exit ++ [InReq 5 CMD_THREADS (h_simple false)]) init_st) in
  nothing_after_terminatedb bs = false /\ lifecycle_okb bs = true /\
  lastn 2 bs = [Event EV_TERMINATED 0; Response 5 CMD_THREADS false].
Proof. exact nothing_after_terminated_refuted. Qed.

(* second launch: thread 100 announced as exited twice *)
Theorem C12_thread_exit_twice_refuted :
  let bs := bodies (run ins_relaunch init_st) in
  thread_lifecycleb bs = false /\ count_ev EV_THREAD_EXITED bs = 2%nat /\
  filter (fun b => is_ev EV_THREAD_STARTED b || is_ev EV_THREAD_EXITED b) bs =
    [Event EV_THREAD_STARTED 100; Event EV_THREAD_EXITED 100; Event EV_THREAD_STARTED 200; Event EV_THREAD_EXITED 100].
Proof. exact thread_exit_twice_refuted. Qed.

(* restart after exit: the new stop is never announced *)
Theorem C12_stop_swallowed_after_exit_refuted :
  let before := bodies (run ins_to_exit init_st) in
  let after := bodies (run (ins_to_exit ++ [InReq 5 CMD_RESTART (h_start_stop [300%Z])]) init_st) in
  after = before ++ [Response 5 CMD_RESTART true].
Proof. exact stop_swallowed_after_exit_refuted. Qed.

(* the checkers used on harness cases mean what the predicates say *)
Theorem C12_seqs_consecutiveb_iff : forall w, seqs_consecutiveb w = true <-> seqs_consecutive w.
Proof. exact seqs_consecutiveb_iff. Qed.
Theorem C12_lifecycle_okb_sound : forall bs, lifecycle_okb bs = true ->
  lifecycle_once bs /\ no_event_after_terminated bs.
Proof. exact lifecycle_okb_sound. Qed.

(* non-vacuity: a whole session (initialize, launch, configurationDone, continue to exit,
   disconnect) satisfies both hypotheses and passes the wire-level checker *)
Example C12_nonvacuous :
  let ins := ins_to_exit ++ [InReq 5 CMD_DISCONNECT (Script [PRespond true] false false)] in
  single_debuggee_b ins = true /\ forallb input_onceb ins = true /\
  length (wire (run ins init_st)) = 21%nat /\
  wire_check (processed ins, wire (run ins init_st)) = 0.
Proof. vm_compute. auto. Qed.
