(* C11 - Start, restart, exit, quit and detach leave the world in the promised state: the clauses
   that Properties/C11.v covers by an example only (restart), not at all (exit code), or for memory
   only (external process: debug registers).  Statements only; proofs in LifecycleXProofs.v. *)
From BS Require Import Model.Base.
From BS Require Import Gen.Dr Model.Dr Model.Wp Spec.DrArch Proofs.DrProofs Proofs.WpProofs.
From BS Require Import Model.BpMachine Proofs.BpMachineProofs.
From BS Require Import Model.LifecycleX Proofs.LifecycleXProofs.
Open Scope N_scope.

(* ---------- clause: restart ---------- *)
(* Full statement wanted: for every history, Restart yields the same user breakpoints (numbers and
   addresses), all enabled, memory = image + patches, the stops again the projection of the native
   trace.  Proved (`_partial`) for every state at a prompt whose registry is GoodReg (the debugger's
   entry-point breakpoint is still there, the user's breakpoints satisfy H_boundary) -- which
   C11_restart_history_partial establishes for every state of every history of run / break / break
   remove (not of the entry point) / continue / restart.  RestartPost V U x says: x = Ok of a stop at
   the first position after the entry point whose address is in U, at a Prompt (so mem_is_patch,
   all breakpoints enabled, executed stream = native prefix: C02) whose registry holds exactly the
   pairs V, reported with the number V gives to that address, new process traced; or (no such
   position) the exit with the program's code, the pairs V pending for the next run. *)
Theorem C11_restart_keeps_partial :
  forall (code : mem) (tr : list N) (rbrk off : N) (has_place : N -> bool) (exit_code : Z),
  (forall a : N, In a tr -> code a <> Some INT3) -> (forall a : N, In a tr -> code a <> None) ->
  forall entry : N, off <= entry -> readable code entry -> readable code rbrk -> rbrk <> entry ->
  (forall k k' : nat, (k < length tr)%nat -> (k' < length tr)%nat -> pc_at tr k = entry -> pc_at tr k' = entry -> k = k') ->
  no_stutter tr -> (0 < length tr)%nat ->
  forall (s : bst) (i : nat) (m : mem),
  Prompt code tr s i m -> r_dis (s_reg s) = [] -> GoodReg code rbrk off entry (r_bps (s_reg s)) ->
  RestartPost code tr rbrk off has_place exit_code entry (uviews (r_bps (s_reg s)))
    (uaddrs (r_bps (s_reg s))) (restart_debugee code tr rbrk off has_place exit_code s).
Proof. exact restart_at_prompt. Qed.

(* restart after the program has exited *)
Theorem C11_restart_keeps_after_exit_partial :
  forall (code : mem) (tr : list N) (rbrk off : N) (has_place : N -> bool) (exit_code : Z),
  (forall a : N, In a tr -> code a <> Some INT3) -> (forall a : N, In a tr -> code a <> None) ->
  forall entry : N, off <= entry -> readable code entry -> readable code rbrk -> rbrk <> entry ->
  (forall k k' : nat, (k < length tr)%nat -> (k' < length tr)%nat -> pc_at tr k = entry -> pc_at tr k' = entry -> k = k') ->
  no_stutter tr -> (0 < length tr)%nat ->
  forall s : bst, s_status s = Exited -> Dormant code rbrk off has_place entry (s_reg s) ->
  RestartPost code tr rbrk off has_place exit_code entry (pendv off (s_reg s)) (pending_addrs off s)
    (restart_debugee code tr rbrk off has_place exit_code s).
Proof. exact restart_after_exit. Qed.

(* the first run (Restart of a never-started program is `run`) *)
Theorem C11_first_run_partial :
  forall (code : mem) (tr : list N) (rbrk off : N) (has_place : N -> bool) (exit_code : Z),
  (forall a : N, In a tr -> code a <> Some INT3) -> (forall a : N, In a tr -> code a <> None) ->
  forall entry : N, off <= entry -> readable code entry -> readable code rbrk -> rbrk <> entry ->
  (forall k k' : nat, (k < length tr)%nat -> (k' < length tr)%nat -> pc_at tr k = entry -> pc_at tr k' = entry -> k = k') ->
  no_stutter tr -> (0 < length tr)%nat ->
  forall s : bst, s_status s = Unload -> Dormant code rbrk off has_place entry (s_reg s) ->
  s_external s = false -> s_fate s = FTraced ->
  RestartPost code tr rbrk off has_place exit_code entry (pendv off (s_reg s)) (pending_addrs off s)
    (continue_execution code tr rbrk off has_place exit_code s).
Proof. exact first_run. Qed.

(* every state of every history [Life] (from init_launched: break before run / after exit at a fresh
   place, break and break remove (not the entry point) at a stop, continue, restart, in any order and
   number) is idle-and-dormant, a Prompt with a GoodReg registry, or exited-and-dormant: the hypotheses
   of the three theorems above (and of C01_projection_partial / C02 at prompts) hold all along *)
Theorem C11_restart_history_partial :
  forall (code : mem) (tr : list N) (rbrk off : N) (has_place : N -> bool) (exit_code : Z),
  (forall a : N, In a tr -> code a <> Some INT3) -> (forall a : N, In a tr -> code a <> None) ->
  forall entry : N, off <= entry -> readable code entry -> readable code rbrk -> rbrk <> entry ->
  (forall k k' : nat, (k < length tr)%nat -> (k' < length tr)%nat -> pc_at tr k = entry -> pc_at tr k' = entry -> k = k') ->
  no_stutter tr -> (0 < length tr)%nat ->
  forall s : bst, Life code tr rbrk off has_place exit_code entry s -> LifeInv code tr rbrk off has_place entry s.
Proof. exact life_inv. Qed.

(* same (number, address) pairs => same projection of the same native trace: with
   C01_projection_partial at the prompt the restart delivers, every later `continue` stops where the
   old process would have *)
Theorem C11_restart_same_stops :
  forall (tr : list N) (bps bps' : list bp),
  (forall v : N * N, In v (uviews bps') <-> In v (uviews bps)) ->
  forall i : nat,
  stops tr (uaddrs bps') i = stops tr (uaddrs bps) i /\ next_hit tr (uaddrs bps') i = next_hit tr (uaddrs bps) i.
Proof. exact same_views_same_stops. Qed.

(* the exit keeps the user's breakpoints pending with their numbers *)
Theorem C11_exit_keeps_breakpoints_partial :
  forall (code : mem) (tr : list N) (rbrk off : N) (has_place : N -> bool) (exit_code : Z),
  (forall a : N, In a tr -> code a <> Some INT3) -> (forall a : N, In a tr -> code a <> None) ->
  forall entry : N, off <= entry -> rbrk <> entry -> no_stutter tr ->
  forall (s : bst) (i : nat) (m : mem),
  Prompt code tr s i m -> r_dis (s_reg s) = [] -> GoodReg code rbrk off entry (r_bps (s_reg s)) ->
  next_hit tr (uaddrs (r_bps (s_reg s))) (S i) = None ->
  exists (s' : bst) (r : cres),
    continue_execution code tr rbrk off has_place exit_code s = Ok (s', r) /\
    exit_seen exit_code r /\ ExitedOK tr s' /\ Dormant code rbrk off has_place entry (s_reg s') /\
    (forall v : N * N, In v (pendv off (s_reg s')) <-> In v (uviews (r_bps (s_reg s)))) /\
    s_detached s' = s_detached s /\ s_external s' = s_external s.
Proof. exact exit_keeps_views. Qed.

Theorem C11_good_address_decidable : forall code rbrk off has_place entry a,
  good_ab code rbrk off has_place entry a = true -> GoodA' code rbrk off has_place entry a.
Proof. exact good_ab_sound. Qed.

Theorem C11_restart_keeps_refuted : exists tr ops,
  let x := BpMachineProofs.wrun tr ops in
  only_stops (snd x) = [StopBp 30 1; StopExit 7; StopExit 7] /\ snapshot (s_reg (fst x)) = [(1, Glob 30)] /\
  only_stops (wspec tr ops) = [StopBp 30 1; StopBp 30 1; StopBp 30 1].
Proof. exact restart_entry_removed_refuted. Qed.

Theorem C11_restart_double_listing_refuted : exists tr ops,
  snapshot (s_reg (fst (BpMachineProofs.wrun tr ops))) = [(1, Glob 50); (2, Reloc 50)] /\
  snapshot (s_reg (fst (BpMachineProofs.wrun tr (ops ++ [Restart])))) = [(1, Reloc 50)].
Proof. exact restart_double_listing_refuted. Qed.

(* ---------- clause: the exit code ---------- *)
(* full strength over the model: ALL states, ALL command lists (restarts, steps over the last
   instruction, detach, ... included): every exit the core reports carries the status of the native run *)
Theorem C11_exit_code :
  forall (code : mem) (tr : list N) (rbrk off : N) (has_place : N -> bool) (exit_code : Z) (ops : list op) (s : bst),
  Forall (fun c : Z => c = exit_code) (exit_codes (snd (run_ops code tr rbrk off has_place exit_code s ops))).
Proof. exact run_ops_exit_codes. Qed.

Theorem C11_exit_code_end_partial : forall c, continue_at_end (WExited c) = (Some c, OStop (StopExit c)) /\
  fst (continue_at_end (WExited c)) = Some (real_status (WExited c)).
Proof. exact end_exited_reports_code. Qed.

Theorem C11_exit_code_signaled_refuted : exists w,
  fst (continue_at_end w) = None /\ snd (continue_at_end w) = OErr E_NOT_STARTED /\ real_status w = 139%Z.
Proof. exact LifecycleXProofs.C11_exit_code_signaled_refuted. Qed.

Theorem C11_exit_code_step_refuted : exists tr ops,
  let x := BpMachineProofs.wrun tr ops in
  s_status (fst x) = Exited /\
  option_map dap_step_exit_code (last_error (snd x)) = Some (Some 0%Z) /\
  snd (BpMachineProofs.wrun tr [Add 20; Continue; Continue]) = [OAdded 1; OStop (StopBp 20 1); OStop (StopExit 7)].
Proof. exact LifecycleXProofs.C11_exit_code_step_refuted. Qed.

(* ---------- clause: detach from / quit after attaching to an external process ---------- *)
(* Survives code w x': fate FReleased, process alive, memory = code, no active breakpoint, no
   watchpoint, the threads of w all still there, every thread's DR7 with L0-3 and G0-3 clear.
   StoppedWF: stopped live debuggee with memory = image + patches of its registry (every Prompt --
   C11_prompt_is_stopped -- and also a stop with temporaries left behind by a failed step).
   Inv / Armed of the watchpoint side hold after any watchpoint / thread history of an attached
   process (C11_attached_watch_history). *)
Theorem C11_external_survives_partial :
  forall (code : mem) (off : N) (s : bst) (w : Wp.st),
  StoppedWF code s -> s_detached s = false -> Inv w -> Armed w ->
  exists x' : world,
    detach_w off {| w_bp := s; w_wp := w |} = Ok x' /\ Survives code w x' /\ s_detached (w_bp x') = true.
Proof. exact detach_external_survives. Qed.

Theorem C11_external_survives_drop_partial :
  forall (code : mem) (off : N) (s : bst) (w : Wp.st),
  StoppedWF code s -> s_detached s = false -> s_external s = true -> Inv w -> Armed w ->
  exists x' : world, drop_w off {| w_bp := s; w_wp := w |} = Ok x' /\ Survives code w x'.
Proof. exact drop_external_survives. Qed.

Theorem C11_prompt_is_stopped : forall code tr s i m, Prompt code tr s i m -> StoppedWF code s.
Proof. exact prompt_stopped. Qed.

Theorem C11_attached_is_prompt : forall (code : mem) (tr : list N) (entry off : N) (i : nat),
  (i < length tr)%nat ->
  Prompt code tr (init_attached code tr entry off i) i code /\
  s_external (init_attached code tr entry off i) = true /\ s_detached (init_attached code tr entry off i) = false.
Proof. exact attached_is_prompt. Qed.

Theorem C11_attached_watch_history : forall (ops : list wop) (tds : list N),
  tds <> [] -> Forall valid_op ops ->
  Inv (Wp.wrun ops (wst_attached tds)) /\ Armed (Wp.wrun ops (wst_attached tds)).
Proof. exact attached_wrun_ok. Qed.

(* both halves: any prompt of the patch machine, any watchpoint / thread history *)
Theorem C11_external_survives_history_partial : forall code tr off s i m ops tds,
  Prompt code tr s i m -> s_detached s = false -> tds <> [] -> Forall valid_op ops ->
  let w := Wp.wrun ops (wst_attached tds) in
  (exists x', detach_w off (mk_world s w) = Ok x' /\ Survives code w x' /\ s_detached (w_bp x') = true) /\
  (s_external s = true -> exists x', drop_w off (mk_world s w) = Ok x' /\ Survives code w x').
Proof. exact attached_history_survives. Qed.

Theorem C11_clear_all_quiet : forall w : Wp.st, Inv w -> Armed w ->
  exists w' : Wp.st,
    clear_all w = Ok w' /\ wps w' = [] /\ last_seen w' = None /\ tids w' = tids w /\
    (forall (t : N) (h : hw), In (t, h) (threads w') -> dr7_quiet (h_dr7 h) = true).
Proof. exact clear_all_quiet. Qed.

Theorem C11_armed_decidable : forall w, armedb w = true -> Armed w.
Proof. exact armedb_sound. Qed.

(* the other states in which a history can reach Detach / Quit *)
Theorem C11_detach_drop_after_exit : forall (off : N) (s : bst) (w : Wp.st),
  s_status s = Exited -> s_detached s = false ->
  (exists x' : world,
     detach_w off {| w_bp := s; w_wp := w |} = Ok x' /\ s_fate (w_bp x') = s_fate s /\ wps (w_wp x') = []) /\
  (s_external s = true ->
   exists x' : world,
     drop_w off {| w_bp := s; w_wp := w |} = Ok x' /\ s_fate (w_bp x') = s_fate s /\ wps (w_wp x') = []).
Proof. exact detach_drop_after_exit. Qed.

Theorem C11_after_detach_noop : forall (off : N) (x : world),
  s_detached (w_bp x) = true -> detach_w off x = Ok x /\ drop_w off x = Ok x.
Proof. exact after_detach_noop. Qed.

(* a launched debuggee at a stop: its debug registers are cleared without a panic, then it is killed
   and reaped *)
Theorem C11_drop_launched_partial :
  forall (code : mem) (off : N) (s : bst) (w : Wp.st),
  StoppedWF code s -> s_detached s = false -> s_external s = false -> Inv w -> Armed w ->
  exists x' : world,
    drop_w off {| w_bp := s; w_wp := w |} = Ok x' /\ s_fate (w_bp x') = FReaped /\ wps (w_wp x') = [].
Proof. exact drop_launched_reaped. Qed.

(* outside Armed: a watchpoint whose register was released panics clear_all on a live process *)
Theorem C11_clear_all_unarmed_refuted : exists w, clear_all w = Panic 2.
Proof. exact clear_all_unarmed_panics. Qed.

(* ---------- non-vacuity ---------- *)
Example C11X_restart_nonvacuous :
  trace_okb nop tr_w = true /\ no_stutterb tr_w = true /\ entry_onceb 10 tr_w = true /\
  readableb nop 10 = true /\ readableb nop 99 = true /\
  good_ab nop 99 0 (fun _ => true) 10 20 = true /\ good_ab nop 99 0 (fun _ => true) 10 30 = true /\
  (let s := fst (BpMachineProofs.wrun tr_w [Add 20; Add 30; Continue; Continue]) in
   uviews (r_bps (s_reg s)) = [(1, 20); (2, 30)] /\ p_pc (s_proc s) = 30) /\
  (let x := BpMachineProofs.wrun tr_w [Add 20; Add 30; Continue; Continue; Restart] in
   uviews (r_bps (s_reg (fst x))) = [(1, 20); (2, 30)] /\ p_pc (s_proc (fst x)) = 20 /\
   last_error (snd x) = Some (OStop (StopBp 20 1)) /\ next_hit tr_w [30; 20] 1 = Some 1%nat).
Proof. exact restart_hypotheses_nonvacuous. Qed.

Example C11X_restart_after_exit_nonvacuous :
  let x := BpMachineProofs.wrun tr_w [Add 30; Continue; Continue; Continue; Continue; Restart; Continue] in
  exit_codes (snd x) = [7%Z] /\ only_stops (snd x) = [StopBp 30 1; StopBp 30 1; StopExit 7; StopBp 30 1; StopBp 30 1].
Proof. exact restart_after_exit_example. Qed.

Example C11X_external_nonvacuous :
  let w := Wp.wrun [WAddAddr 4096 SIZE_Bytes8 COND_DataWrites; WNewThread 7; WAddAddr 4104 SIZE_Bytes4 COND_DataReadsWrites]
                   (wst_attached [5; 6]) in
  let s := init_attached nop tr_w 10 0 3 in
  armedb w = true /\ map (fun th => dr7_quiet (h_dr7 (snd th))) (threads w) = [false; false; false] /\
  match detach_w 0 (mk_world s w) with
  | Ok x' => s_fate (w_bp x') = FReleased /\ wps (w_wp x') = [] /\ tids (w_wp x') = [5; 6; 7] /\
             map (fun th => dr7_quiet (h_dr7 (snd th))) (threads (w_wp x')) = [true; true; true]
  | _ => False
  end.
Proof. exact external_survives_example. Qed.
