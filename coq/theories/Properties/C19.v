(* C19 - Only what is in scope is shown, and it belongs to the selected frame.  Statements only
   (source at /repo HEAD 9f6d836). *)
From BS Require Import Model.Base.
From BS Require Import Model.Scope Proofs.ScopeProofs.
Open Scope N_scope.

(* the breadth-first traversal terminates within its fuel and sees exactly the DIEs below
   the function, each with the ranges of its nearest enclosing scope DIE ... *)
Theorem C19_visit_desc : forall sc root,
  exists l, visit sc root = Ok l /\ forall v, In v l <-> desc sc O None root v.
Proof. exact visit_desc. Qed.

(* ... in order of non-decreasing depth *)
Theorem C19_visit_mono : forall sc root l, visit sc root = Ok l -> mono l.
Proof. exact visit_mono. Qed.

(* what `var locals` lists *)
Theorem C19_local_variables_desc : forall root pc,
  exists l, local_variables root pc = Ok l /\
    forall v, In v l <-> (desc is_scope_model O None root v /\
                          is_var (v_die v) = true /\ valid_at (v_ctx v) pc = true).
Proof. exact local_variables_desc. Qed.

(* listed = in lexical scope (no variable of a sibling block, none of a block that does not
   cover pc), for functions without inlined calls *)
Theorem C19_scope_partial : forall root pc, no_inlined root = true ->
  exists l, local_variables root pc = Ok l /\ forall v, In v l <-> in_scope root pc v.
Proof. exact scope_partial. Qed.

(* STILL REFUTED: variables of an inlined call are attributed to the caller's block *)
Theorem C19_scope_refuted : exists root pc l v,
  local_variables root pc = Ok l /\ In v l /\
  ~ exists v', in_scope root pc v' /\ v_die v' = v_die v.
Proof. exact scope_refuted. Qed.

(* block ranges cannot say "declared later in the same block": siblings are listed together *)
Theorem C19_same_block_same_listing : forall root pc l p x y,
  local_variables root pc = Ok l ->
  (p = mk_vnode O None root \/ desc is_scope_model O None root p) ->
  In x (d_children (v_die p)) -> In y (d_children (v_die p)) ->
  is_var x = true -> is_var y = true ->
  let c := child_ctx is_scope_model (v_ctx p) (v_die p) in
  (In (mk_vnode (S (v_depth p)) c x) l <-> In (mk_vnode (S (v_depth p)) c y) l).
Proof. exact same_block_same_listing. Qed.

(* `arg all` *)
Theorem C19_params_exact : forall root p,
  In p (parameters root) <-> In p (d_children root) /\ d_kind p = KParam.
Proof. exact params_exact. Qed.

(* `var NAME` returns a live binding of that name, or nothing if there is none *)
Theorem C19_local_variable_sound : forall root pc name,
  exists r, local_variable root pc name = Ok r /\
    match r with
    | Some v => desc is_scope_model O None root v /\ candidate pc name v = true
    | None => forall v, desc is_scope_model O None root v -> candidate pc name v = false
    end.
Proof. exact local_variable_sound. Qed.

(* HEADLINE.  A shadowed name resolves to an innermost live binding *)
Theorem C19_shadow_partial : forall root pc name, no_inlined root = true ->
  exists r, local_variable root pc name = Ok r /\
    match r with
    | Some v => innermost root pc name v
    | None => forall v, in_scope root pc v -> name_is (v_die v) name = false
    end.
Proof. exact shadow_partial. Qed.

(* ... the one the computable specification picks *)
Theorem C19_lookup_exact_partial : forall root pc name, no_inlined root = true ->
  local_variable root pc name = spec_lookup root pc name.
Proof. exact lookup_exact_partial. Qed.

(* location lists: the entry whose half-open range contains pc *)
Theorem C19_loclist_exact : forall pc l, no_bad l = true ->
  loclist_select pc l = spec_loclist_select pc l.
Proof. exact loclist_exact. Qed.

Theorem C19_loc_select_exact : forall pc loc,
  match loc with LocList l => no_bad l = true | _ => True end ->
  loc_select pc loc = spec_loc_select pc loc.
Proof. exact loc_select_exact. Qed.

(* non-vacuity: two sibling blocks, pc in the first: only its variable is listed *)
Example C19_example :
  let t := Die 1 KSubprogram (Some 100) [(4096, 4352)] LocNone
       [Die 2 KParam (Some 5) [] (LocExpr 9) [];
        Die 3 KBlock None [(4112, 4200)] LocNone [Die 4 KVar (Some 7) [] (LocExpr 1) []];
        Die 5 KBlock None [(4200, 4300)] LocNone [Die 6 KVar (Some 8) [] (LocExpr 2) []]] in
  no_inlined t = true /\
  match local_variables t 4150 with Ok vs => names_of vs | _ => [] end = [7] /\
  filter_map d_name (parameters t) = [5].
Proof. vm_compute. repeat split; reflexivity. Qed.

Example C19_example_shadow :
  no_inlined tree_shadow = true /\
  match local_variable tree_shadow 4144 7 with Ok (Some v) => d_off (v_die v) | _ => 0 end = 5 /\
  match local_variable tree_shadow 4120 7 with Ok (Some v) => d_off (v_die v) | _ => 0 end = 3.
Proof. exact shadow_applies. Qed.

Example C19_example_cases :
  locals_check (mk_locals_case tree_shadow 4144 [7; 7]) = 0 /\
  locals_check (mk_locals_case tree_inlined 4176 [7]) = 2 /\
  lookup_check (mk_lookup_case tree_shadow 4144 7 (Some [(4128, 4320)])) = 0 /\
  lookup_check (mk_lookup_case tree_shadow 4144 7 (Some [(4112, 4336)])) = 2 /\
  loc_check (mk_loc_case (LocList [LEntry 16 32 1; LEntry 32 48 2]) 32 (Some 2)) = 0 /\
  loc_check (mk_loc_case (LocList [LEntry 16 32 1; LEntry 32 48 2]) 32 (Some 1)) = 2 /\
  loc_check (mk_loc_case (LocList [LEntry 16 32 1]) 32 None) = 0.
Proof. vm_compute. repeat split; reflexivity. Qed.

Print Assumptions C19_visit_desc.
Print Assumptions C19_visit_mono.
Print Assumptions C19_scope_partial.
Print Assumptions C19_scope_refuted.
Print Assumptions C19_same_block_same_listing.
Print Assumptions C19_shadow_partial.
Print Assumptions C19_lookup_exact_partial.
Print Assumptions C19_loclist_exact.
