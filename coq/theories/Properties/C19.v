(* C19 - Only what is in scope is shown, and it belongs to the selected frame.  Statements only. *)
From BS Require Import Model.Base.
From BS Require Import Model.Scope Proofs.ScopeProofs.
Open Scope N_scope.

(* the breadth-first traversal terminates within its fuel and sees exactly the DIEs below
   the function, each with the ranges of its nearest enclosing scope DIE *)
Theorem C19_visit_desc : forall sc root,
  exists l, visit sc root = Ok l /\ forall v, In v l <-> desc sc O None root v.
Proof. exact visit_desc. Qed.

(* what `var locals` lists *)
Theorem C19_local_variables_desc : forall root pc,
  exists l, local_variables root pc = Ok l /\
    forall v, In v l <-> (desc is_scope_model O None root v /\
                          is_var (v_die v) = true /\ valid_at (v_ctx v) pc = true).
Proof. exact local_variables_desc. Qed.

(* listed = in lexical scope (no variable of a sibling block, none of an enclosing function
   part that does not cover pc), for functions without inlined calls *)
Theorem C19_scope_partial : forall root pc, no_inlined root = true ->
  exists l, local_variables root pc = Ok l /\ forall v, In v l <-> in_scope root pc v.
Proof. exact scope_partial. Qed.

(* variables of an inlined call are attributed to the caller's block *)
Theorem C19_scope_refuted : exists root pc l v,
  local_variables root pc = Ok l /\ In v l /\
  ~ exists v', in_scope root pc v' /\ v_die v' = v_die v.
Proof. exact scope_refuted. Qed.

(* block ranges cannot say "declared later in the same block": siblings are listed together *)
Theorem C19_same_block_same_listing : forall root pc l p x y,
  local_variables root pc = Ok l ->
  (p = mk_vnode O None root \/ desc is_scope_model O None root p) ->
  In x (d_children (v_die p)) -> In y (d_children (v_die p)) ->
  is_var x = true -> is_var y = true ->
  let c := child_ctx is_scope_model (v_ctx p) (v_die p) in
  (In (mk_vnode (S (v_depth p)) c x) l <-> In (mk_vnode (S (v_depth p)) c y) l).
Proof. exact same_block_same_listing. Qed.

(* `arg all` *)
Theorem C19_params_exact : forall root p,
  In p (parameters root) <-> In p (d_children root) /\ d_kind p = KParam.
Proof. exact params_exact. Qed.

(* `var NAME` returns a live binding of that name, or nothing if there is none *)
Theorem C19_local_variable_sound : forall root pc name,
  exists r, local_variable root pc name = Ok r /\
    match r with
    | Some v => desc is_scope_model O None root v /\ candidate pc name v = true
    | None => forall v, desc is_scope_model O None root v -> candidate pc name v = false
    end.
Proof. exact local_variable_sound. Qed.

(* ... the innermost one when only one is live ... *)
Theorem C19_shadow_partial : forall root pc name,
  no_inlined root = true -> single_candidate root pc name = true ->
  exists v, local_variable root pc name = Ok (Some v) /\ innermost root pc name v.
Proof. exact shadow_partial. Qed.

(* ... and the OUTER one when a shadowing binding is live too *)
Theorem C19_shadow_refuted : exists root pc name v,
  no_inlined root = true /\ local_variable root pc name = Ok (Some v) /\
  d_off (v_die v) = 3 /\ ~ innermost root pc name v.
Proof. exact shadow_refuted. Qed.

(* location lists *)
Theorem C19_loclist_partial : forall pc l, no_end_at pc l = true ->
  loclist_select pc l = spec_loclist_select pc l.
Proof. exact loclist_partial. Qed.

Theorem C19_loclist_refuted : exists pc l,
  loclist_select pc l = Some 1 /\ spec_loclist_select pc l = Some 2.
Proof. exact loclist_refuted. Qed.

Theorem C19_loclist_past_end_refuted : exists pc l,
  loclist_select pc l = Some 1 /\ spec_loclist_select pc l = None.
Proof. exact loclist_past_end_refuted. Qed.

(* non-vacuity: two sibling blocks, pc in the first: only its variable is listed *)
Example C19_example :
  let t := Die 1 KSubprogram (Some 100) [(4096, 4352)] LocNone
       [Die 2 KParam (Some 5) [] (LocExpr 9) [];
        Die 3 KBlock None [(4112, 4200)] LocNone [Die 4 KVar (Some 7) [] (LocExpr 1) []];
        Die 5 KBlock None [(4200, 4300)] LocNone [Die 6 KVar (Some 8) [] (LocExpr 2) []]] in
  no_inlined t = true /\
  match local_variables t 4150 with Ok vs => names_of vs | _ => [] end = [7] /\
  filter_map d_name (parameters t) = [5].
Proof. vm_compute. repeat split; reflexivity. Qed.

Example C19_example_cases :
  locals_check (mk_locals_case tree_shadow 4144 [7; 7]) = 0 /\
  locals_check (mk_locals_case tree_inlined 4176 [7]) = 2 /\
  lookup_check (mk_lookup_case tree_shadow 4144 7 (Some [(4112, 4336)])) = 2 /\
  lookup_check (mk_lookup_case tree_shadow 4144 7 (Some [(4128, 4320)])) = 1 /\
  loc_check (mk_loc_case (LocList [LEntry 16 32 1; LEntry 32 48 2]) 32 (Some 1)) = 2 /\
  loc_check (mk_loc_case (LocList [LEntry 16 32 1; LEntry 32 48 2]) 40 (Some 2)) = 0.
Proof. vm_compute. repeat split; reflexivity. Qed.

Print Assumptions C19_visit_desc.
Print Assumptions C19_scope_partial.
Print Assumptions C19_scope_refuted.
Print Assumptions C19_same_block_same_listing.
Print Assumptions C19_shadow_partial.
Print Assumptions C19_shadow_refuted.
Print Assumptions C19_loclist_partial.
Print Assumptions C19_loclist_refuted.
