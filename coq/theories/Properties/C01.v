(* C01 — Breakpoint stops are exactly the projection of the real execution: headline theorems. *)
From BS Require Import Model.Base.
From BS Require Import Model.BpMachine Proofs.BpMachineProofs.
Open Scope N_scope.

(* `continue` from any prompt (position i of an arbitrary native trace, any well-formed registry)
   stops at the first later position whose address carries a user breakpoint, reports that pc and
   that breakpoint's number, and is again at a prompt (so the statement iterates: loops, recursion,
   every later arrival); with no such position it reports the program's exit code. *)
Theorem C01_projection_partial :
  forall code tr rbrk off has_place exit_code,
  (forall a, In a tr -> code a <> Some INT3) -> (forall a, In a tr -> code a <> None) ->
  no_stutter tr -> forall s i m, Prompt code tr s i m ->
  let bps := r_bps (s_reg s) in
  match next_hit tr (uaddrs bps) (S i) with
  | Some j => exists m' b s', continue_execution code tr rbrk off has_place exit_code s
                                = Ok (s', StopBp (pc_at tr j) (b_num b)) /\
                find_bp (pc_at tr j) bps = Some b /\ b_ty b = TUser /\
                r_bps (s_reg s') = bps /\ Prompt code tr s' j m' /\ (forall x, m' x = m x)
  | None => exists s', continue_execution code tr rbrk off has_place exit_code s = Ok (s', StopExit exit_code) /\
                s_status s' = Exited /\ s_fate s' = FReaped /\ r_bps (s_reg s') = [] /\
                p_exec (s_proc s') = tr
  end.
Proof. exact C01_continue. Qed.

(* a removed breakpoint is out of the registry and out of memory, the prompt invariant survives:
   by C01_projection_partial it cannot be reported again *)
Theorem C01_removed_silent_partial :
  forall code tr,
  forall s i m a, Prompt code tr s i m -> r_dis (s_reg s) = [] ->
  let x := remove_by_addr (Reloc a) (s_reg s) (s_proc s) in
  exists m' v, snd x = Ok v /\ Prompt code tr (with_rp s (fst (fst x)) (snd (fst x))) i m' /\
    r_bps (fst (fst x)) = del_bp a (r_bps (s_reg s)) /\ r_dis (fst (fst x)) = [] /\
    m' a = code a /\ (forall y, y <> a -> m' y = m y).
Proof. exact (fun code tr => remove_prompt code tr 0 (fun _ => true)). Qed.

Theorem C01_remove_zero_refuted : exists tr ops,
  only_stops (snd (wrun tr ops)) = [StopExit 7] /\ only_stops (wspec tr ops) = [StopBp 30 1].
Proof. exact BpMachineProofs.C01_remove_zero_refuted. Qed.

Theorem C01_removed_silent_refuted : exists tr ops,
  snd (wrun tr ops) = [OAdded 1; OStop (StopBp 50 1); OStop (StopExit 7); ORemoved None; OStop (StopBp 50 1)].
Proof. exact BpMachineProofs.C01_removed_silent_refuted. Qed.

Theorem C01_self_loop_refuted : exists tr ops,
  only_stops (snd (wrun tr ops)) = [StopBp 20 1; StopExit 7] /\
  only_stops (wspec tr ops) = [StopBp 20 1; StopBp 20 1].
Proof. exact BpMachineProofs.C01_self_loop_refuted. Qed.

Example C01_nonvacuous :
  let ops := [Add 20; Continue; Continue; Add 30; RemoveAddr 20; Continue; Continue; Restart; Continue] in
  only_stops (snd (wrun tr_w ops)) = only_stops (wspec tr_w ops) /\
  only_stops (snd (wrun tr_w ops)) = [StopBp 20 1; StopBp 20 1; StopBp 30 2; StopExit 7; StopBp 30 2; StopBp 30 2].
Proof. exact C01_session_agrees. Qed.
