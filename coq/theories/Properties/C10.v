(* C10 - Signals reach the debuggee exactly once.
   Statements only; proofs are in TracerProofs.v. *)
From BS Require Import Model.Base Gen.Tracer.
From BS Require Import Model.Tracer Proofs.TracerProofs.
Open Scope N_scope.

(* PARTIAL: the continue phase of Tracer::resume for the popped queue entry (x, sg) hands
   exactly that signal to thread x, once, provided inject_ok: x is not queued again behind it,
   the tracer holds x stopped, x stands in a signal-delivery-stop, sg <> 0 *)
Theorem C10_continue_partial : forall t k sch x sg rest t1 w1, keys_ok t -> t_queue t = (x, sg) :: rest ->
  inject_ok t k = true ->
  cont_stopped_ex kworld kw_req (with_queue t rest) (k, sch) (Some (x, sg)) (map fst rest) = (t1, w1) ->
  k_deliv (fst w1) = k_deliv k ++ [(x, sg)] /\ t_queue t1 = rest.
Proof. exact inject_front_partial. Qed.

(* in every case: nothing but the popped entry is handed over, to no other thread, at most once *)
Theorem C10_continue_nothing_else : forall t k sch x sg rest t1 w1, keys_ok t ->
  cont_stopped_ex kworld kw_req (with_queue t rest) (k, sch) (Some (x, sg)) (map fst rest) = (t1, w1) ->
  k_deliv (fst w1) = k_deliv k \/ k_deliv (fst w1) = k_deliv k ++ [(x, sg)].
Proof. exact inject_nothing_else. Qed.

(* CURRENT code (Gen.Tracer.STEP_QUIET_DEQUEUES = true): SIGALRM arriving inside single_step is
   delivered exactly once, no stop is reported, the queue ends empty *)
Theorem C10_quiet_in_step_now :
  exists d k srs,
    k_api_run 50 [] (mkD (tinit [(1, 100)]) 1 100) (kinit [(1, 100)] [] [], [CSend 1 SIGALRM]) [OStepi; OCont]
      = Ok (d, (k, []), srs)
    /\ srs = [None; Some (SRExit 0)] /\ sig_reports srs = []
    /\ k_sent k = [(1, SIGALRM)] /\ k_deliv k = [(1, SIGALRM)] /\ t_queue (d_tr d) = []
    /\ spec_delivery (k_sent k) (k_deliv k) = true /\ spec_reported (k_sent k) (sig_reports srs) = true.
Proof. exact TracerProofs.C10_quiet_in_step_now. Qed.

Theorem C10_quiet_burst_now :
  run_summary (k_api_run 50 [] (mkD (tinit [(1, 100)]) 1 100)
     (kinit [(1, 100)] [] [], [CSend 1 SIGALRM; CRun 1; CSend 1 SIGALRM]) [OStepi; OStepi; OCont])
  = Some ([None; None; Some (SRExit 0)],
          [(1, SIGALRM); (1, SIGALRM)], [(1, SIGALRM); (1, SIGALRM)], [], [(1, 100); (1, 101)]).
Proof. exact TracerProofs.C10_quiet_burst_now. Qed.

(* general, current code: for every tracer state, table, kernel state and schedule, a quiet signal
   stop seen inside single_step is queued by apply_new_status, taken back by single_step (queue
   as before the step) and handed to the thread exactly once by the PTRACE_SINGLESTEP *)
Theorem C10_quiet_in_step_general : forall f bps t k sch pid sg code pc st,
  quiet sg = true -> tget (t_threads t) pid = Some st -> sigstop_ready k pid = true ->
  exists t2,
    k_ans_gen true (S f) bps t (k, sch) (WStopped pid sg code pc) = Ok (t2, (k, sch), Some (SRSignal pid sg))
    /\ t_queue t2 = t_queue t ++ [(pid, sg)]
    /\ t_queue (with_queue t2 (remove_last_pair (t_queue t2) (pid, sg))) = t_queue t
    /\ forall ok w3, kw_req (k, sch) (PStep pid sg) = (ok, w3) -> k_deliv (fst w3) = k_deliv k ++ [(pid, sg)].
Proof. exact quiet_in_step_once. Qed.

(* REFUTED for the code BEFORE the repair (dequeue = false): delivered twice *)
Theorem C10_quiet_in_step_refuted_old :
  exists sch ops d k srs,
    k_api_run_gen false 50 [] (mkD (tinit [(1, 100)]) 1 100) (kinit [(1, 100)] [] [], sch) ops = Ok (d, (k, []), srs)
    /\ k_sent k = [(1, SIGALRM)] /\ k_deliv k = [(1, SIGALRM); (1, SIGALRM)]
    /\ k_threads k = [] /\ spec_delivery (k_sent k) (k_deliv k) = false.
Proof. exact TracerProofs.C10_quiet_in_step_refuted_old. Qed.

(* REFUTED for the code BEFORE the repair: three deliveries for two SIGALRMs and a stop reported
   for a quiet signal *)
Theorem C10_quiet_burst_refuted_old :
  run_summary (k_api_run_gen false 50 [] (mkD (tinit [(1, 100)]) 1 100)
     (kinit [(1, 100)] [] [], [CSend 1 SIGALRM; CRun 1; CSend 1 SIGALRM]) [OStepi; OStepi; OCont; OCont])
  = Some ([None; None; Some (SRSignal 1 SIGALRM); Some (SRExit 0)],
          [(1, SIGALRM); (1, SIGALRM)], [(1, SIGALRM); (1, SIGALRM); (1, SIGALRM)], [], [(1, 100); (1, 101)]).
Proof. exact TracerProofs.C10_quiet_burst_refuted_old. Qed.

(* REFUTED: a signal reported by stepi is withheld by the next stepi (the thread executes on,
   no handler), it only reaches the debuggee at the next continue *)
Theorem C10_step_suppresses_refuted :
  run_summary (k_api_run 50 [] (mkD (tinit [(1, 100)]) 1 100)
     (kinit [(1, 100)] [] [], [CSend 1 SIGUSR1]) [OStepi; OStepi])
  = Some ([Some (SRSignal 1 SIGUSR1); None], [(1, SIGUSR1)], [], [(1, SIGUSR1)], [(1, 100)]).
Proof. exact TracerProofs.C10_step_suppresses_refuted. Qed.

(* REFUTED (Continue only): a signal absorbed during a group stop, on a thread standing on a
   breakpoint, is lost *)
Theorem C10_signal_lost_refuted :
  run_summary (k_api_run 80 [mk_bp 200 BUser 1 true] (mkD (tinit [(1, 100); (2, 200)]) 1 100)
     (kinit [(1, 100); (2, 200)] [200] [], [CSend 1 SIGUSR1; CSend 2 SIGUSR2; CSig 1; CSig 2])
     [OCont; OCont; OCont])
  = Some ([Some (SRSignal 1 SIGUSR1); Some (SRSignal 2 SIGUSR2); Some (SRExit 0)],
          [(1, SIGUSR1); (2, SIGUSR2)], [(1, SIGUSR1)], [], []).
Proof. exact TracerProofs.C10_signal_lost_refuted. Qed.

(* non-vacuity: a burst of three signals on two threads under Continue only is accounted for
   exactly (SIGALRM passes through, SIGUSR1 and SIGINT are reported, SIGINT is not delivered) *)
Example C10_nonvacuous :
  acct_check ([1; 2], [ASend 2 SIGUSR1; ASend 1 SIGALRM; ASend 1 SIGINT; AOp OCont; AOp OCont; AOp OCont],
              [(SIGALRM, 1); (SIGUSR1, 1); (SIGINT, 0)], [(1, SIGINT); (2, SIGUSR1)]) = 0.
Proof. vm_compute. reflexivity. Qed.

(* the accounting checker runs the CURRENT code: stepi with a SIGALRM, then continue: counter 1 *)
Example C10_acct_quiet_in_step_now : acct_check ([1], [ASend 1 SIGALRM; AOp OStepi; AOp OCont], [(SIGALRM, 1)], []) = 0.
Proof. vm_compute. reflexivity. Qed.

Print Assumptions C10_continue_partial.
Print Assumptions C10_continue_nothing_else.
Print Assumptions C10_quiet_in_step_now.
Print Assumptions C10_quiet_in_step_general.
Print Assumptions C10_quiet_in_step_refuted_old.
Print Assumptions C10_step_suppresses_refuted.
Print Assumptions C10_signal_lost_refuted.
