(* C06 - Values shown are the values the program holds: the byte-level decoders.  Statements only. *)
From BS Require Import Model.Base.
From BS Require Import Model.Decode Proofs.DecodeProofs.
Open Scope N_scope.

(* ---- integers --------------------------------------------------------------------------- *)
(* every width (1, 2, 4, 8, 16 bytes; in fact any) and both signs: decode (to_le_bytes v) = v *)
Theorem C06_int_unsigned_roundtrip : forall w v rest,
  v < 2 ^ (8 * N.of_nat w) -> scalar_unsigned w (to_le_bytes_u w v ++ rest) = Ok v.
Proof. exact int_unsigned_roundtrip. Qed.

Theorem C06_int_signed_roundtrip : forall w z rest,
  (0 < w)%nat ->
  (- Z.of_N (2 ^ (8 * N.of_nat w - 1)) <= z < Z.of_N (2 ^ (8 * N.of_nat w - 1)))%Z ->
  scalar_signed w (to_le_bytes_s w z ++ rest) = Ok z.
Proof. exact int_signed_roundtrip. Qed.

(* ---- VecDeque / Vec ---------------------------------------------------------------------- *)
(* for ANY capacity: the sequence shown is the len elements from head on in the ring of cap slots,
   zero-sized element types included; extra hypothesis: len <= LEN_GUARD *)
Theorem C06_vecdeque_exact_partial : forall dp len cap_raw head el buf,
  len <= LEN_GUARD -> vd_valid len cap_raw head el ->
  cap_raw * el <= lenN buf -> dp + (cap_raw + LEN_GUARD) * el < 2 ^ 63 ->
  vecdeque_decode_at dp len cap_raw head el buf = Ok (vecdeque_spec len cap_raw head el buf).
Proof. exact vecdeque_exact_partial. Qed.

(* the stated limitation: more than LEN_GUARD elements are silently truncated *)
Theorem C06_vecdeque_len_guard_refuted :
  exists len cap head el buf,
    vd_valid len cap head el /\ cap * el = lenN buf /\
    exists items, vecdeque_decode len cap head el buf = Ok items /\
      lenN items = LEN_GUARD /\ lenN (vecdeque_spec len cap head el buf) = LEN_GUARD + 1.
Proof. exact vecdeque_len_guard_refuted. Qed.

(* ANY header values (len > cap, cap = 0, head >= cap, garbage): the read error, or the slots
   vd_indices with what the memory holds; no panic as long as the address arithmetic fits *)
Theorem C06_vecdeque_total : forall dp len cap head el buf,
  dp + (vd_cap cap el + guard_len len) * el < 2 ^ 63 ->
  vecdeque_decode_at dp len cap head el buf = Err EIO \/
  vecdeque_decode_at dp len cap head el buf =
    Ok (map (fun i => (i, elem_at buf el i)) (vd_indices len cap head el)).
Proof. exact vecdeque_total. Qed.

Theorem C06_vecdeque_no_panic : forall dp len cap head el buf,
  len < 2 ^ 63 -> dp + (vd_cap cap el + LEN_GUARD) * el < 2 ^ 63 ->
  vecdeque_decode_at dp len cap head el buf = Err EIO \/
  exists items, vecdeque_decode_at dp len cap head el buf = Ok items /\
                map fst items = vd_indices len cap head el /\ lenN items = guard_len len /\
                lenN items <= LEN_GUARD.
Proof. exact vecdeque_no_panic. Qed.

(* without that bound the debug profile still panics: garbage capacity 2^62, or a len field with the
   top bit set (not guarded) *)
Theorem C06_vecdeque_overflow_refuted :
  vecdeque_decode 1 (2 ^ 62) (2 ^ 62 - 1) 8 [] = Panic SITE_VD_MUL /\
  vecdeque_decode (2 ^ 63) 1 0 8 [1; 2; 3; 4; 5; 6; 7; 8] = Panic SITE_VD_MUL /\
  vecdeque_decode (2 ^ 63 + 1) 1 0 1 [1] = Panic SITE_VD_ALLOC.
Proof. exact vecdeque_overflow_refuted. Qed.

Theorem C06_vec_exact_partial : forall len el buf,
  len <= LEN_GUARD -> len * el < 2 ^ 64 -> len * el <= lenN buf ->
  vec_decode len el buf = Ok (vec_spec len el buf).
Proof. exact vec_exact_partial. Qed.

Theorem C06_vec_len_guard_refuted :
  exists len el buf, len * el <= lenN buf /\
    exists items, vec_decode len el buf = Ok items /\ lenN items = LEN_GUARD /\ lenN (vec_spec len el buf) = len
                  /\ len = LEN_GUARD + 1.
Proof. exact vec_len_guard_refuted. Qed.

(* ---- hashbrown --------------------------------------------------------------------------- *)
(* the software movemask is the SSE2 one, for every group (not 100 random ones) *)
Theorem C06_match_empty_or_deleted_is_movemask : forall g j,
  Forall (fun b => b < 256) g -> length g = 16%nat ->
  N.testbit (match_empty_or_deleted g) j = (j <? 16) && (128 <=? nth (N.to_nat j) g 255).
Proof. exact match_empty_or_deleted_is_movemask. Qed.

(* any number of groups, tables smaller than a group included: exactly the full buckets, ascending,
   each at ctrl - (i+1)*size *)
Theorem C06_hashbrown_exact : forall ctrl mask size fuel,
  mask < USIZE_MAX -> hb_layout ctrl (mask + 1) -> (hb_fuel mask <= fuel)%nat ->
  hb_collect fuel ctrl mask size = Ok (hb_spec ctrl mask size).
Proof. exact hb_iter_exact. Qed.

Theorem C06_hashbrown_spec_is_the_set : forall ctrl b i,
  In i (full_buckets ctrl b) <-> i < b /\ ctrl_at ctrl i < CTRL_FULL_LIMIT.
Proof. exact full_buckets_In. Qed.
Theorem C06_hashbrown_each_once : forall ctrl mask size, 0 < size -> NoDup (hb_spec ctrl mask size).
Proof. exact hb_spec_NoDup. Qed.

(* ---- B-tree ------------------------------------------------------------------------------ *)
Theorem C06_btree_exact : forall heap ks vs h t fuel,
  repr heap h t 0 0 -> (tree_size t <= fuel)%nat ->
  bt_collect fuel heap ks vs (taddr t) h = Ok (flatten t).
Proof. exact bt_iter_exact. Qed.

(* a node that is its own parent: the loop never ends, whatever the fuel *)
Theorem C06_btree_cyclic_parent_refuted : forall fuel, bt_collect fuel heap_cyc 8 8 8 0 = OutOfFuel.
Proof. exact bt_cyclic_parent_out_of_fuel_refuted. Qed.

(* a len field above CAPACITY (memory that is not a node): the key slice was out of range before the repair
   (Panic SITE_BT_SLICE, exhibited on the real debugger by `var ~(&map)[..6]`); now it is read as a full node *)
Theorem C06_btree_len_above_capacity_clamped :
  bt_collect 100 [(8, mkNode 0 0 12 [] [])] 8 8 8 0 = Ok (map (fun i => (8, i)) (seqN 0 11)).
Proof. exact bt_len_above_capacity_clamped. Qed.

(* for every memory contents: the key / value slices of the B-tree walk are never out of range (since the repair) *)
Theorem C06_btree_no_slice_panic : forall fuel heap ks vs root h,
  bt_collect fuel heap ks vs root h <> Panic SITE_BT_SLICE.
Proof. exact bt_collect_no_slice_panic. Qed.

(* ---- enums ------------------------------------------------------------------------------- *)
(* tag of 1/2/4/8 bytes, signed or unsigned, discriminant constants in any DWARF form: the variant
   whose discriminant equals the tag value, the default variant otherwise.  Hypotheses: the
   discriminants are values of the tag type and pairwise different. *)
Theorem C06_enum_select_exact : forall signed sz vs tag,
  tag_size_ok sz -> variants_in_range signed sz vs ->
  NoDup (map fst (intended_table signed vs)) -> in_tag_range signed sz tag ->
  select_variant (enum_table signed sz vs) (Some (wrap_i64 tag)) = spec_variant (intended_table signed vs) tag.
Proof. exact enum_select_exact. Qed.

(* ... from the bytes of the tag field *)
Theorem C06_enum_decode_exact : forall (signed : bool) sz vs tag rest,
  tag_size_ok sz -> variants_in_range signed sz vs ->
  NoDup (map fst (intended_table signed vs)) -> in_tag_range signed sz tag ->
  enum_decode signed sz vs
    ((if signed then to_le_bytes_s (N.to_nat sz) tag else to_le_bytes_u (N.to_nat sz) (Z.to_N tag)) ++ rest)
  = Ok (spec_variant (intended_table signed vs) tag).
Proof. exact enum_decode_exact. Qed.

(* still open: 16-byte tags *)
Theorem C06_enum_128bit_tag_refuted :
  exists vs bytes, enum_decode false 16 vs bytes = Ok None /\
                   spec_variant (intended_table false vs) 0 = Some 1.
Proof. exact enum_128bit_tag_refuted. Qed.

(* ---- non-vacuity -------------------------------------------------------------------------- *)
(* a 4-bucket table (smaller than a group) with tombstone, and a wrapped-around VecDeque *)
Example C06_example :
  hb_layoutb ([0; 255; 128; 1] ++ repeat 255 12 ++ [0; 255; 128; 1]) 4 = true /\
  hb_collect (hb_fuel 3) ([0; 255; 128; 1] ++ repeat 255 12 ++ [0; 255; 128; 1]) 3 8 = Ok [(-8)%Z; (-32)%Z] /\
  (3 <=? LEN_GUARD) = true /\ vd_validb 3 4 2 1 = true /\
  vecdeque_decode 3 4 2 1 [10; 11; 12; 13] = Ok [(2, [12]); (3, [13]); (0, [10])].
Proof. vm_compute. auto 6. Qed.

(* the checkers on one case each *)
Example C06_checks :
  vd_check (3, 4, 2, 1, [10; 11; 12; 13], [2; 3; 0]) = 0 /\
  hb_check (3, 8, 2, [0; 255; 128; 1] ++ repeat 255 12 ++ [0; 255; 128; 1], [(-8)%Z; (-32)%Z]) = 0 /\
  bt_check ([(100, mkNode 0 0 2 [200;300;400;0;0;0;0;0;0;0;0;0] [20;40;0;0;0;0;0;0;0;0;0]);
             (200, mkNode 100 0 2 [] [1;2;0;0;0;0;0;0;0;0;0]);
             (300, mkNode 100 1 1 [] [30;0;0;0;0;0;0;0;0;0;0]);
             (400, mkNode 100 2 3 [] [50;60;70;0;0;0;0;0;0;0;0])],
            100, 1, 8, 8, [1;2;20;30;40;50;60;70], [1;2;20;30;40;50;60;70]) = 0 /\
  int_check (true, 2, [254; 255], (-2)%Z) = 0 /\
  enum_check (false, 1, [(Some (FData1, 200%Z), 1); (None, 0)], [200], 1, Some 1) = 0 /\
  enum_check (true, 2, [(Some (FData1, 200%Z), 1); (Some (FData2, 65236%Z), 2)], [200; 255], 1, Some 1) = 0 /\
  vec_check (3, 4, repeat 0 12, [0; 1; 2]) = 0.
Proof. vm_compute. auto 9. Qed.
