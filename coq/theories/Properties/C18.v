(* C18 - Code is found wherever it is loaded.  Statements only. *)
From BS Require Import Model.Base.
From BS Require Import Model.Reloc Proofs.RelocProofs.
Open Scope N_scope.

(* find_range never panics / runs out of fuel on a registry sorted by `from` *)
Theorem C18_find_range_total : forall l a, sorted_from l -> exists o, find_range l a = Ok o.
Proof. exact find_range_total. Qed.

(* an address strictly inside a recorded object (from <= a < to) is attributed to it, also
   when the previous object ends exactly there *)
Theorem C18_find_range_partial : forall l a r, wf_ranges l = true ->
  In r l -> r_from r <= a < r_to r -> find_range l a = Ok (Some r).
Proof. exact find_range_partial. Qed.

(* model = specification whenever the address is not the (exclusive) end of an object *)
Theorem C18_find_range_exact_partial : forall l a, wf_ranges l = true -> no_to_at a l = true ->
  find_range l a = Ok (spec_find_range l a).
Proof. exact find_range_exact_partial. Qed.

(* `addr <= range.to`: one byte past an object is still attributed to it *)
Theorem C18_find_range_refuted : exists l a r,
  wf_ranges l = true /\ spec_find_range l a = None /\ find_range l a = Ok (Some r).
Proof. exact find_range_refuted. Qed.

(* Global -> Relocated -> Global is the identity when the relocated address lies in the
   object it was relocated for *)
Theorem C18_roundtrip_partial : forall rg g file a,
  relocate_to_segment rg g file = Ok a -> lands_in_file rg file a = true ->
  into_global rg a = Ok g.
Proof. exact roundtrip_partial. Qed.

(* the offset recorded by update_mappings is the start of the file's lowest mapping ... *)
Theorem C18_update_mappings_offset : forall rg maps rg' es f,
  update_mappings rg false maps = Ok (rg', es) -> In f (reg_files rg) ->
  mapping_get (reg_mappings rg') f = lowest_start maps f.
Proof. exact update_mappings_offset. Qed.

(* ... which is the right load bias for objects linked at 0 (PIE, shared libraries, whether
   loaded at start or by dlopen) ... *)
Theorem C18_relocate_pie_partial : forall rg maps rg' es im g a,
  update_mappings rg false maps = Ok (rg', es) -> In (im_file im) (reg_files rg) ->
  im_min_vaddr im = 0 ->
  relocate_to_segment rg' g (im_file im) = Ok a ->
  spec_runtime_addr maps im g = Some a.
Proof. exact relocate_pie_partial. Qed.

(* ... and wrong by the link base for a non-PIE executable *)
Theorem C18_nonpie_refuted : exists im maps g rg' es,
  update_mappings (mk_registry (im_file im) [im_file im] [] []) false maps = Ok (rg', es) /\
  relocate_to_segment rg' g (im_file im) = Ok 8393014 /\
  spec_runtime_addr maps im g = Some 4198710.
Proof. exact nonpie_refuted. Qed.

(* `sharedlib info` *)
Theorem C18_dump_exact : forall rg maps rg' es,
  update_mappings rg false maps = Ok (rg', es) ->
  map fst (dump rg') = reg_files rg /\
  forall f, In f (reg_files rg) ->
    (range_of_file (reg_ranges rg') f <> None <-> is_mapped maps f = true).
Proof. exact dump_exact. Qed.

Theorem C18_reload_files : forall parse_ok rg libs f,
  In f (reg_files (reload parse_ok rg libs)) <->
  (In f (reg_files rg) /\ (In f libs \/ f = reg_main rg)) \/ (In f libs /\ parse_ok f = true).
Proof. exact reload_files. Qed.

(* deferred breakpoints over r_brk events: installed at the first event that makes them
   installable, removed from the list there, never again *)
Theorem C18_deferred_partial : forall rs idx ds ds' lg,
  forallb is_linker rs = true ->
  run_rounds idx rs ds = (ds', lg) ->
  (forall d, In d ds' <-> In d ds /\ first_ok idx rs d = None) /\
  (forall i d a, In (i, d, a) lg <-> In d ds /\ first_ok idx rs d = Some (i, a)).
Proof. exact deferred_partial. Qed.

Theorem C18_deferred_once : forall rs idx ds ds' lg,
  NoDup ds -> run_rounds idx rs ds = (ds', lg) -> NoDup (map req_of lg).
Proof. exact deferred_once. Qed.

(* a library already present at the entry-point stop (DT_NEEDED) does not activate the
   deferred request *)
Theorem C18_deferred_startup_refuted : exists rg1,
  update_debug_info_registry (fun _ => true) startup_rg [1] startup_maps = Ok rg1 /\
  try_set_breakpoint startup_resolve (fun _ => true) rg1 5 = AInstalled [140737351860544] /\
  run_events startup_resolve (fun _ => true) (fun _ => true) startup_rg
             [(EvEntry, [1], startup_maps)] [5] = Ok ([5], []).
Proof. exact deferred_startup_refuted. Qed.

(* non-vacuity: a PIE main program and a library, an address inside the library *)
Example C18_example :
  let rg := mk_registry 0 [0; 1] [mk_rrange 4096 8192 0; mk_rrange 8192 12288 1] [(0, 4096); (1, 8192)] in
  relocate_to_segment rg 16 1 = Ok 8208 /\ lands_in_file rg 1 8208 = true /\ into_global rg 8208 = Ok 16.
Proof. vm_compute. repeat split; reflexivity. Qed.

Example C18_example_cases :
  reloc_check (mk_reloc_case [mk_rrange 4096 8192 0; mk_rrange 8192 12288 1] [(0, 4096); (1, 8192)] 8192 (Some 8192)) = 0 /\
  reloc_check (mk_reloc_case [mk_rrange 4096 8192 0] [(0, 4096)] 8192 (Some 4096)) = 2 /\
  maps_check (mk_maps_case 0 [0; 1] [mk_pmap (Some 0) 4096 4096; mk_pmap None 8192 4096] [(0, Some (4096, 8192)); (1, None)]) = 0 /\
  relocate_check (mk_relocate_case (mk_image 0 4194304) nonpie_maps 4198710 (Some 8393014)) = 2 /\
  relocate_check (mk_relocate_case (mk_image 0 4194304) nonpie_maps 4198710 (Some 4198710)) = 1.
Proof. vm_compute. repeat split; reflexivity. Qed.

Print Assumptions C18_find_range_partial.
Print Assumptions C18_find_range_exact_partial.
Print Assumptions C18_roundtrip_partial.
Print Assumptions C18_relocate_pie_partial.
Print Assumptions C18_nonpie_refuted.
Print Assumptions C18_dump_exact.
Print Assumptions C18_deferred_partial.
Print Assumptions C18_deferred_once.
Print Assumptions C18_deferred_startup_refuted.
