(* C17 - Names select exactly the functions, files and symbols they denote.
   Only statements, `exact <lemma>`, pins and Print Assumptions live here. *)
From BS Require Import Model.Base Model.PathIndex Model.SymTab Proofs.PathIndexProofs Proofs.SymTabProofs.

(* For every sequence of inserts and every needle text, the index answers with exactly the
   values whose full path ends, component-wise, with the needle's components, in insertion
   order, duplicates kept, and never panics. *)
Theorem C17_index_refines : forall (T : Type) (d : bstr) (es : list (entry T)) (needle : bstr),
  get d (build es) needle = Ok (spec_get es (needle_comps d needle)).
Proof. exact @get_refines. Qed.

(* no partial-component match, nothing invented *)
Theorem C17_no_false_match : forall (T : Type) d (es : list (entry T)) needle r v,
  get d (build es) needle = Ok r -> In v r ->
  exists e, In e es /\ e_val e = v /\ is_suffix (needle_comps d needle) (e_path e).
Proof. exact @get_sound. Qed.

(* no miss *)
Theorem C17_no_miss : forall (T : Type) d (es : list (entry T)) needle e,
  In e es -> needle_comps d needle <> [] -> is_suffix (needle_comps d needle) (e_path e) ->
  exists r, get d (build es) needle = Ok r /\ In (e_val e) r.
Proof. exact @get_complete. Qed.

(* `symbol <regex>`: exactly the names present among the ELF symbols that match, each once *)
Theorem C17_symbol_exact : forall (V : Type) (matches : bstr -> bool) (syms : list (bstr * V)) name,
  In name (map fst (st_find matches (st_collect syms))) <->
  In name (map fst syms) /\ matches name = true.
Proof. exact @st_find_exact. Qed.

Theorem C17_symbol_once : forall (V : Type) (matches : bstr -> bool) (syms : list (bstr * V)),
  NoDup (map fst (st_find matches (st_collect syms))).
Proof. exact @st_find_no_dup. Qed.

(* non-vacuity: a concrete index where two instantiations share a suffix *)
Example C17_example :
  (get [58; 58] (build [([[97]; [98]], [102], 1); ([[99]; [98]], [102], 2); ([[97]], [103], 3)]) [98; 58; 58; 102]
  = Ok [1; 2])%N.
Proof. vm_compute. reflexivity. Qed.

Print Assumptions C17_index_refines.
Print Assumptions C17_no_false_match.
Print Assumptions C17_no_miss.
Print Assumptions C17_symbol_exact.
Print Assumptions C17_symbol_once.
