(* C13 -- DAP breakpoint requests replace, and their options are honoured whenever set.
   Headline statements; proofs are in DapBpProofs.v. *)
From BS Require Import Model.Base.
From BS Require Import Model.DapBp Proofs.DapBpProofs.
Open Scope N_scope.

(* FULL PROPERTY (false of the faithful model, see the *_refuted theorems):
     forall oracles h s rs, run (sess_init n0) h = Ok (s, rs) ->
       (forall x, In x (reg_locs bias (s_dbg s)) <-> In x (expected_locs (spec_run h)))
       /\ every Hit is answered by spec_stop of the owner's options. *)

(* PARTIAL: replace holds when every set-request arrives while the debuggee runs, lines have
   one location and requested breakpoints do not share locations (decidable guard). *)
Theorem C13_replace_partial :
  forall rl rf va wo bias n0 h s rs,
    guard rl rf va bias h = true ->
    run rl rf va wo bias (sess_init n0) h = Ok (s, rs) ->
    forall x, In x (reg_locs bias (s_dbg s)) <-> In x (expected_locs rl rf va bias (spec_run h)).
Proof. exact DapBpProofs.C13_replace_partial. Qed.

Theorem C13_hit_consults_record_partial :
  forall rl rf va wo bias n0 h s rs x,
    guard rl rf va bias h = true ->
    run rl rf va wo bias (sess_init n0) h = Ok (s, rs) ->
    In x (expected_locs rl rf va bias (spec_run h)) ->
    exists s' b, record_hit s (Rel x) = Some (s', b) /\ In (Rel x) (r_addrs b).
Proof. exact DapBpProofs.C13_hit_consults_record_partial. Qed.

Theorem C13_options_record :
  forall id addrs o n cv,
    n + 1 < u64_lim -> (o_cond o = true -> cv <> None) ->
    fst (decide (bump (mk_rec id addrs (o_cond o) (parse_hit_opt (o_hit o)) (o_log o) n)) cv)
    = spec_stop o (n + 1) cv.
Proof. exact DapBpProofs.C13_options_record. Qed.

Theorem C13_verified_source :
  forall rl rf va wo bias s src bps s' l,
    step rl rf va wo bias s (SetSource src bps) = Ok (s', RBps l) ->
    map fst l = map (fun b => nonempty (line_locs rl bias src b)) bps.
Proof. exact DapBpProofs.C13_verified_source. Qed.

Theorem C13_verified_function :
  forall rl rf va wo bias s bps s' l,
    step rl rf va wo bias s (SetFunction bps) = Ok (s', RBps l) ->
    map fst l = map (fun b => nonempty (fn_locs rf bias b)) bps.
Proof. exact DapBpProofs.C13_verified_function. Qed.

Theorem C13_verified_instruction_partial :
  forall rl rf va wo bias s bps s' l,
    d_phase (s_dbg s) = InProgress ->
    step rl rf va wo bias s (SetInstruction bps) = Ok (s', RBps l) ->
    map fst l = map (fun b => nonempty (ins_locs va bias b)) bps.
Proof. exact DapBpProofs.C13_verified_instruction_partial. Qed.

(* REFUTED parts, each with its witness history *)
Theorem C13_phase_refuted :
  let h := [SetSource 1 [(10, no_opts)]; Start; SetSource 1 []] in
  w_exp h = [] /\ w_locs (w_run h) = Some [4196] /\ w_last (w_run h) = Some (RBps []).
Proof. exact DapBpProofs.C13_phase_refuted. Qed.

Theorem C13_phase_options_refuted :
  w_last (w_run [SetSource 1 [(10, o_cond_only)]; Start; Hit 4196 (Some false)]) = Some (RHit true 0)
  /\ spec_stop o_cond_only 1 (Some false) = false
  /\ w_last (w_run [SetSource 1 [(10, o_log_only)]; Start; Hit 4196 (Some true)]) = Some (RHit true 0)
  /\ spec_stop o_log_only 1 (Some true) = false
  /\ w_last (w_run [SetSource 1 [(10, o_hit2)]; Start; Hit 4196 (Some true)]) = Some (RHit true 0)
  /\ spec_stop o_hit2 1 (Some true) = false
  /\ w_last (w_run [Start; SetSource 1 [(10, o_cond_only)]; Hit 4196 (Some false)]) = Some (RHit false 0)
  /\ w_last (w_run [Start; SetSource 1 [(10, o_log_only)]; Hit 4196 (Some true)]) = Some (RHit false 1)
  /\ w_last (w_run [Start; SetSource 1 [(10, o_hit2)]; Hit 4196 (Some true)]) = Some (RHit false 0).
Proof. exact DapBpProofs.C13_phase_options_refuted. Qed.

Theorem C13_multi_location_refuted :
  let h := [Start; SetSource 1 [(20, no_opts)]; SetSource 1 []] in
  w_exp h = [] /\ w_locs (w_run h) = Some [4396]
  /\ w_last (w_run [Start; SetSource 1 [(20, o_log_only)]; Hit 4396 (Some true)]) = Some (RHit true 0).
Proof. exact DapBpProofs.C13_multi_location_refuted. Qed.

Theorem C13_shared_location_refuted :
  let h := [Start; SetSource 1 [(10, no_opts)]; SetFunction [(Some 7, no_opts)]; SetFunction []] in
  w_exp h = [4196] /\ w_locs (w_run h) = Some [].
Proof. exact DapBpProofs.C13_shared_location_refuted. Qed.

Theorem C13_exited_refuted :
  let h := [Start; SetSource 1 [(10, no_opts)]; Exit; SetSource 1 []; Restart] in
  w_exp h = [] /\ w_locs (w_run h) = Some [4196].
Proof. exact DapBpProofs.C13_exited_refuted. Qed.

Theorem C13_instr_verified_refuted :
  let h := [SetInstruction [(Some 5, no_opts)]; Start] in
  w_exp h = [] /\ w_locs (w_run h) = Some []
  /\ w_last (w_run [SetInstruction [(Some 5, no_opts)]]) = Some (RBps [(true, 1)]).
Proof. exact DapBpProofs.C13_instr_verified_refuted. Qed.

(* HitCondition: matches (parse s) n is the arithmetic meaning of s; everything outside the
   syntax is Invalid = always true; parse is total (no error, no panic). *)
Theorem C13_hitcondition :
  forall s n,
    (forall o v, hc_denotes s o v -> hc_matches (hc_parse s) n = op_eval o n v) /\
    ((~ exists o v, hc_denotes s o v) -> hc_matches (hc_parse s) n = true).
Proof. exact DapBpProofs.C13_hitcondition. Qed.

Theorem C13_hitcondition_invalid_iff :
  forall s, (exists raw, hc_parse s = HInvalid raw) <-> ~ exists o v, hc_denotes s o v.
Proof. exact DapBpProofs.C13_hitcondition_invalid_iff. Qed.

(* non-vacuity: a history with every kind of request satisfies the guard *)
Example C13_guard_nonvacuous :
  guard w_rl w_rf w_va w_bias w_good = true /\ w_locs (w_run w_good) = Some [4196; 4216]
  /\ w_exp w_good = [4216; 4196].
Proof. exact DapBpProofs.guard_nonvacuous. Qed.

Print Assumptions C13_replace_partial.
Print Assumptions C13_hit_consults_record_partial.
Print Assumptions C13_options_record.
Print Assumptions C13_verified_source.
Print Assumptions C13_verified_instruction_partial.
Print Assumptions C13_phase_refuted.
Print Assumptions C13_phase_options_refuted.
Print Assumptions C13_multi_location_refuted.
Print Assumptions C13_shared_location_refuted.
Print Assumptions C13_exited_refuted.
Print Assumptions C13_instr_verified_refuted.
Print Assumptions C13_hitcondition.
Print Assumptions C13_hitcondition_invalid_iff.
