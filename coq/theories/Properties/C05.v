(* C05 - The backtrace is the real call stack.  Statements only. *)
From BS Require Import Model.Base Gen.Unwind Model.Unwind Gen.Regs Model.Regs Spec.X86Dwarf
                       Proofs.UnwindProofs Proofs.RegsProofs.
Open Scope N_scope.

(* The CFI (gimli + compiler) enters as the functions step / ra / set_sp.  With the guard the
   source has now (read by the translator) the backtrace is the complete chain of return
   addresses, innermost first, for any depth below the cap, as long as no (return address,
   CFA) pair repeats - and CFAs strictly increase towards the callers, recursion included. *)
Theorem C05_unwind_complete :
  forall (R : Type) (step : R -> N -> option (N * R)) (ra : R -> option N) (set_sp : R -> N -> R) pc0 regs0 ucx,
  UNWIND_GUARD = GuardIpCfa ->
  step regs0 pc0 = Some ucx ->
  NoDup (chain step ra set_sp (MAX_UNWIND_DEPTH - 1) ucx) ->
  unwind step ra set_sp pc0 regs0 = pc0 :: map fst (listed step ra set_sp (MAX_UNWIND_DEPTH - 1) ucx).
Proof.
  intros R step ra set_sp pc0 regs0 ucx Hg. unfold unwind. rewrite Hg.
  exact (unwind_ipcfa_complete step ra set_sp pc0 regs0 ucx).
Qed.

Theorem C05_guard_is_ip_cfa : UNWIND_GUARD = GuardIpCfa.
Proof. reflexivity. Qed.

Theorem C05_increasing_cfa_nodup : forall (l : list (N * N)),
  (forall i j a b, (i < j)%nat -> nth_error l i = Some a -> nth_error l j = Some b -> snd a < snd b) ->
  NoDup l.
Proof. exact increasing_cfa_nodup. Qed.

(* what the return-address-only guard did (the implementation before the repair): complete
   only without recursion ... *)
Theorem C05_unwind_ip_guard_partial :
  forall (R : Type) (step : R -> N -> option (N * R)) (ra : R -> option N) (set_sp : R -> N -> R) pc0 regs0 ucx,
  step regs0 pc0 = Some ucx ->
  NoDup (pc0 :: map fst (chain step ra set_sp (MAX_UNWIND_DEPTH - 1) ucx)) ->
  unwind_with step ra set_sp GuardIp pc0 regs0 = pc0 :: map fst (listed step ra set_sp (MAX_UNWIND_DEPTH - 1) ucx).
Proof. exact @unwind_ip_partial. Qed.
(* ... and truncating under recursion *)
Theorem C05_unwind_ip_guard_refuted :
  unwind_tbl GuardIp rec_stack = [10; 20] /\ unwind_tbl GuardIpCfa rec_stack = map fst rec_stack.
Proof. exact unwind_ip_guard_refuted. Qed.

(* for the frame walk the harness hands to the model (table instance) *)
Theorem C05_unwind_tbl_complete : forall (t : tbl),
  (forall i j a b, (i < j)%nat -> nth_error t i = Some a -> nth_error t j = Some b -> snd a < snd b) ->
  unwind_tbl GuardIpCfa t = firstn MAX_UNWIND_DEPTH (map fst t).
Proof. exact unwind_tbl_complete. Qed.

(* Selecting frame k: the registers used for reads are those of that activation *)
Theorem C05_frame_select :
  forall (R : Type) (step : R -> N -> option (N * R)) (ra : R -> option N) (set_sp : R -> N -> R) pc0 regs0 k,
  regs_at_frame step ra set_sp pc0 regs0 k = frame_regs step ra set_sp k pc0 regs0.
Proof.
  intros. apply regs_at_frame_is_frame_regs; reflexivity.
Qed.
Theorem C05_frame_select_old_refuted :
  let t := rec_stack in
  regs_at_frame_gen (t_step t) (t_ra t) t_set_sp 0 false 10 O 1 = Some 2%nat /\
  frame_regs (t_step t) (t_ra t) t_set_sp 1 10 O = Some 1%nat.
Proof. exact regs_at_frame_old_refuted. Qed.

(* the outermost frame ends the walk *)
Theorem C05_ra_undefined_stops : RA_UNDEFINED_STOPS = true.
Proof. reflexivity. Qed.

(* register tables: machine register <-> DWARF number *)
Theorem C05_regmap_abi : forall r, dwarf_of_reg r = abi_dwarf r.
Proof. exact dwarf_numbers_are_abi. Qed.
Theorem C05_regmap_placement :
  forall u0 u1 u2 u3 u4 u5 u6 u7 u8 u9 u10 u11 u12 u13 u14 u15 u16 u17 u18 u19 u20 u21 u22 u23 u24 u25 u26 r d,
  let m := [u0; u1; u2; u3; u4; u5; u6; u7; u8; u9; u10; u11; u12; u13; u14; u15; u16; u17; u18; u19; u20; u21; u22; u23; u24; u25; u26] in
  dwarf_of_reg r = Some d -> dm_value (dwarf_map_of m) d = Some (rm_value m r).
Proof. exact dwarf_map_correct. Qed.
Theorem C05_regmap_inverse : forall r d,
  dwarf_of_reg r = Some d -> r <> R_Rip -> reg_of_dwarf (Z.of_N d) = Some r.
Proof. exact reg_of_dwarf_inverse. Qed.
Theorem C05_regmap_total_refuted : exists r d, dwarf_of_reg r = Some d /\ reg_of_dwarf (Z.of_N d) = None.
Proof. exact reg_of_dwarf_total_refuted. Qed.
