(* C15 - Memory and register access is exact.  Statements only. *)
From BS Require Import Model.Base Model.Mem Gen.Regs Model.Regs Spec.X86Dwarf Proofs.MemProofs Proofs.RegsProofs.
Open Scope N_scope.

(* A read returns exactly the bytes the process holds when all requested bytes are mapped,
   and an error otherwise - at any alignment and length, across word and page boundaries
   (memory mappings are page-, hence word-granular). *)
Theorem C15_read_exact : forall m a n,
  word_granular m -> n < 2 ^ 63 -> a + n <= 2 ^ 64 ->
  read_memory m a n = match spec_read m a n with Some bs => Ok bs | None => Err EIO end.
Proof. exact read_memory_exact. Qed.

(* what was wrong before the repair: the unaligned word loop rejects a fully mapped request *)
Theorem C15_read_unaligned_refuted :
  exists m a n, word_granular m /\ spec_read m a n <> None /\ read_memory_unaligned m a n = Err EIO.
Proof. exact read_memory_unaligned_refuted. Qed.

(* A write of n bytes at a changes exactly [a, a+n) and nothing else. *)
Theorem C15_write_exact : forall m a bytes,
  word_granular m -> a + N.of_nat (length bytes) < 2 ^ 64 ->
  all_mapped m a (length bytes) = true ->
  exists m', write_bytes m a bytes = Ok m' /\ forall x, m' x = spec_write m a bytes x.
Proof. exact write_bytes_exact. Qed.

Theorem C15_write_unmapped_fails : forall m a bytes,
  word_granular m -> a + N.of_nat (length bytes) < 2 ^ 64 ->
  all_mapped m a (length bytes) = false ->
  write_bytes m a bytes = Err EIO.
Proof. exact write_bytes_unmapped. Qed.

(* A register write is what a subsequent read returns, and no other register changes. *)
Theorem C15_reg_roundtrip : forall m r v, length m = n_fields -> rm_value (rm_update m r v) r = v.
Proof. exact reg_update_value. Qed.
Theorem C15_reg_frame : forall m r r' v, r <> r' -> rm_value (rm_update m r v) r' = rm_value m r'.
Proof. exact reg_update_frame. Qed.

(* what GETREGS delivers is what SETREGS writes back *)
Theorem C15_user_regs_roundtrip :
  forall u0 u1 u2 u3 u4 u5 u6 u7 u8 u9 u10 u11 u12 u13 u14 u15 u16 u17 u18 u19 u20 u21 u22 u23 u24 u25 u26,
  let u := [u0; u1; u2; u3; u4; u5; u6; u7; u8; u9; u10; u11; u12; u13; u14; u15; u16; u17; u18; u19; u20; u21; u22; u23; u24; u25; u26] in
  rm_to_user (rm_from_user u) = u.
Proof. exact user_roundtrip. Qed.

Example C15_example_write_across_words :
  let m := mem_of_window 0 (map Some [1;2;3;4;5;6;7;8;9;10;11;12;13;14;15;16;17;18;19;20;21;22;23;24]) in
  match write_bytes m 6 [100; 101; 102; 103] with
  | Ok m' => window_eqb m' 0 (map Some [1;2;3;4;5;6;100;101;102;103;11;12;13;14;15;16;17;18;19;20;21;22;23;24])
  | _ => false end = true.
Proof. vm_compute. reflexivity. Qed.
