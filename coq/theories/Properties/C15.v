(* C15 - Memory and register access is exact.  Statements only. *)
From BS Require Import Model.Base Model.Mem Gen.Regs Model.Regs Spec.X86Dwarf Proofs.MemProofs Proofs.RegsProofs.
From BS Require Import Gen.Disasm Model.Disasm Proofs.DisasmProofs.
Open Scope N_scope.

(* A read returns exactly the bytes the process holds when all requested bytes are mapped,
   and an error otherwise - at any alignment and length, across word and page boundaries
   (memory mappings are page-, hence word-granular). *)
Theorem C15_read_exact : forall m a n,
  word_granular m -> n < 2 ^ 63 -> a + n <= 2 ^ 64 ->
  read_memory m a n = match spec_read m a n with Some bs => Ok bs | None => Err EIO end.
Proof. exact read_memory_exact. Qed.

(* what was wrong before the repair: the unaligned word loop rejects a fully mapped request *)
Theorem C15_read_unaligned_refuted :
  exists m a n, word_granular m /\ spec_read m a n <> None /\ read_memory_unaligned m a n = Err EIO.
Proof. exact read_memory_unaligned_refuted. Qed.

(* A write of n bytes at a changes exactly [a, a+n) and nothing else. *)
Theorem C15_write_exact : forall m a bytes,
  word_granular m -> a + N.of_nat (length bytes) < 2 ^ 64 ->
  all_mapped m a (length bytes) = true ->
  exists m', write_bytes m a bytes = Ok m' /\ forall x, m' x = spec_write m a bytes x.
Proof. exact write_bytes_exact. Qed.

Theorem C15_write_unmapped_fails : forall m a bytes,
  word_granular m -> a + N.of_nat (length bytes) < 2 ^ 64 ->
  all_mapped m a (length bytes) = false ->
  write_bytes m a bytes = Err EIO.
Proof. exact write_bytes_unmapped. Qed.

(* A register write is what a subsequent read returns, and no other register changes. *)
Theorem C15_reg_roundtrip : forall m r v, length m = n_fields -> rm_value (rm_update m r v) r = v.
Proof. exact reg_update_value. Qed.
Theorem C15_reg_frame : forall m r r' v, r <> r' -> rm_value (rm_update m r v) r' = rm_value m r'.
Proof. exact reg_update_frame. Qed.

(* what GETREGS delivers is what SETREGS writes back *)
Theorem C15_user_regs_roundtrip :
  forall u0 u1 u2 u3 u4 u5 u6 u7 u8 u9 u10 u11 u12 u13 u14 u15 u16 u17 u18 u19 u20 u21 u22 u23 u24 u25 u26,
  let u := [u0; u1; u2; u3; u4; u5; u6; u7; u8; u9; u10; u11; u12; u13; u14; u15; u16; u17; u18; u19; u20; u21; u22; u23; u24; u25; u26] in
  rm_to_user (rm_from_user u) = u.
Proof. exact user_roundtrip. Qed.

Example C15_example_write_across_words :
  let m := mem_of_window 0 (map Some [1;2;3;4;5;6;7;8;9;10;11;12;13;14;15;16;17;18;19;20;21;22;23;24]) in
  match write_bytes m 6 [100; 101; 102; 103] with
  | Ok m' => window_eqb m' 0 (map Some [1;2;3;4;5;6;100;101;102;103;11;12;13;14;15;16;17;18;19;20;21;22;23;24])
  | _ => false end = true.
Proof. vm_compute. reflexivity. Qed.

(* ---- Disassembly shows original instructions, not the debugger's patches ----
   Memory holds the image with a trap byte at every address of [addrs]; the registry lists at least every patched
   address of the window, each with the image byte as saved byte (C01/C02's invariant mem_is_patch).  Then the text
   that Disassembler::disasm_function hands to the decoder is the image, for any function size and any number of
   breakpoints, wherever they lie (inside, at the start, at or behind the end) ... *)
Theorem C15_disasm_original : forall s image addrs bps,
  (forall a sv, In (a, sv) bps -> s <= a -> a < s + N.of_nat (length image) -> sv = nth (N.to_nat (a - s)) image 0) ->
  (forall a, In a addrs -> s <= a -> a < s + N.of_nat (length image) -> exists sv, In (a, sv) bps) ->
  mask_fn_text s (s + N.of_nat (length image)) (patched s image addrs) bps = Ok image.
Proof. exact disasm_original. Qed.

(* ... and the unchecked index `text[a - s]` never leaves the buffer, whatever the breakpoint table holds
   (stated over the filter closure as regenerated from the source: Gen.Disasm.bp_in_text). *)
Theorem C15_disasm_no_panic : forall s e text bps,
  s <= e -> length text = N.to_nat (e - s) -> exists t', mask_fn_text s e text bps = Ok t' /\ length t' = length text.
Proof. exact disasm_no_panic. Qed.

(* before fix c4e56bb the filter was `start <= a <= end`: a breakpoint on the first address behind the function
   (the entry of the next function when no padding separates them) indexed one past the buffer *)
Theorem C15_disasm_end_panic_refuted_old :
  mask_fn_text_with bp_in_text_old 16 17 [INT3_BYTE] [(17, 85)] = Panic 15.
Proof. exact disasm_end_panic_old. Qed.

(* The DAP `disassemble` helpers read code through Debugger::read_original_code (both call sites, regenerated flag) ... *)
Theorem C15_dap_disasm_reads_original_now : DAP_DISASM_READS_ORIGINAL = true.
Proof. exact dap_reads_original_now. Qed.

(* ... which returns the image for any window, any set of enabled breakpoints (disabled ones are skipped: their saved
   byte is not trusted), and never indexes outside the bytes it read *)
Theorem C15_dap_disasm_original : forall addr image addrs bps,
  (forall a sv, In (a, sv, true) bps -> addr <= a -> a - addr < N.of_nat (length image) -> sv = nth (N.to_nat (a - addr)) image 0) ->
  (forall a, In a addrs -> addr <= a -> a - addr < N.of_nat (length image) -> exists sv, In (a, sv, true) bps) ->
  dap_disasm_text DAP_DISASM_READS_ORIGINAL addr (patched addr image addrs) bps = Ok image.
Proof. exact dap_disasm_original. Qed.

Theorem C15_read_original_no_panic : forall addr bytes bps,
  exists t', orig_code addr bytes bps = Ok t' /\ length t' = length bytes.
Proof. exact read_original_no_panic. Qed.

(* before fix 7fbf91e the helpers decoded raw memory: an instruction carrying a breakpoint was shown as int3 *)
Theorem C15_dap_disasm_raw_refuted_old :
  exists addr image addrs bps t,
    dap_disasm_text false addr (patched addr image addrs) bps = Ok t /\ t <> image.
Proof. exact dap_disasm_raw_old. Qed.

Example C15_example_disasm :
  mask_fn_text 4096 (4096 + 3) (patched 4096 [85; 72; 137] [4096; 4098; 4099]) [(4098, 137); (4096, 85); (4099, 0); (5000, 7)]
  = Ok [85; 72; 137].
Proof. exact disasm_original_example. Qed.
