(* C09 - All-stop and exactly-once reporting hold for every thread interleaving.
   Statements only; proofs are in TracerProofs.v. *)
From BS Require Import Model.Base.
From BS Require Import Model.Tracer Proofs.TracerProofs.
Open Scope N_scope.

(* All-stop, any schedule of the kernel model, any number of threads, any breakpoint table:
   Tracer::resume keeps the coupling invariant (a thread that runs is one the tracer has marked
   Running; no thread id twice in the table; the group-stop latch is open) and when it reports a
   breakpoint, a watchpoint or a non-quiet signal every thread in the tracer's table is marked
   stopped and no thread of the debuggee - registered or not - is running. *)
Theorem C09_all_stop : forall f bps t w t' w' sr, ktinv t w ->
  k_resume f bps t w = Ok (t', w', sr) ->
  ktinv t' w' /\ (real_stop (Some sr) = true -> allstopped t' /\ all_stopped_k (fst w')).
Proof. exact all_stop_resume. Qed.

(* ... and stays stopped: a kernel step never starts a thread that is not running *)
Theorem C09_stays_stopped : forall k c x, krunning (kenv k c) x = true -> krunning k x = true.
Proof. exact kenv_mono. Qed.

(* Tracer::single_step of a stopped thread keeps the invariant and leaves everybody stopped *)
Theorem C09_all_stop_single_step : forall f bps t w pid t' w' r, ktinv t w -> is_stopped (st_of t pid) = true ->
  k_sstep f bps t w pid = Ok (t', w', r) ->
  ktinv t' w' /\ (allstopped t -> allstopped t' /\ all_stopped_k (fst w')).
Proof. exact all_stop_single_step. Qed.

(* any number of consecutive resume calls from any state satisfying the invariant *)
Theorem C09_all_stop_runs : forall n f bps t w t' w' srs, ktinv t w ->
  k_resume_run f bps t w n = Ok (t', w', srs) ->
  ktinv t' w' /\ (forall sr, last srs SRStart = sr -> real_stop (Some sr) = true -> all_stopped_k (fst w')).
Proof. exact TracerProofs.C09_all_stop_runs. Qed.

Theorem C09_invariant_initially : forall threads sch, NoDup (map fst threads) -> ktinv (tinit threads) (kinit threads [] [], sch).
Proof. exact ktinv_init. Qed.

(* REFUTED: with a temporary breakpoint in the table (step over / step out in progress) the
   arrival of another thread at a user breakpoint is stepped over and never reported *)
Theorem C09_arrival_swallowed_refuted :
  exists d k sch srs, w_swallow = Ok (d, (k, sch), srs)
    /\ srs = [Some (SRBreakpoint 1 15)]
    /\ In (2, 22) (k_arrivals k) /\ In (2, 22) (k_exec k)
    /\ spec_exactly_once [22] srs k = false.
Proof. exact TracerProofs.C09_arrival_swallowed_refuted. Qed.

(* non-vacuity: two threads trap on the same breakpoint at the same time; the second hit is
   absorbed by the group stop, rewound and reported by the next continue; all three specs hold *)
Example C09_nonvacuous :
  let r := k_api_run 80 [mk_bp 22 BUser 1 true] (mkD (tinit [(1, 20); (2, 20)]) 1 20)
    (kinit [(1, 20); (2, 20)] [22] [], [CRun 2; CRun 2; CRun 1; CRun 1; CRun 2; CRun 1; CRun 2; CIntr 1; CRun 1]) [OCont; OCont] in
  match r with
  | Ok (d, (k, _), srs) =>
      srs = [Some (SRBreakpoint 2 22); Some (SRBreakpoint 1 22)]
      /\ k_arrivals k = [(2, 22); (1, 22); (1, 22)]
      /\ spec_exactly_once [22] srs k = true /\ spec_no_skip k = true /\ spec_all_stop (d_tr d) k = true
  | _ => False end.
Proof. exact C09_absorbed_hit_reported_later. Qed.

Print Assumptions C09_all_stop.
Print Assumptions C09_all_stop_runs.
Print Assumptions C09_all_stop_single_step.
Print Assumptions C09_arrival_swallowed_refuted.
