(* C14 - Debug registers always encode exactly the active watchpoints.
   Statements only; proofs are in Proofs/DrProofs.v and Proofs/WpProofs.v. *)
From BS Require Import Model.Base Gen.Dr Model.Dr Model.Wp Spec.DrArch Proofs.DrProofs Proofs.WpProofs.
Open Scope N_scope.

(* Over any sequence of add (address / expression) / remove (number / address) / thread
   creation / thread exit commands, every thread's DR0-3/DR7, decoded the way the CPU decodes
   them, is slot by slot exactly the registry's active set: no stale enable bit, none
   missing; threads created later included. *)
Theorem C14_invariant : forall ops m t h r,
  Forall valid_op ops -> In (t, h) (threads (wrun ops (st_init m))) -> valid_r r ->
  arch_slot (h_regs h) (h_dr7 h) r = active_hwbp (wrun ops (st_init m)) r.
Proof. exact every_thread_decodes_to_active_set. Qed.

(* at most four, each in its own register *)
Theorem C14_at_most_four : forall ops m,
  Forall valid_op ops -> (length (regs_of (wps (wrun ops (st_init m)))) <= 4)%nat.
Proof. exact at_most_four. Qed.

(* the encodings read from the source are the architecture's (length and access type) *)
Theorem C14_encodings : 
  len_dec SIZE_Bytes1 = 1 /\ len_dec SIZE_Bytes2 = 2 /\ len_dec SIZE_Bytes4 = 4 /\ len_dec SIZE_Bytes8 = 8 /\
  acc_dec COND_DataWrites = Write /\ acc_dec COND_DataReadsWrites = ReadWrite /\
  size_of_len 1 = Some SIZE_Bytes1 /\ size_of_len 2 = Some SIZE_Bytes2 /\
  size_of_len 4 = Some SIZE_Bytes4 /\ size_of_len 8 = Some SIZE_Bytes8.
Proof. exact encodings_are_arch. Qed.

(* a fifth watchpoint and a second one on the same address are refused, state unchanged *)
Theorem C14_fifth_refused : forall s a sz c,
  free_register (h_dr7 (main_hw s)) = None ->
  wstep s (WAddAddr a sz c) = (s, 11) \/ wstep s (WAddAddr a sz c) = (s, 12).
Proof. exact fifth_addr_refused. Qed.

Theorem C14_same_address_refused : forall s a sz c,
  already_observed s a = true ->
  wstep s (WAddAddr a sz c) = (s, 12) /\ forall e, wstep s (WAddExpr a sz c e) = (s, 12).
Proof. exact same_address_refused. Qed.

Theorem C14_refused_expr_no_side_effects : forall s a sz c e code,
  wstep s (WAddExpr a sz c e) = (fst (wstep s (WAddExpr a sz c e)), code) -> code <> 0 ->
  let s' := fst (wstep s (WAddExpr a sz c e)) in
  threads s' = threads s /\ wps s' = wps s /\ last_seen s' = last_seen s /\ wp_counter s' = wp_counter s.
Proof. exact refused_expr_no_side_effects. Qed.

(* freed slots are reusable *)
Theorem C14_slot_reuse : forall s a sz c r,
  free_register (h_dr7 (main_hw s)) = Some r -> already_observed s a = false ->
  snd (wstep s (WAddAddr a sz c)) = 0.
Proof. exact slot_available_accepts. Qed.

(* DR6: the lowest set trap flag is reported and only it is cleared *)
Theorem C14_detect_and_flush : forall d6, d6 < 2 ^ 64 ->
  match detect_and_flush d6 with
  | (Some i, d6') => N.testbit d6 i = true /\ (forall j, j < i -> N.testbit d6 j = false) /\ i < 4
                     /\ forall k, N.testbit d6' k = N.testbit d6 k && negb (k =? i)
  | (None, d6') => d6' = d6 /\ forall j, j < 4 -> N.testbit d6 j = false
  end.
Proof. exact detect_and_flush_spec. Qed.

(* non-vacuity: a history with removal, slot reuse and a late thread *)
Example C14_example :
  let s := wrun [WAddAddr 4096 SIZE_Bytes8 COND_DataWrites; WAddAddr 4104 SIZE_Bytes4 COND_DataReadsWrites;
                 WRemoveNum 1; WNewThread 7; WAddAddr 4110 SIZE_Bytes2 COND_DataWrites] (st_init 5) in
  map (fun th => arch_decode (h_regs (snd th)) (h_dr7 (snd th))) (threads s)
  = [ [Some {| hb_addr := 4110; hb_len := 2; hb_access := Write |}; Some {| hb_addr := 4104; hb_len := 4; hb_access := ReadWrite |}; None; None];
      [Some {| hb_addr := 4110; hb_len := 2; hb_access := Write |}; Some {| hb_addr := 4104; hb_len := 4; hb_access := ReadWrite |}; None; None] ].
Proof. vm_compute. reflexivity. Qed.
