(* C15, clause "disassembly shows original instructions, not the debugger's patches".

   Model of the two places where BugStalker prepares code bytes for the disassembler:
   - Disassembler::disasm_function (src/debugger/debugee/disasm.rs): text = memory [s, e); for every active
     breakpoint selected by the filter closure (generated: Gen.Disasm.bp_in_text) text[a - s] := saved byte.
     The index is unchecked in the source: an index >= text.len() is a Rust panic.
   - Debugger::read_original_code (src/debugger/mod.rs), used by the DAP `disassemble` helpers: bytes[a - addr] :=
     saved byte under the generated guard Gen.Disasm.orig_in_range.
   No proofs in this file. *)
From BS Require Import Model.Base Gen.Disasm.
Open Scope N_scope.

Definition INT3_BYTE : N := 204.

(* l[i] := x, total (out of range: unchanged) *)
Fixpoint upd (i : nat) (x : N) (l : list N) : list N :=
  match l, i with
  | [], _ => []
  | _ :: t, O => x :: t
  | h :: t, S j => h :: upd j x t
  end.

(* `text[i] = x` in Rust: panics when i is out of range *)
Definition set_byte (i : nat) (x : N) (l : list N) : res (list N) :=
  if Nat.ltb i (length l) then Ok (upd i x l) else Panic 15.

(* masking loop with the selection predicate as a parameter: breakpoints are (address, saved byte) *)
Definition mask_step (sel : N -> bool) (base : N) (acc : res (list N)) (bp : N * N) : res (list N) :=
  match acc with
  | Ok t => if sel (fst bp) then set_byte (N.to_nat (fst bp - base)) (snd bp) t else Ok t
  | other => other
  end.
Definition mask_with (sel : N -> bool) (base : N) (text : list N) (bps : list (N * N)) : res (list N) :=
  fold_left (mask_step sel base) bps (Ok text).

(* disasm_function with an explicit filter (used to state what the filter before fix c4e56bb did) *)
Definition mask_fn_text_with (inr : N -> N -> N -> bool) (s e : N) (text : list N) (bps : list (N * N)) : res (list N) :=
  mask_with (fun a => inr a s e) s text bps.
(* disasm_function as the source has it now *)
Definition mask_fn_text := mask_fn_text_with bp_in_text.
Definition bp_in_text_old (a s e : N) : bool := (s <=? a) && (a <=? e).

(* read_original_code: breakpoints are (address, saved byte, enabled) *)
Definition orig_code (addr : N) (bytes : list N) (bps : list (N * N * bool)) : res (list N) :=
  fold_left (fun acc bp =>
               match acc with
               | Ok t => let '(a, sv, en) := bp in
                         if orig_in_range en a addr (N.of_nat (length t))
                         then set_byte (N.to_nat (a - addr)) sv t else Ok t
               | other => other
               end) bps (Ok bytes).

(* what the DAP disassemble helpers hand to the decoder *)
Definition dap_disasm_text (reads_original : bool) (addr : N) (bytes : list N) (bps : list (N * N * bool)) : res (list N) :=
  if reads_original then orig_code addr bytes bps else Ok bytes.

(* ---- spec side: memory = image with a trap byte at every enabled breakpoint inside the window ---- *)
Definition patch_one (base : N) (t : list N) (a : N) : list N :=
  if (base <=? a) && (a - base <? N.of_nat (length t)) then upd (N.to_nat (a - base)) INT3_BYTE t else t.
Definition patched (base : N) (image : list N) (addrs : list N) : list N := fold_left (patch_one base) addrs image.

(* ---- correspondence cases (harness/src/leg_c15d.rs) ---- *)
Inductive disasm_case :=
| DLib (lo : N) (image mem : list N) (patched_at : list N) (outcome : N)
    (* outcome of Debugger::disasm(): 0 = instruction list of the image, 1 = another list, 2 = Err, 3 = panic *)
| DDap (lo : N) (image : list N) (patched_at : list N) (succ : bool) (bytes : list N) (text_ok : bool).
    (* DAP disassemble at lo: concatenated instructionBytes, and whether the instruction texts are those of the image *)

Definition saved_of (lo : N) (image : list N) (a : N) : N := nth (N.to_nat (a - lo)) image 0.

Definition disasm_check (c : disasm_case) : N :=
  match c with
  | DLib lo image mem patched_at outcome =>
      let e := lo + N.of_nat (length image) in
      let bps := map (fun a => (a, saved_of lo image a)) patched_at in
      let r := mask_fn_text lo e mem bps in
      let model_ok :=
        match r with
        | Ok t => if list_eqb N.eqb t image then outcome =? 0 else outcome =? 1
        | Panic _ => outcome =? 3
        | _ => false
        end in
      verdict model_ok (outcome =? 0)
  | DDap lo image patched_at succ bytes text_ok =>
      let mem := patched lo image patched_at in
      let bps := map (fun a => (a, saved_of lo image a, true)) patched_at in
      let n := length bytes in
      let model_ok :=
        match dap_disasm_text DAP_DISASM_READS_ORIGINAL lo mem bps with
        | Ok t => succ && list_eqb N.eqb bytes (firstn n t)
        | _ => negb succ
        end in
      let spec_ok := succ && text_ok && negb (Nat.eqb n 0) && list_eqb N.eqb bytes (firstn n image) in
      verdict model_ok spec_ok
  end.
