(* C04 - Address <-> source look-ups of BugStalker (line rows, function ranges).

   Model of
     src/debugger/debugee/dwarf/unit/mod.rs    (LineRow, BsUnit::find_place_by_idx / find_place_by_pc /
                                                find_exact_place_by_pc, PlaceDescriptor::next)
     src/debugger/debugee/dwarf/mod.rs         (find_unit_by_pc, find_place_from_pc, find_exact_place_from_pc,
                                                find_function_by_pc, find_closest_place)
     src/debugger/debugee/dwarf/unit/die_ref.rs(start_instruction, end_instruction, prolog_start_place,
                                                prolog_end_place)
     core::slice::binary_search_by             (Rust 1.89, library/core/src/slice/mod.rs:2971)

   State of /repo: HEAD 9f6d836 (after the repairs 5a7aaa1, e485ae3, 0bd2878, 6aa083d).

   The input of the model is what the parser leaves in memory: `BsUnit.lines` AFTER
   `lines.sort_by_key(|x| x.address)` (parser.rs:61, a STABLE sort since e485ae3: rows of equal
   address keep their line-program order; [stable_sort] below is that sort), `BsUnit.ranges` AFTER
   `ranges.sort_unstable_by_key(|r| r.begin)` (parser.rs:67) and `fn_ranges` AFTER
   `fn_ranges.sort_unstable_by_key(|dr| dr.range.begin)` (parser.rs:293).  For the two unstable
   sorts the order of equal keys is not determined by the code; it is part of the input here.

   No proofs in this file. *)
From BS Require Import Model.Base.

Local Open Scope N_scope.

(* ------------------------------------------------------------------------------------------ *)
(* Data                                                                                      *)
(* ------------------------------------------------------------------------------------------ *)

(* unit/mod.rs:35 LineRow; the four flag bits are four booleans *)
Record row := R {
  r_addr : N;      (* address *)
  r_file : N;      (* file_index *)
  r_line : N;      (* line (0 = none) *)
  r_col  : N;      (* column (0 = left edge) *)
  r_stmt : bool;   (* IS_STMT *)
  r_pe   : bool;   (* PROLOG_END *)
  r_eb   : bool;   (* EPILOG_BEGIN *)
  r_es   : bool    (* END_SEQUENCE *)
}.

Definition row_eqb (a b : row) : bool :=
  (r_addr a =? r_addr b) && (r_file a =? r_file b) && (r_line a =? r_line b) && (r_col a =? r_col b)
  && Bool.eqb (r_stmt a) (r_stmt b) && Bool.eqb (r_pe a) (r_pe b)
  && Bool.eqb (r_eb a) (r_eb b) && Bool.eqb (r_es a) (r_es b).

(* Notations, not Definitions: lia/congruence must see one [length] atom *)
Notation range := (N * N)%type (only parsing).     (* gimli::Range { begin, end } *)
Notation die_range := (N * N * N)%type (only parsing). (* DieRange: (range.begin, range.end, die_off) *)
Definition dr_begin (d : die_range) : N := fst (fst d).
Definition dr_end (d : die_range) : N := snd (fst d).
Definition dr_off (d : die_range) : N := snd d.

(* FunctionInfo (only the field find_closest_place looks at) + the ranges of the DIE
   (`Die::ranges()`, what `FatDieRef::<Function>::ranges()` returns) *)
Record fn_info := F {
  f_off : N;                  (* UnitOffset of the subprogram DIE *)
  f_name : option bstr;       (* FunctionInfo.name *)
  f_ranges : list range       (* die.ranges(), DIE order *)
}.

(* BsUnit, the parts the look-ups read *)
Record unit := U {
  u_ranges : list range;           (* BsUnit.ranges, sorted by begin *)
  u_nfiles : N;                    (* BsUnit.files.len() *)
  u_rows : list row;               (* BsUnit.lines, sorted by address *)
  u_die_ranges : list die_range;   (* UnitLazyPart.fn_ranges, sorted by begin *)
  u_fns : list fn_info             (* UnitLazyPart.function_index (a HashMap keyed by die offset) *)
}.

(* a PlaceDescriptor is identified by (pos_in_unit, row); every other field is a copy of the row *)
Notation place := (nat * row)%type (only parsing).

(* ------------------------------------------------------------------------------------------ *)
(* core::slice::binary_search_by_key, Rust 1.89                                               *)
(* ------------------------------------------------------------------------------------------ *)

Inductive bsr := Found (i : nat) | NotFound (i : nat).   (* Result<usize, usize> *)

(* the `while size > 1` loop.  [fuel] only makes the recursion structural; ProofsLineTable shows
   that [length keys] is always enough and that [get_unchecked(mid)] is in range ([Panic 1] is
   unreachable).  `cmp == Greater` for key [k] means [pc < k]. *)
Fixpoint bs_loop (fuel : nat) (keys : list N) (pc : N) (base size : nat) : res nat :=
  if (size <=? 1)%nat then Ok base else
  match fuel with
  | O => OutOfFuel
  | S fuel' =>
      let half := (size / 2)%nat in
      let mid := (base + half)%nat in
      match nth_error keys mid with
      | None => Panic 1
      | Some k => bs_loop fuel' keys pc (if pc <? k then base else mid) (size - half)%nat
      end
  end.

Definition bsearch (keys : list N) (pc : N) : res bsr :=
  match keys with
  | [] => Ok (NotFound 0)
  | _ =>
      base <- bs_loop (length keys) keys pc 0%nat (length keys) ;;
      match nth_error keys base with
      | None => Panic 1
      | Some k =>
          if k =? pc then Ok (Found base)
          else let inc := if k <? pc then 1%nat else 0%nat in Ok (NotFound (base + inc)%nat)
      end
  end.

(* ------------------------------------------------------------------------------------------ *)
(* unit/mod.rs : look-ups in one unit                                                         *)
(* ------------------------------------------------------------------------------------------ *)

(* `From<(&BsUnit, usize, &LineRow)> for PlaceDescriptor` (unit/mod.rs:103):
   `unit.files.get(file_index).expect("file should exists")` -> [Panic 2] *)
Definition mk_place (u : unit) (i : nat) (r : row) : res place :=
  if r_file r <? u_nfiles u then Ok (i, r) else Panic 2.

(* unit/mod.rs:421 find_place_by_idx *)
Definition find_place_by_idx (u : unit) (i : nat) : res (option place) :=
  match nth_error (u_rows u) i with
  | None => Ok None
  | Some r => p <- mk_place u i r ;; Ok (Some p)
  end.

(* `.binary_search_by_key(&pc, |line| line.address).unwrap_or_else(|p| p.saturating_sub(1))`
   (find_place_by_pc unit/mod.rs:448, find_eb :475) *)
Definition bs_pos (rows : list row) (pc : N) : res nat :=
  b <- bsearch (map r_addr rows) pc ;;
  Ok (match b with Found i => i | NotFound p => (p - 1)%nat end).

(* number of leading rows of [l] whose address is [a] *)
Fixpoint count_run (a : N) (l : list row) : nat :=
  match l with
  | r :: t => if r_addr r =? a then S (count_run a t) else O
  | [] => O
  end.

(* `(first..=last).rev().find(|&idx| !self.lines[idx].end_sequence())` : examines the indices
   first+n-1, ..., first; `self.lines[idx]` out of range -> [Panic 9] (unreachable) *)
Fixpoint rfind_non_es (rows : list row) (first n : nat) : res (option nat) :=
  match n with
  | O => Ok None
  | S n' =>
      match nth_error rows (first + n') with
      | None => Panic 9
      | Some r => if r_es r then rfind_non_es rows first n' else Ok (Some (first + n')%nat)
      end
  end.

(* unit/mod.rs:446-469 find_place_by_pc (since e485ae3).  After the binary search:
     let addr = self.lines.get(pos)?.address;
     while first > 0 && lines[first-1].address == addr { first -= 1 }
     while last + 1 < len && lines[last+1].address == addr { last += 1 }
   The two loops only index inside the vector (guards `first > 0`, `last + 1 < len`); they are
   written here as the length of the run of equal addresses before / after [pos]. *)
Definition pc_pos (rows : list row) (pc : N) : res (option nat) :=
  pos <- bs_pos rows pc ;;
  match nth_error rows pos with
  | None => Ok None
  | Some r =>
      let a := r_addr r in
      let first := (pos - count_run a (rev (firstn pos rows)))%nat in
      let last := (pos + count_run a (skipn (S pos) rows))%nat in
      o <- rfind_non_es rows first (S (last - first)) ;;
      Ok (Some (match o with Some i => i | None => pos end))
  end.

Definition find_place_by_pc (u : unit) (pc : N) : res (option place) :=
  o <- pc_pos (u_rows u) pc ;;
  match o with
  | None => Ok None
  | Some pos => find_place_by_idx u pos
  end.

(* unit/mod.rs:492-506 find_exact_place_by_pc (since 5a7aaa1):
     Ok(mut p) => { while p > 0 && self.lines[p - 1].address == pc { p -= 1 }  find_place_by_idx(p) }
   no arithmetic below 0 any more; the build profile is irrelevant *)
Definition find_exact_place_by_pc (u : unit) (pc : N) : res (option place) :=
  b <- bsearch (map r_addr (u_rows u)) pc ;;
  match b with
  | Found p => find_place_by_idx u (p - count_run pc (rev (firstn p (u_rows u))))%nat
  | NotFound _ => Ok None
  end.

(* ------------------------------------------------------------------------------------------ *)
(* dwarf/mod.rs : unit and function by pc                                                     *)
(* ------------------------------------------------------------------------------------------ *)

(* address.rs:111 GlobalAddress::in_range *)
Definition in_range (pc : N) (r : range) : bool := (fst r <=? pc) && (pc <? snd r).

(* the closure of find_unit_by_pc (dwarf/mod.rs:244): `Ok(_) => true` without looking at `end`;
   `unit.ranges()[..pos]` -> [Panic 4] if pos > len (unreachable) *)
Definition unit_has_pc (u : unit) (pc : N) : res bool :=
  b <- bsearch (map fst (u_ranges u)) pc ;;
  match b with
  | Found _ => Ok true
  | NotFound pos =>
      if (length (u_ranges u) <? pos)%nat then Panic 4
      else Ok (existsb (in_range pc) (firstn pos (u_ranges u)))
  end.

(* `units.iter().find(..)`: the first unit, in registry order, that claims the pc *)
Fixpoint find_unit_from (i : nat) (units : list unit) (pc : N) : res (option (nat * unit)) :=
  match units with
  | [] => Ok None
  | u :: t => b <- unit_has_pc u pc ;;
              if b then Ok (Some (i, u)) else find_unit_from (S i) t pc
  end.
Definition find_unit_by_pc (units : list unit) (pc : N) : res (option (nat * unit)) :=
  find_unit_from 0 units pc.

(* dwarf/mod.rs:259, 268 *)
Definition find_place_from_pc (units : list unit) (pc : N) : res (option (nat * place)) :=
  uo <- find_unit_by_pc units pc ;;
  match uo with
  | None => Ok None
  | Some (ui, u) => p <- find_place_by_pc u pc ;; Ok (option_map (pair ui) p)
  end.

Definition find_exact_place_from_pc (units : list unit) (pc : N) : res (option (nat * place)) :=
  uo <- find_unit_by_pc units pc ;;
  match uo with
  | None => Ok None
  | Some (ui, u) => p <- find_exact_place_by_pc u pc ;; Ok (option_map (pair ui) p)
  end.

(* `while idx < die_ranges.len() && die_ranges[idx].range.begin == pc { idx += 1 }` started at
   [idx] on the list suffix [l] = die_ranges[idx..] *)
Fixpoint skip_eq (l : list die_range) (pc : N) (idx : nat) : nat :=
  match l with
  | [] => idx
  | d :: t => if dr_begin d =? pc then skip_eq t pc (S idx) else idx
  end.

Definition fn_find_pos (drs : list die_range) (pc : N) : res nat :=
  b <- bsearch (map dr_begin drs) pc ;;
  match b with
  | Found pos => Ok (skip_eq (skipn (S pos) drs) pc (S pos))
  | NotFound pos => Ok pos
  end.

(* `function_index.get(&off)` *)
Definition fn_lookup (u : unit) (off : N) : option fn_info :=
  find (fun f => f_off f =? off) (u_fns u).

Fixpoint first_some {A B} (f : A -> option B) (l : list A) : option B :=
  match l with
  | [] => None
  | x :: t => match f x with Some y => Some y | None => first_some f t end
  end.

Definition fn_hit (u : unit) (pc : N) (d : die_range) : option (die_range * fn_info) :=
  match fn_lookup u (dr_off d) with
  | Some info => if (dr_begin d <=? pc) && (pc <? dr_end d) then Some (d, info) else None
  | None => None
  end.

(* the body of the `and_then` closure of find_function_by_pc (dwarf/mod.rs:286-311);
   `die_ranges[..find_pos]` -> [Panic 5] if find_pos > len (unreachable) *)
Definition find_function_in_unit (u : unit) (pc : N) : res (option (die_range * fn_info)) :=
  fp <- fn_find_pos (u_die_ranges u) pc ;;
  if (length (u_die_ranges u) <? fp)%nat then Panic 5
  else Ok (first_some (fn_hit u pc) (rev (firstn fp (u_die_ranges u)))).

(* dwarf/mod.rs:281 find_function_by_pc: (unit index, die range that matched, function info) *)
Definition find_function_by_pc (units : list unit) (pc : N) : res (option (nat * die_range * fn_info)) :=
  uo <- find_unit_by_pc units pc ;;
  match uo with
  | None => Ok None
  | Some (ui, u) =>
      r <- find_function_in_unit u pc ;;
      Ok (match r with Some (d, info) => Some (ui, d, info) | None => None end)
  end.

(* ------------------------------------------------------------------------------------------ *)
(* dwarf/mod.rs:356 find_closest_place                                                        *)
(* ------------------------------------------------------------------------------------------ *)

(* unit/mod.rs:657 file_path_with_lines_pairs: the indices of the rows of file [f], in the order
   of `lines` (i.e. by ADDRESS - the doc comment of `files_index` says "ordered by line number,
   column number and address", the code does not sort) *)
Fixpoint file_lines_from (i : nat) (rows : list row) (f : N) : list nat :=
  match rows with
  | [] => []
  | r :: t => if r_file r =? f then i :: file_lines_from (S i) t f else file_lines_from (S i) t f
  end.
Definition file_lines (u : unit) (f : N) : list nat := file_lines_from 0 (u_rows u) f.

(* unit/mod.rs:436 `line(index)` = `&self.lines[index]` -> [Panic 6] out of range *)
Definition line_at (u : unit) (i : nat) : res row :=
  match nth_error (u_rows u) i with Some r => Ok r | None => Panic 6 end.

(* the HashSet key: (FunctionInfo.name, func.ranges()) *)
Notation fkey := (option bstr * list (N * N))%type (only parsing).
Definition range_eqb (a b : range) : bool := (fst a =? fst b) && (snd a =? snd b).
Definition oname_eqb (a b : option bstr) : bool :=
  match a, b with
  | None, None => true
  | Some x, Some y => bstr_eqb x y
  | _, _ => false
  end.
Definition fkey_eqb (a b : fkey) : bool :=
  oname_eqb (fst a) (fst b) && list_eqb range_eqb (snd a) (snd b).
Definition fkey_of (info : fn_info) : fkey := (f_name info, f_ranges info).

(* `places_in_unit.iter_mut().find(|(k, _)| k.as_ref() == Some(&key))`: the first entry with this
   key gets the new place if that one is a prologue end and the chosen one is not; no entry -> push *)
Definition okey_is (k : fkey) (ko : option fkey) : bool :=
  match ko with Some k' => fkey_eqb k' k | None => false end.
Fixpoint upd_acc (k : fkey) (p : place) (acc : list (option fkey * place)) : list (option fkey * place) :=
  match acc with
  | [] => [(Some k, p)]
  | (ko, c) :: t =>
      if okey_is k ko then (ko, if r_pe (snd p) && negb (r_pe (snd c)) then p else c) :: t
      else (ko, c) :: upd_acc k p t
  end.

(* the `for &line_idx in file_lines` loop of find_closest_place (dwarf/mod.rs:390-427, since 0bd2878);
   [acc] = places_in_unit, [seen] = unique_subprograms.  `find_place_by_idx(line_idx)` is applied to
   an index for which `unit.line(line_idx)` has just succeeded, so it cannot return None; the model
   builds the place from the row already fetched ([mk_place] keeps the `expect`). *)
Fixpoint group_rows (units : list unit) (u : unit) (needle : N) (seen : list fkey)
                    (acc : list (option fkey * place)) (fl : list nat) : res (list (option fkey * place)) :=
  match fl with
  | [] => Ok acc
  | i :: t =>
      r <- line_at u i ;;
      if negb (r_line r =? needle) || negb (r_stmt r) || r_es r then group_rows units u needle seen acc t
      else
        p <- mk_place u i r ;;
        fo <- find_function_by_pc units (r_addr r) ;;
        match fo with
        | None => group_rows units u needle seen (acc ++ [(None, p)]) t
        | Some (_, _, info) =>
            let k := fkey_of info in
            if existsb (fkey_eqb k) seen then group_rows units u needle seen acc t
            else group_rows units u needle seen (upd_acc k p acc) t
        end
  end.

(* `for (unit_idx, file_lines) in &files`; [files] is the answer of `files_index.get(file_tpl)`
   (PathSearchIndex, property C17) as (unit index, file index) pairs; `unit_ensure(idx)` = `units[idx]`
   -> [Panic 7]; afterwards the keys of places_in_unit go to unique_subprograms, the places to result *)
Fixpoint closest_units (units : list unit) (needle : N) (files : list (nat * N)) (seen : list fkey)
  : res (list fkey * list (nat * place)) :=
  match files with
  | [] => Ok (seen, [])
  | (ui, f) :: t =>
      match nth_error units ui with
      | None => Panic 7
      | Some u =>
          acc <- group_rows units u needle seen [] (file_lines u f) ;;
          r2 <- closest_units units needle t (filter_map fst acc ++ seen) ;;
          Ok (fst r2, map (fun e => (ui, snd e)) acc ++ snd r2)
      end
  end.

Definition U64_MAX : N := 18446744073709551615.

(* `let possible_lines = &[line, line.saturating_add(1)];` - no overflow any more.  [ovf] is kept
   only so that the callers need not change; it is not used. *)
Definition find_closest_place (ovf : bool) (units : list unit) (files : list (nat * N)) (line : N)
  : res (list (nat * place)) :=
  let line1 := if line =? U64_MAX then U64_MAX else line + 1 in
  r1 <- closest_units units line files [] ;;
  match snd r1 with
  | _ :: _ => Ok (snd r1)
  | [] => r2 <- closest_units units line1 files (fst r1) ;; Ok (snd r2)
  end.

(* ------------------------------------------------------------------------------------------ *)
(* unit/die_ref.rs : function breakpoint address                                              *)
(* ------------------------------------------------------------------------------------------ *)

(* Iterator::min_by keeps the first of equal minima, max_by the last of equal maxima *)
Fixpoint min_begin (cur : range) (l : list range) : range :=
  match l with
  | [] => cur
  | r :: t => min_begin (if fst r <? fst cur then r else cur) t
  end.
Fixpoint max_begin (cur : range) (l : list range) : range :=
  match l with
  | [] => cur
  | r :: t => max_begin (if fst r <? fst cur then cur else r) t
  end.

(* die_ref.rs:365, 379; [Err 1] = NoFunctionRanges *)
Definition start_instruction (f : fn_info) : res N :=
  match f_ranges f with [] => Err 1 | r :: t => Ok (fst (min_begin r t)) end.
Definition end_instruction (f : fn_info) : res N :=
  match f_ranges f with [] => Err 1 | r :: t => Ok (snd (max_begin r t)) end.

(* die_ref.rs:392; the place is looked up through ALL units (find_place_from_pc), not in the unit
   the function DIE belongs to; [Err 2] = FunctionNotFound *)
Definition prolog_start_place (units : list unit) (f : fn_info) : res (nat * place) :=
  low <- start_instruction f ;;
  p <- find_place_from_pc units low ;;
  match p with None => Err 2 | Some q => Ok q end.

(* GlobalAddress::in_ranges over `self.ranges()` *)
Definition addr_in_fn (g : fn_info) (a : N) : bool := existsb (in_range a) (f_ranges g).

(* die_ref.rs:407-416 `next_in_function` (since 6aa083d), on the list suffix [l] = rows[idx..]:
     let mut next = place.next()?;
     while next.end_sequence && next.address.in_ranges(ranges) { next = next.next()?; }
     (!next.end_sequence && next.address.in_ranges(ranges)).then_some(next)
   every `next()` builds a PlaceDescriptor ([mk_place], `expect`) *)
Fixpoint next_in_fn_l (u : unit) (g : fn_info) (idx : nat) (l : list row) : res (option place) :=
  match l with
  | [] => Ok None
  | r :: t =>
      p <- mk_place u idx r ;;
      if r_es r && addr_in_fn g (r_addr r) then next_in_fn_l u g (S idx) t
      else if negb (r_es r) && addr_in_fn g (r_addr r) then Ok (Some p) else Ok None
  end.
Definition next_in_fn (u : unit) (g : fn_info) (p : place) : res (option place) :=
  next_in_fn_l u g (S (fst p)) (skipn (S (fst p)) (u_rows u)).

(* die_ref.rs:421-434: `while !place.prolog_end { match next_in_function(..) { Some(n) => place = n,
   None => return Ok(next_in_function(&start_place, ..).unwrap_or(start_place)) } }`.
   The row index grows at every step, so [length rows] steps are enough (proved). *)
Fixpoint prolog_walk (u : unit) (g : fn_info) (start : place) (fuel : nat) (p : place) : res place :=
  if r_pe (snd p) then Ok p else
  match fuel with
  | O => OutOfFuel
  | S fuel' =>
      n <- next_in_fn u g p ;;
      match n with
      | Some q => prolog_walk u g start fuel' q
      | None => s <- next_in_fn u g start ;; Ok (match s with Some q => q | None => start end)
      end
  end.

(* the rows walked are those of the unit in which find_place_from_pc found the start place *)
Definition prolog_end_place (units : list unit) (f : fn_info) : res (nat * place) :=
  s <- prolog_start_place units f ;;
  match nth_error units (fst s) with
  | None => Panic 7
  | Some u => p <- prolog_walk u f (snd s) (length (u_rows u)) (snd s) ;; Ok (fst s, p)
  end.

(* ------------------------------------------------------------------------------------------ *)
(* Specification (independent of the algorithms)                                              *)
(* ------------------------------------------------------------------------------------------ *)

(* A line table in PROGRAM ORDER is a list of rows; a sequence is a maximal run of rows ending with
   an end_sequence row.  The row that follows a non-end_sequence row in the list is therefore the
   next row of the same sequence. *)
Fixpoint seq_pairs (prog : list row) : list (row * row) :=
  match prog with
  | r :: ((r' :: _) as t) => if r_es r then seq_pairs t else (r, r') :: seq_pairs t
  | _ => []
  end.

(* the parser's `lines.sort_by_key(|x| x.address)` (parser.rs:61): a stable sort by address of the
   program-order rows (insertion sort as a specification of "stable") *)
Fixpoint ins_row (x : row) (l : list row) : list row :=
  match l with
  | [] => [x]
  | y :: t => if r_addr x <? r_addr y then x :: l else y :: ins_row x t
  end.
Definition stable_sort (l : list row) : list row := fold_left (fun acc x => ins_row x acc) l [].

(* pc -> row: a non-end_sequence row r with r.addr <= pc < (address of the next row of its sequence) *)
Definition covers (pc : N) (p : row * row) : Prop := r_addr (fst p) <= pc /\ pc < r_addr (snd p).
Definition place_of (prog : list row) (pc : N) (r : row) : Prop :=
  exists r', In (r, r') (seq_pairs prog) /\ covers pc (r, r').

Definition coversb (pc : N) (p : row * row) : bool := (r_addr (fst p) <=? pc) && (pc <? r_addr (snd p)).
Definition place_ofb (prog : list row) (pc : N) (r : row) : bool :=
  existsb (fun p => row_eqb (fst p) r && coversb pc p) (seq_pairs prog).
Definition no_placeb (prog : list row) (pc : N) : bool :=
  negb (existsb (coversb pc) (seq_pairs prog)).

(* pc -> function: a function one of whose ranges contains pc *)
Definition dr_contains (pc : N) (d : die_range) : Prop := dr_begin d <= pc /\ pc < dr_end d.
Definition dr_containsb (pc : N) (d : die_range) : bool := (dr_begin d <=? pc) && (pc <? dr_end d).
Definition function_of (drs : list die_range) (pc : N) (off : N) : Prop :=
  exists d, In d drs /\ dr_off d = off /\ dr_contains pc d.

(* unit of a pc *)
Definition unit_covers (u : unit) (pc : N) : Prop := exists r, In r (u_ranges u) /\ in_range pc r = true.

(* file:line -> rows: the is_stmt, non-end_sequence rows of line L of file f of unit u *)
(* an end_sequence row is not an instruction (its address is the first byte after the sequence) *)
Definition stmt_row (f line : N) (r : row) : bool :=
  (r_file r =? f) && (r_line r =? line) && r_stmt r && negb (r_es r).
Definition line_has_code (units : list unit) (files : list (nat * N)) (line : N) : Prop :=
  exists ui f u r, In (ui, f) files /\ nth_error units ui = Some u /\ In r (u_rows u) /\ stmt_row f line r = true.
Definition line_has_codeb (units : list unit) (files : list (nat * N)) (line : N) : bool :=
  existsb (fun uf => match nth_error units (fst uf) with
                     | Some u => existsb (stmt_row (snd uf) line) (u_rows u)
                     | None => false end) files.
(* a returned (unit, row index, row) is a statement of [line] in one of the files *)
Definition is_line_place (units : list unit) (files : list (nat * N)) (line : N) (p : nat * place) : Prop :=
  exists f u, In (fst p, f) files /\ nth_error units (fst p) = Some u /\
              nth_error (u_rows u) (fst (snd p)) = Some (snd (snd p)) /\ stmt_row f line (snd (snd p)) = true.
Definition is_line_placeb (units : list unit) (files : list (nat * N)) (line : N) (p : nat * place) : bool :=
  match nth_error units (fst p) with
  | None => false
  | Some u =>
      match nth_error (u_rows u) (fst (snd p)) with
      | None => false
      | Some r => row_eqb r (snd (snd p)) &&
                  existsb (fun uf => Nat.eqb (fst uf) (fst p) && stmt_row (snd uf) line r) files
      end
  end.

(* the answers to `break file:L` allowed by the property: statements of L, or of L+1 only if L has none *)
Definition line_places_ok (units : list unit) (files : list (nat * N)) (line : N) (ps : list (nat * place)) : Prop :=
  (forall p, In p ps -> is_line_place units files line p) \/
  (~ line_has_code units files line /\ forall p, In p ps -> is_line_place units files (line + 1) p).

(* function instance g "contains the line" when a statement row of the line lies in its ranges *)
(* an end_sequence row is not an instruction: its address is the first byte AFTER the sequence and
   may be the first byte of the next function (functions are emitted back to back when the size of
   the previous one is a multiple of the alignment), so it does not make that function "contain" the line *)
Definition fn_has_line (u : unit) (f line : N) (g : fn_info) : bool :=
  existsb (fun r => stmt_row f line r && negb (r_es r) && addr_in_fn g (r_addr r)) (u_rows u).

(* function -> breakpoint address: inside the function, the prologue_end row when it has one *)
Definition fn_pe_rows (u : unit) (g : fn_info) : list row :=
  filter (fun r => r_pe r && negb (r_es r) && addr_in_fn g (r_addr r)) (u_rows u).
Definition fn_bp_ok (u : unit) (g : fn_info) (r : row) : bool :=
  addr_in_fn g (r_addr r) && negb (r_es r) &&
  match fn_pe_rows u g with [] => true | _ :: _ => r_pe r end.

(* ------------------------------------------------------------------------------------------ *)
(* Correspondence cases                                                                       *)
(* ------------------------------------------------------------------------------------------ *)

Inductive lt_query :=
| QPlace (ui : N) (pc : N)                 (* units[ui].find_place_by_pc(pc) *)
| QExact (ui : N) (pc : N)                 (* units[ui].find_exact_place_by_pc(pc) *)
| QUnit (pc : N)                           (* find_unit_by_pc(pc) *)
| QFunc (pc : N)                           (* find_function_by_pc(pc) *)
| QLine (files : list (N * N)) (line : N)  (* find_closest_place; files = (unit idx, file idx) of files_index.get(tpl) *)
| QFnBp (ui : N) (off : N).                (* FatDieRef::new_func(_, ui, off).prolog_end_place() *)

Inductive lt_answer :=
| ANone                                    (* Ok(None) / empty *)
| ARow (ui idx : N)                        (* a place: unit index, pos_in_unit *)
| AUnit (ui : N)
| AFunc (ui off : N)                       (* unit index, die offset *)
| ARows (l : list (N * N))                 (* places in result order: (unit index, pos_in_unit) *)
| AErr                                     (* Err(_) *)
| APanic.                                  (* the call panicked *)

Record lt_case := LC {
  lc_ovf : bool;                 (* overflow checks compiled in; irrelevant since 5a7aaa1 / 0bd2878, kept for the harness *)
  lc_units : list unit;          (* the units as the debugger holds them (sorted vectors) *)
  lc_prog : list (list row);     (* per unit: the line rows in program order from an independent
                                    decoder; a missing / empty entry means "use the debugger's vector" *)
  lc_query : lt_query;
  lc_answer : lt_answer
}.

Definition n2 (p : N * N) : nat * N := (N.to_nat (fst p), snd p).
Definition nn (p : N * N) : nat * nat := (N.to_nat (fst p), N.to_nat (snd p)).

Definition opt_eqb {A} (e : A -> A -> bool) (a b : option A) : bool :=
  match a, b with Some x, Some y => e x y | None, None => true | _, _ => false end.
Definition natpair_eqb (a b : nat * nat) : bool := Nat.eqb (fst a) (fst b) && Nat.eqb (snd a) (snd b).

(* model answers, reduced to what an answer records *)
Definition ans_of_place (ui : nat) (r : res (option place)) : lt_answer :=
  match r with
  | Ok None => ANone
  | Ok (Some p) => ARow (N.of_nat ui) (N.of_nat (fst p))
  | Err _ => AErr
  | _ => APanic
  end.

Definition model_answer (c : lt_case) : lt_answer :=
  let us := lc_units c in
  match lc_query c with
  | QPlace ui pc =>
      match nth_error us (N.to_nat ui) with
      | None => APanic
      | Some u => ans_of_place (N.to_nat ui) (find_place_by_pc u pc)
      end
  | QExact ui pc =>
      match nth_error us (N.to_nat ui) with
      | None => APanic
      | Some u => ans_of_place (N.to_nat ui) (find_exact_place_by_pc u pc)
      end
  | QUnit pc =>
      match find_unit_by_pc us pc with
      | Ok None => ANone
      | Ok (Some (ui, _)) => AUnit (N.of_nat ui)
      | Err _ => AErr
      | _ => APanic
      end
  | QFunc pc =>
      match find_function_by_pc us pc with
      | Ok None => ANone
      | Ok (Some (ui, d, _)) => AFunc (N.of_nat ui) (dr_off d)
      | Err _ => AErr
      | _ => APanic
      end
  | QLine files line =>
      match find_closest_place (lc_ovf c) us (map n2 files) line with
      | Ok l => ARows (map (fun p => (N.of_nat (fst p), N.of_nat (fst (snd p)))) l)
      | Err _ => AErr
      | _ => APanic
      end
  | QFnBp ui off =>
      match nth_error us (N.to_nat ui) with
      | None => APanic
      | Some u =>
          match fn_lookup u off with
          | None => AErr
          | Some g =>
              match prolog_end_place us g with
              | Ok (vi, p) => ARow (N.of_nat vi) (N.of_nat (fst p))
              | Err _ => AErr
              | _ => APanic
              end
          end
      end
  end.

Definition NN_eqb (a b : N * N) : bool := (fst a =? fst b) && (snd a =? snd b).
Definition lt_answer_eqb (a b : lt_answer) : bool :=
  match a, b with
  | ANone, ANone => true
  | ARow u i, ARow v j => (u =? v) && (i =? j)
  | AUnit u, AUnit v => u =? v
  | AFunc u o, AFunc v p => (u =? v) && (o =? p)
  | ARows l, ARows m => list_eqb NN_eqb l m
  | AErr, AErr => true
  | APanic, APanic => true
  | _, _ => false
  end.

(* program-order rows of unit [ui] for the specification *)
Definition prog_of (c : lt_case) (ui : nat) : list row :=
  match nth_error (lc_prog c) ui with
  | Some ((_ :: _) as p) => p
  | _ => match nth_error (lc_units c) ui with Some u => u_rows u | None => [] end
  end.

Definition row_at (c : lt_case) (ui idx : N) : option row :=
  match nth_error (lc_units c) (N.to_nat ui) with
  | Some u => nth_error (u_rows u) (N.to_nat idx)
  | None => None
  end.

Definition unit_coversb (u : unit) (pc : N) : bool := existsb (in_range pc) (u_ranges u).
Definition has_fn_info (u : unit) (d : die_range) : bool :=
  match fn_lookup u (dr_off d) with Some _ => true | None => false end.

Fixpoint count_if {A} (f : A -> bool) (l : list A) : nat :=
  match l with [] => O | x :: t => if f x then S (count_if f t) else count_if f t end.

(* every function instance of a unit named in [files] that contains the line gets exactly one of
   the answered addresses *)
Definition one_per_function (us : list unit) (files : list (nat * N)) (line : N) (rows : list (nat * row)) : bool :=
  forallb (fun uf =>
    match nth_error us (fst uf) with
    | None => true
    | Some u =>
        forallb (fun g => negb (fn_has_line u (snd uf) line g) ||
                          Nat.eqb (count_if (fun p => Nat.eqb (fst p) (fst uf) && addr_in_fn g (r_addr (snd p))) rows) 1)
                (u_fns u)
    end) files.

Definition spec_ok (c : lt_case) : bool :=
  let us := lc_units c in
  match lc_query c, lc_answer c with
  | QPlace ui pc, ARow vi idx =>
      (ui =? vi) &&
      match row_at c ui idx with
      | Some r => place_ofb (prog_of c (N.to_nat ui)) pc r
      | None => false
      end
  | QPlace ui pc, ANone => no_placeb (prog_of c (N.to_nat ui)) pc
  | QExact ui pc, ARow vi idx =>
      (ui =? vi) && match row_at c ui idx with Some r => r_addr r =? pc | None => false end
  | QExact ui pc, ANone =>
      match nth_error us (N.to_nat ui) with
      | Some u => negb (existsb (fun r => r_addr r =? pc) (u_rows u))
      | None => false
      end
  | QUnit pc, AUnit ui =>
      match nth_error us (N.to_nat ui) with Some u => unit_coversb u pc | None => false end
  | QUnit pc, ANone => negb (existsb (fun u => unit_coversb u pc) us)
  | QFunc pc, AFunc ui off =>
      match nth_error us (N.to_nat ui) with
      | Some u => existsb (fun d => (dr_off d =? off) && dr_containsb pc d) (u_die_ranges u)
      | None => false
      end
  | QFunc pc, ANone =>
      negb (existsb (fun u => existsb (fun d => dr_containsb pc d && has_fn_info u d) (u_die_ranges u)) us)
  | QLine files line, ARows l =>
      let fs := map n2 files in
      let ps := map nn l in
      let rows := filter_map (fun p => match row_at c (fst p) (snd p) with
                                       | Some r => Some (N.to_nat (fst p), (N.to_nat (snd p), r))
                                       | None => None end) l in
      Nat.eqb (length rows) (length l) &&
      (let chosen := if line_has_codeb us fs line then line else line + 1 in
       forallb (is_line_placeb us fs chosen) rows &&
       one_per_function us fs chosen (map (fun p => (fst p, snd (snd p))) rows))
  | QFnBp ui off, ARow vi idx =>
      match nth_error us (N.to_nat ui), row_at c vi idx with
      | Some u, Some r =>
          match fn_lookup u off with
          | Some g => (ui =? vi) && fn_bp_ok u g r
          | None => false
          end
      | _, _ => false
      end
  | _, _ => false
  end.

Definition lt_check (c : lt_case) : N :=
  verdict (lt_answer_eqb (model_answer c) (lc_answer c)) (spec_ok c).
