(* C13 -- model of the DAP adapter's breakpoint requests, /repo HEAD (after a630610: records
   remember the breakpoint NUMBERS and addresses of all returned views, the previous set is
   removed with remove_breakpoint_by_number; 5361f91: the hit lookup goes by the number of the
   breakpoint installed at the stop address; 8630d99: `restart` returns the real first stop of
   the new process, so it is filtered like any other stop = a separate [Hit] request here).
   The pre-fix model is kept as ModelDapBp_old.v.bak.
     src/dap/yadap/session/breakpoint.rs  (HitCondition, set*Breakpoints handlers)
     src/dap/yadap/session/control.rs     (should_skip_breakpoint, record lookup, restart)
     src/dap/yadap/session/init.rs        (configurationDone = start)
     src/debugger/breakpoint.rs           (BreakpointRegistry, Address::{Relocated,Global})
     src/debugger/mod.rs                  (continue_execution: enable_all at entry point,
                                           disable_all at exit, restart_debugee)
   No proofs in this file.

   External behaviour enters as Section variables:
     resolve_line src line : global addresses `find_closest_place` returns (all DWARF units,
                             after the basename fall-back); [] = NoSuitablePlace
     resolve_fn name       : global addresses `search_places_for_fn_tpl` returns
     valid_addr a          : a relocated address lies in a mapped object with a line-table place
     wp_ok a               : a hardware watchpoint can be armed at address a
     bias                  : mapping offset of the executable (ADDR_NO_RANDOMIZE is always set by
                             Child::install, so it is the same after every restart)
   Assumed: ptrace peeks/pokes succeed; one object file (no deferred shared-library
   breakpoints); entry-point/temporary/linker-map breakpoints never share an address with a
   user breakpoint; data breakpoints are address targets (`0x..:N`), not expressions. *)
From BS Require Import Model.Base.
Open Scope N_scope.

(* ------------------------------------------------------------------------- *)
(** * HitCondition (breakpoint.rs:27-86)                                      *)

Inductive hitcond :=
| HExact (n : N) | HGe (n : N) | HGt (n : N) | HLt (n : N) | HLe (n : N)
| HInvalid (raw : bstr).

(* str::trim on ASCII input: U+0009..U+000D and U+0020.  (Unicode White_Space outside
   ASCII -- U+0085, U+00A0, U+1680, U+2000.. -- is outside the model: ASCII strings only.) *)
Definition is_ws (b : N) : bool := (b =? 32) || ((9 <=? b) && (b <=? 13)).
Fixpoint trim_start (s : bstr) : bstr :=
  match s with
  | b :: t => if is_ws b then trim_start t else s
  | [] => []
  end.
Definition trim_end (s : bstr) : bstr := rev (trim_start (rev s)).
Definition trim (s : bstr) : bstr := trim_end (trim_start s).

Fixpoint strip_prefix (p s : bstr) : option bstr :=
  match p, s with
  | [], _ => Some s
  | x :: ps, y :: ss => if x =? y then strip_prefix ps ss else None
  | _ :: _, [] => None
  end.

Definition is_digit (b : N) : bool := (48 <=? b) && (b <=? 57).
Fixpoint digits_val (acc : N) (s : bstr) : option N :=
  match s with
  | [] => Some acc
  | b :: t => if is_digit b then digits_val (acc * 10 + (b - 48)) t else None
  end.

Definition u64_lim : N := 18446744073709551616.

(* <u64 as FromStr>::from_str: optional '+', at least one digit, no overflow;
   "", "+", "-5", "1_0", " 5" are errors. *)
Definition parse_u64 (s : bstr) : option N :=
  let body := match s with 43 :: t => t | _ => s end in
  match body with
  | [] => None
  | _ => match digits_val 0 body with
         | Some v => if v <? u64_lim then Some v else None
         | None => None
         end
  end.

(* HitCondition::parse (breakpoint.rs:38-74): never fails, never panics; what is not a
   comparison becomes Invalid(trimmed input). *)
Definition hc_parse (input : bstr) : hitcond :=
  let t := trim input in
  let num (mk : N -> hitcond) (rest : bstr) :=
    match parse_u64 (trim rest) with Some v => mk v | None => HInvalid t end in
  match strip_prefix [62; 61] t with Some r => num HGe r | None =>
  match strip_prefix [60; 61] t with Some r => num HLe r | None =>
  match strip_prefix [61; 61] t with Some r => num HExact r | None =>
  match strip_prefix [61] t with Some r => num HExact r | None =>
  match strip_prefix [62] t with Some r => num HGt r | None =>
  match strip_prefix [60] t with Some r => num HLt r | None =>
  num HExact t
  end end end end end end.

(* HitCondition::matches (breakpoint.rs:76-85) *)
Definition hc_matches (h : hitcond) (hits : N) : bool :=
  match h with
  | HExact e => hits =? e
  | HGe e => e <=? hits
  | HGt e => e <? hits
  | HLt e => hits <? e
  | HLe e => hits <=? e
  | HInvalid _ => true
  end.

(** ** Specification of the hit-condition syntax (independent of the parser) *)
Inductive hc_op := OpEq | OpGe | OpGt | OpLt | OpLe.
Definition op_eval (o : hc_op) (hits v : N) : bool :=
  match o with
  | OpEq => hits =? v | OpGe => v <=? hits | OpGt => v <? hits
  | OpLt => hits <? v | OpLe => hits <=? v
  end.
(* the tokens that denote each operator: "N", "=N", "==N" all mean "exactly N" *)
Definition op_toks (o : hc_op) : list bstr :=
  match o with
  | OpEq => [[]; [61]; [61; 61]]
  | OpGe => [[62; 61]] | OpGt => [[62]] | OpLt => [[60]] | OpLe => [[60; 61]]
  end.
Definition dec_value (ds : bstr) : N := fold_left (fun acc b => acc * 10 + (b - 48)) ds 0.
Definition all_ws (w : bstr) : Prop := Forall (fun b => is_ws b = true) w.
Definition all_digits (w : bstr) : Prop := Forall (fun b => is_digit b = true) w.

(* [s] reads "<ws> op <ws> [+]digits <ws>" with a value that fits u64 *)
Definition hc_denotes (s : bstr) (o : hc_op) (v : N) : Prop :=
  exists w1 tok w2 sign ds w3,
    s = w1 ++ tok ++ w2 ++ sign ++ ds ++ w3 /\
    all_ws w1 /\ all_ws w2 /\ all_ws w3 /\ In tok (op_toks o) /\
    (sign = [] \/ sign = [43]) /\ ds <> [] /\ all_digits ds /\
    dec_value ds = v /\ v < u64_lim.

Definition hc_as_op (h : hitcond) : option (hc_op * N) :=
  match h with
  | HExact n => Some (OpEq, n) | HGe n => Some (OpGe, n) | HGt n => Some (OpGt, n)
  | HLt n => Some (OpLt, n) | HLe n => Some (OpLe, n) | HInvalid _ => None
  end.

(* ------------------------------------------------------------------------- *)
(** * Log-message interpolation (control.rs:169-195, format_log_message)       *)
(* '{' starts an expression that runs to the next '}' or to the END of the template when the
   brace is never closed; "{}" is copied literally; everything else is copied. *)
Section LogMessage.
  Variable eval_expr : bstr -> bstr.    (* evaluate_expression_string, errors rendered *)
  Fixpoint take_expr (s acc : bstr) : bstr * bstr :=
    match s with
    | [] => (rev acc, [])
    | b :: t => if b =? 125 then (rev acc, t) else take_expr t (b :: acc)
    end.
  Fixpoint format_log (fuel : nat) (s : bstr) : bstr :=
    match fuel with
    | O => []
    | S k =>
      match s with
      | [] => []
      | b :: t =>
        if b =? 123 then
          let '(e, rest) := take_expr t [] in
          (match e with [] => [123; 125] | _ => eval_expr (trim e) end) ++ format_log k rest
        else b :: format_log k t
      end
    end.
  Definition format_log_message (s : bstr) : bstr := format_log (S (length s)) s.
End LogMessage.

(* ------------------------------------------------------------------------- *)
(** * Addresses, records, registry                                            *)

(* debugger::address::Address *)
Inductive addr := Rel (a : N) | Glob (g : N).
Definition addr_eqb (x y : addr) : bool :=
  match x, y with
  | Rel a, Rel b => a =? b
  | Glob a, Glob b => a =? b
  | _, _ => false
  end.

Inductive phase := Unload | InProgress | Exited.   (* debugee::ExecutionStatus *)
Definition phase_eqb (p q : phase) : bool :=
  match p, q with Unload, Unload | InProgress, InProgress | Exited, Exited => true | _, _ => false end.

(* options of one requested breakpoint, as sent by the client *)
Record opts := mk_opts {
  o_cond : bool;              (* a non-blank "condition" was given *)
  o_hit : option bstr;        (* "hitCondition" string *)
  o_log : bool                (* a non-blank "logMessage" was given *)
}.
Definition no_opts : opts := mk_opts false None false.

(* parse_breakpoint_options (breakpoint.rs:126-150): blank hitCondition = none *)
Definition parse_hit_opt (o : option bstr) : option hitcond :=
  match o with
  | None => None
  | Some s => match trim s with [] => None | t => Some (hc_parse t) end
  end.

(* BreakpointRecord (breakpoint.rs:17-25) *)
Record brec := mk_rec {
  r_id : N; r_addrs : list addr; r_nums : list N;
  r_cond : bool; r_hit : option hitcond; r_log : bool; r_hits : N
}.
Definition new_rec (id : N) (addrs : list addr) (nums : list N) (o : opts) : brec :=
  mk_rec id addrs nums (o_cond o) (parse_hit_opt (o_hit o)) (o_log o) 0.

(* the user-defined part of BreakpointRegistry (breakpoint.rs:1003-1011) plus the debuggee
   status, GLOBAL_BP_COUNTER and the address watchpoints *)
Record dbg := mk_dbg {
  d_phase : phase;
  d_en : list (N * N);         (* breakpoints: relocated address -> number *)
  d_dis : list (addr * N);     (* disabled_breakpoints: Address -> number *)
  d_num : N;                   (* GLOBAL_BP_COUNTER (AtomicU32, wraps) *)
  d_wps : list N               (* watched addresses *)
}.

(* DebugSession (session/mod.rs:35-40) *)
Record sess := mk_sess {
  s_dbg : dbg;
  s_src : list (N * list brec);   (* breakpoints_by_source *)
  s_fn : list brec;               (* function_breakpoints *)
  s_ins : list brec;              (* instruction_breakpoints *)
  s_data : list (N * N);          (* data_breakpoints: watched address -> id *)
  s_next : N                      (* next_breakpoint_id *)
}.
Definition dbg_init (num0 : N) : dbg := mk_dbg Unload [] [] num0 [].
Definition sess_init (num0 : N) : sess := mk_sess (dbg_init num0) [] [] [] [] 1.

Definition en_remove (a : N) (l : list (N * N)) : list (N * N) :=
  filter (fun e => negb (fst e =? a)) l.
Definition en_insert (a n : N) (l : list (N * N)) : list (N * N) := (a, n) :: en_remove a l.
Definition dis_remove (k : addr) (l : list (addr * N)) : list (addr * N) :=
  filter (fun e => negb (addr_eqb (fst e) k)) l.
Definition dis_insert (k : addr) (n : N) (l : list (addr * N)) : list (addr * N) :=
  (k, n) :: dis_remove k l.
Definition dis_has (k : addr) (l : list (addr * N)) : bool :=
  existsb (fun e => addr_eqb (fst e) k) l.

Definition with_en (d : dbg) (l : list (N * N)) : dbg :=
  mk_dbg (d_phase d) l (d_dis d) (d_num d) (d_wps d).
Definition with_dis (d : dbg) (l : list (addr * N)) : dbg :=
  mk_dbg (d_phase d) (d_en d) l (d_num d) (d_wps d).
Definition next_num (n : N) : N := (n + 1) mod 4294967296.

(* BreakpointRegistry::remove_by_addr (breakpoint.rs:1081-1097): the disabled map is keyed by
   the [Address] enum value; the enabled map only answers to [Relocated] keys. *)
Definition dbg_remove (d : dbg) (k : addr) : dbg :=
  if dis_has k (d_dis d) then with_dis d (dis_remove k (d_dis d))
  else match k with
       | Rel a => with_en d (en_remove a (d_en d))
       | Glob _ => d
       end.

(* BreakpointRegistry::remove_by_num (breakpoint.rs:1100-1120): look the number up in the disabled
   map first, then in the enabled one, and hand the KEY found to remove_by_addr (so an enabled
   breakpoint goes through remove_by_addr(Relocated a), which again consults the disabled map
   first).  Independent of the address form the adapter stored. *)
Definition dbg_remove_num (d : dbg) (n : N) : dbg :=
  match find (fun e => snd e =? n) (d_dis d) with
  | Some e => dbg_remove d (fst e)
  | None => match find (fun e => snd e =? n) (d_en d) with
            | Some e => dbg_remove d (Rel (fst e))
            | None => d
            end
  end.
(* the numbers handed out to k consecutive creations.  (The adapter stores view.number of the
   views re-read after all places were added; when one request line lists the same address twice
   that is the later number twice.  Removal by number and the hit lookup behave the same.) *)
Fixpoint nums_from (n : N) (k : nat) : list N :=
  match k with O => [] | S k' => n :: nums_from (next_num n) k' end.

Definition in_progress (d : dbg) : bool := phase_eqb (d_phase d) InProgress.

Section Oracles.
  Variable resolve_line : N -> N -> list N.
  Variable resolve_fn : N -> list N.
  Variable valid_addr : N -> bool.
  Variable wp_ok : N -> bool.
  Variable bias : N.

  Definition valid (a : N) : bool := valid_addr a && (bias <=? a).

  (* create_breakpoint_at_places + add_breakpoints (breakpoint.rs:129-207) for one place *)
  Definition add_place (g : N) (d : dbg) : dbg :=
    if in_progress d
    then mk_dbg (d_phase d) (en_insert (bias + g) (d_num d) (d_en d)) (d_dis d) (next_num (d_num d)) (d_wps d)
    else mk_dbg (d_phase d) (d_en d) (dis_insert (Glob g) (d_num d) (d_dis d)) (next_num (d_num d)) (d_wps d).
  Fixpoint add_places (gs : list N) (d : dbg) : dbg :=
    match gs with [] => d | g :: t => add_places t (add_place g d) end.
  (* the [BreakpointView.addr] values handed back *)
  Definition view_addrs (d : dbg) (gs : list N) : list addr :=
    if in_progress d then map (fun g => Rel (bias + g)) gs else map Glob gs.

  (* set_breakpoint_at_addr (breakpoint.rs:73-103) *)
  Definition dbg_set_addr (d : dbg) (a : N) : dbg * list addr :=
    if in_progress d then
      if valid a
      then (mk_dbg (d_phase d) (en_insert a (d_num d) (d_en d)) (d_dis d) (next_num (d_num d)) (d_wps d), [Rel a])
      else (d, [])
    else (mk_dbg (d_phase d) (d_en d) (dis_insert (Rel a) (d_num d) (d_dis d)) (next_num (d_num d)) (d_wps d), [Rel a]).

  (* enable_all_breakpoints (breakpoint.rs:1123-1140) + try_into_brkpt (:874-914); the
     HashMap drain order is unspecified, the model uses list order (matters for the surviving
     *number* only, when two keys relocate to one address) *)
  Fixpoint enable_list (l : list (addr * N)) (en : list (N * N)) : list (N * N) :=
    match l with
    | [] => en
    | (Glob g, n) :: t => enable_list t (en_insert (bias + g) n en)
    | (Rel a, n) :: t => if valid a then enable_list t (en_insert a n en) else enable_list t en
    end.
  Definition enable_all (d : dbg) : dbg :=
    mk_dbg InProgress (enable_list (d_dis d) (d_en d)) [] (d_num d) (d_wps d).

  (* disable_all_breakpoints (breakpoint.rs:1161-1189): user breakpoints become uninit ones
     keyed by their GLOBAL address, keeping their number *)
  Fixpoint disable_list (l : list (N * N)) (dis : list (addr * N)) : list (addr * N) :=
    match l with
    | [] => dis
    | (a, n) :: t => disable_list t (dis_insert (Glob (a - bias)) n dis)
    end.
  Definition disable_all (d : dbg) (p : phase) : dbg :=
    mk_dbg p [] (disable_list (d_en d) (d_dis d)) (d_num d) (d_wps d).

  Definition remove_addrs (l : list addr) (d : dbg) : dbg := fold_left dbg_remove l d.
  Definition remove_nums (l : list N) (d : dbg) : dbg := fold_left dbg_remove_num l d.
  (* `for record in prev { for number in record.numbers { remove_breakpoint_by_number(number) } }` *)
  Definition remove_records (rs : list brec) (d : dbg) : dbg :=
    fold_left (fun d r => remove_nums (r_nums r) d) rs d.


  (* handle_set_breakpoints loop (breakpoint.rs:240-305): every place is installed, only the
     FIRST view's address is kept in the record *)
  Fixpoint set_lines (src : N) (bps : list (N * opts)) (d : dbg) (id : N) : dbg * list brec :=
    match bps with
    | [] => (d, [])
    | (line, o) :: t =>
        let gs := resolve_line src line in
        let r := new_rec id (view_addrs d gs) (nums_from (d_num d) (length gs)) o in
        let '(d2, rs) := set_lines src t (add_places gs d) (id + 1) in
        (d2, r :: rs)
    end.

  (* handle_set_function_breakpoints loop (breakpoint.rs:370-459): all addresses kept *)
  Fixpoint set_fns (bps : list (option N * opts)) (d : dbg) (id : N) : dbg * list brec :=
    match bps with
    | [] => (d, [])
    | (name, o) :: t =>
        let gs := match name with Some f => resolve_fn f | None => [] end in
        let r := new_rec id (view_addrs d gs) (nums_from (d_num d) (length gs)) o in
        let '(d2, rs) := set_fns t (add_places gs d) (id + 1) in
        (d2, r :: rs)
    end.

  (* handle_set_instruction_breakpoints loop (breakpoint.rs:522-619) *)
  Fixpoint set_instrs (bps : list (option N * opts)) (d : dbg) (id : N) : dbg * list brec :=
    match bps with
    | [] => (d, [])
    | (ref, o) :: t =>
        let '(d1, addrs) := match ref with Some a => dbg_set_addr d a | None => (d, []) end in
        let '(d2, rs) := set_instrs t d1 (id + 1) in
        (d2, new_rec id addrs (match addrs with [] => [] | _ => [d_num d] end) o :: rs)
    end.

  (* set_watchpoint_on_memory (watchpoint.rs:772-783): ProcessNotStarted, AddressAlreadyObserved,
     four debug registers *)
  Definition dbg_set_wp (d : dbg) (a : N) : option dbg :=
    if in_progress d && wp_ok a && negb (existsb (N.eqb a) (d_wps d)) && (N.of_nat (length (d_wps d)) <? 4)
    then Some (mk_dbg (d_phase d) (d_en d) (d_dis d) (d_num d) (d_wps d ++ [a]))
    else None.
  (* WatchpointRegistry::remove_by_addr: the first watchpoint at that address *)
  Fixpoint remove_first (a : N) (l : list N) : list N :=
    match l with [] => [] | x :: t => if x =? a then t else x :: remove_first a t end.
  Definition dbg_remove_wp (d : dbg) (a : N) : dbg :=
    mk_dbg (d_phase d) (d_en d) (d_dis d) (d_num d) (remove_first a (d_wps d)).

  (* handle_set_data_breakpoints loop (breakpoint.rs:722-823): failed items get an id and an
     unverified answer but NO record *)
  Fixpoint set_datas (bps : list (option N)) (d : dbg) (id : N) (m : list (N * N))
    : dbg * list (N * N) * list (bool * N) :=
    match bps with
    | [] => (d, m, [])
    | b :: t =>
        match (match b with Some a => match dbg_set_wp d a with Some d1 => Some (a, d1) | None => None end | None => None end) with
        | Some (a, d1) =>
            let '(d2, m2, rsp) := set_datas t d1 (id + 1) ((a, id) :: filter (fun e => negb (fst e =? a)) m) in
            (d2, m2, (true, id) :: rsp)
        | None =>
            let '(d2, m2, rsp) := set_datas t d (id + 1) m in
            (d2, m2, (false, id) :: rsp)
        end
    end.

  (** ** Requests and responses *)
  Inductive req :=
  | SetSource (src : N) (bps : list (N * opts))        (* setBreakpoints: (line, options) *)
  | SetFunction (bps : list (option N * opts))          (* None = no "name" *)
  | SetInstruction (bps : list (option N * opts))       (* None = no / unparsable reference *)
  | SetData (bps : list (option N))                     (* None = no dataId / bad accessType / parse error *)
  | Start                                               (* configurationDone of a launch session *)
  | Restart                                             (* restart request *)
  | Exit                                                (* the debuggee exits (StopReason::DebugeeExit) *)
  | Hit (a : N) (cv : option bool).                     (* the tracer reports a user breakpoint at
                                                           relocated address a; cv = what evaluating the
                                                           owning record's condition yields now
                                                           (None = evaluation error) *)
  Inductive resp :=
  | RBps (l : list (bool * N))                          (* (verified, id) per requested breakpoint *)
  | RRun (ok : bool)                                    (* start / restart accepted *)
  | RHit (stopped : bool) (outputs : N)                 (* `stopped` event sent? number of `output` events *)
  | RNone.

  Definition rsp_of (rs : list brec) : list (bool * N) :=
    map (fun r => (match r_addrs r with [] => false | _ => true end, r_id r)) rs.

  Definition with_dbg (s : sess) (d : dbg) : sess :=
    mk_sess d (s_src s) (s_fn s) (s_ins s) (s_data s) (s_next s).

  Definition src_remove (src : N) (l : list (N * list brec)) : list (N * list brec) :=
    filter (fun e => negb (fst e =? src)) l.
  Definition src_get (src : N) (l : list (N * list brec)) : list brec :=
    match alist_get N.eqb l src with Some rs => rs | None => [] end.

  (** ** Hit bookkeeping (control.rs:94-138, 197-254) *)
  Definition rec_has (k : N) (r : brec) : bool := existsb (N.eqb k) (r_nums r).
  Definition bump (r : brec) : brec :=
    mk_rec (r_id r) (r_addrs r) (r_nums r) (r_cond r) (r_hit r) (r_log r)
           (if r_hits r =? u64_lim - 1 then r_hits r else r_hits r + 1).   (* saturating_add *)
  (* first record holding k gets its hit_count bumped; returns the bumped record *)
  Fixpoint bump_first (k : N) (rs : list brec) : option (list brec * brec) :=
    match rs with
    | [] => None
    | r :: t => if rec_has k r then Some (bump r :: t, bump r)
                else match bump_first k t with
                     | Some (t', b) => Some (r :: t', b)
                     | None => None
                     end
    end.
  Fixpoint bump_src (k : N) (l : list (N * list brec)) : option (list (N * list brec) * brec) :=
    match l with
    | [] => None
    | (src, rs) :: t =>
        match bump_first k rs with
        | Some (rs', b) => Some ((src, rs') :: t, b)
        | None => match bump_src k t with
                  | Some (t', b) => Some ((src, rs) :: t', b)
                  | None => None
                  end
        end
    end.
  (* record_breakpoint_hit: by_source maps first, then function, then instruction records *)
  Definition record_hit (s : sess) (k : N) : option (sess * brec) :=
    match bump_src k (s_src s) with
    | Some (l, b) => Some (mk_sess (s_dbg s) l (s_fn s) (s_ins s) (s_data s) (s_next s), b)
    | None =>
      match bump_first k (s_fn s) with
      | Some (l, b) => Some (mk_sess (s_dbg s) (s_src s) l (s_ins s) (s_data s) (s_next s), b)
      | None =>
        match bump_first k (s_ins s) with
        | Some (l, b) => Some (mk_sess (s_dbg s) (s_src s) (s_fn s) l (s_data s) (s_next s), b)
        | None => None
        end
      end
    end.

  (* should_skip_breakpoint after the record was found: (stopped, number of output events) *)
  Definition decide (b : brec) (cv : option bool) : bool * N :=
    match (if r_cond b then cv else Some true) with
    | Some false => (false, 0)                 (* condition false: silently continue *)
    | None => (true, 1)                        (* condition error: console output, stop *)
    | Some true =>
        let '(pass, o1) :=
          match r_hit b with
          | None => (true, 0)
          | Some (HInvalid _) => (true, 1)     (* "hitCondition invalid" output, then goes on *)
          | Some h => (hc_matches h (r_hits b), 0)
          end in
        if pass then (if r_log b then (false, o1 + 1) else (true, o1)) else (false, 0)
    end.

  Definition en_has (a : N) (l : list (N * N)) : bool := existsb (fun e => fst e =? a) l.

  Definition i64_max : N := 9223372036854775807.

  (** ** One request.  Panic 1 = `next_id += 1` overflows i64 (debug profile). *)
  Definition step (s : sess) (q : req) : res (sess * resp) :=
    let d := s_dbg s in
    match q with
    | SetSource src bps =>
        if i64_max <? s_next s + N.of_nat (length bps) then Panic 1 else
        let prev := src_get src (s_src s) in
        let d1 := remove_records prev d in
        let '(d2, rs) := set_lines src bps d1 (s_next s) in
        Ok (mk_sess d2 ((src, rs) :: src_remove src (s_src s)) (s_fn s) (s_ins s) (s_data s)
                    (s_next s + N.of_nat (length bps)), RBps (rsp_of rs))
    | SetFunction bps =>
        if i64_max <? s_next s + N.of_nat (length bps) then Panic 1 else
        let d1 := remove_records (s_fn s) d in
        let '(d2, rs) := set_fns bps d1 (s_next s) in
        Ok (mk_sess d2 (s_src s) rs (s_ins s) (s_data s) (s_next s + N.of_nat (length bps)),
            RBps (rsp_of rs))
    | SetInstruction bps =>
        if i64_max <? s_next s + N.of_nat (length bps) then Panic 1 else
        let d1 := remove_records (s_ins s) d in
        let '(d2, rs) := set_instrs bps d1 (s_next s) in
        Ok (mk_sess d2 (s_src s) (s_fn s) rs (s_data s) (s_next s + N.of_nat (length bps)),
            RBps (rsp_of rs))
    | SetData bps =>
        if i64_max <? s_next s + N.of_nat (length bps) then Panic 1 else
        let d1 := fold_left (fun d e => dbg_remove_wp d (fst e)) (s_data s) d in
        let '(d2, m, rsp) := set_datas bps d1 (s_next s) [] in
        Ok (mk_sess d2 (s_src s) (s_fn s) (s_ins s) m (s_next s + N.of_nat (length bps)), RBps rsp)
    | Start =>
        match d_phase d with
        | Unload => Ok (with_dbg s (enable_all d), RRun true)
        | _ => Ok (s, RRun false)                       (* Error::AlreadyRun *)
        end
    | Restart =>
        match d_phase d with
        | Unload => Ok (with_dbg s (enable_all d), RRun true)
        | InProgress => Ok (with_dbg s (enable_all (disable_all d Unload)), RRun true)
        | Exited => Ok (with_dbg s (enable_all d), RRun true)
        end
    | Exit =>
        match d_phase d with
        | InProgress => Ok (with_dbg s (disable_all d Exited), RNone)
        | _ => Ok (s, RNone)
        end
    | Hit a cv =>
        match (if in_progress d then alist_get N.eqb (d_en d) a else None) with
        | Some n =>
          match record_hit s n with
          | None => Ok (s, RHit true 0)                  (* no record: plain stop *)
          | Some (s', b) => let '(st, o) := decide b cv in Ok (s', RHit st o)
          end
        | None => Ok (s, RNone)
        end                               (* not a user breakpoint trap *)
    end.

  Fixpoint run (s : sess) (h : list req) : res (sess * list resp) :=
    match h with
    | [] => Ok (s, [])
    | q :: t =>
        x <- step s q ;;
        y <- run (fst x) t ;;
        Ok (fst y, snd x :: snd y)
    end.

  (** ** The registry as the client can observe it *)
  (* where the running program traps / will trap once started: relocated addresses *)
  Definition dis_loc (k : addr) : N := match k with Rel a => a | Glob g => bias + g end.
  Definition reg_locs (d : dbg) : list N := map fst (d_en d) ++ map (fun e => dis_loc (fst e)) (d_dis d).

  (* Debugger::breakpoints_snapshot: (number, kind (0 = Relocated, 1 = Global), address) *)
  Definition snapshot (d : dbg) : list (N * N * N) :=
    map (fun e => (snd e, 0, fst e)) (d_en d) ++
    map (fun e => (snd e, match fst e with Rel _ => 0 | Glob _ => 1 end,
                   match fst e with Rel a => a | Glob g => g end)) (d_dis d).

  (* --------------------------------------------------------------------- *)
  (** * Specification                                                       *)
  (* The abstract state is just "the latest request of each kind". *)
  Record spec_st := mk_spec {
    p_src : list (N * list (N * opts));
    p_fn : list (option N * opts);
    p_ins : list (option N * opts)
  }.
  Definition spec_init : spec_st := mk_spec [] [] [].
  Definition spec_step (p : spec_st) (q : req) : spec_st :=
    match q with
    | SetSource src bps =>
        mk_spec ((src, bps) :: filter (fun e => negb (fst e =? src)) (p_src p)) (p_fn p) (p_ins p)
    | SetFunction bps => mk_spec (p_src p) bps (p_ins p)
    | SetInstruction bps => mk_spec (p_src p) (p_fn p) bps
    | _ => p
    end.
  Definition spec_run (h : list req) : spec_st := fold_left spec_step h spec_init.

  (* all locations of one requested breakpoint, as relocated addresses *)
  Definition line_locs (src : N) (b : N * opts) : list N := map (N.add bias) (resolve_line src (fst b)).
  Definition fn_locs (b : option N * opts) : list N :=
    match fst b with Some f => map (N.add bias) (resolve_fn f) | None => [] end.
  Definition ins_locs (b : option N * opts) : list N :=
    match fst b with Some a => if valid a then [a] else [] | None => [] end.

  (* where the program must stop: the union over kinds of the locations of the latest sets *)
  Definition expected_locs (p : spec_st) : list N :=
    flat_map (fun e => flat_map (line_locs (fst e)) (snd e)) (p_src p)
    ++ flat_map fn_locs (p_fn p) ++ flat_map ins_locs (p_ins p).

  (* the option semantics of one requested breakpoint at its n-th hit *)
  Definition spec_stop (o : opts) (nth : N) (cv : option bool) : bool :=
    (if o_cond o then match cv with Some false => false | _ => true end else true)
    && match parse_hit_opt (o_hit o) with Some h => hc_matches h nth | None => true end
    && negb (o_log o).

  (* who owns a location: (kind, index of the requested breakpoint in its latest set, options).
     All places of one requested breakpoint share one hit counter. *)
  Inductive okind := KSrc (src : N) | KFn | KIns.
  Definition okind_eqb (x y : okind) : bool :=
    match x, y with
    | KSrc a, KSrc b => a =? b
    | KFn, KFn | KIns, KIns => true
    | _, _ => false
    end.
  Fixpoint index_from {A} (i : N) (l : list A) : list (N * A) :=
    match l with [] => [] | x :: t => (i, x) :: index_from (i + 1) t end.
  Definition owners (p : spec_st) : list (N * (okind * N * opts)) :=
    flat_map (fun e => flat_map (fun ib => map (fun a => (a, (KSrc (fst e), fst ib, snd (snd ib))))
                                             (line_locs (fst e) (snd ib))) (index_from 0 (snd e))) (p_src p)
    ++ flat_map (fun ib => map (fun a => (a, (KFn, fst ib, snd (snd ib)))) (fn_locs (snd ib))) (index_from 0 (p_fn p))
    ++ flat_map (fun ib => map (fun a => (a, (KIns, fst ib, snd (snd ib)))) (ins_locs (snd ib))) (index_from 0 (p_ins p)).
  Definition owner_of (p : spec_st) (a : N) : option (okind * N * opts) :=
    match find (fun e => fst e =? a) (owners p) with Some e => Some (snd e) | None => None end.
  (* does request q (re)create the records of kind k? *)
  Definition defines (k : okind) (q : req) : bool :=
    match k, q with
    | KSrc s, SetSource s' _ => s =? s'
    | KFn, SetFunction _ => true
    | KIns, SetInstruction _ => true
    | _, _ => false
    end.
  Definition owned_by (p : spec_st) (k : okind) (it : N) (b : N) : bool :=
    match owner_of p b with
    | Some (k', it', _) => okind_eqb k k' && (it =? it')
    | None => false
    end.
  (* number of Hit events at ANY place of requested breakpoint (k, it) since it was (re)created;
     [past] newest first *)
  Fixpoint hits_since (p : spec_st) (k : okind) (it : N) (past : list req) : N :=
    match past with
    | [] => 0
    | q :: t => if defines k q then 0
                else match q with
                     | Hit b _ => (if owned_by p k it b then 1 else 0) + hits_since p k it t
                     | _ => hits_since p k it t
                     end
    end.

  (* Executable comparison used by the guard and the case checker *)
  Definition subset (l1 l2 : list N) : bool := forallb (fun a => existsb (N.eqb a) l2) l1.
  Definition same_set (l1 l2 : list N) : bool := subset l1 l2 && subset l2 l1.
  Fixpoint nodupb (l : list N) : bool :=
    match l with [] => true | x :: t => negb (existsb (N.eqb x) t) && nodupb t end.

  Definition is_bp_set (q : req) : bool :=
    match q with SetSource _ _ | SetFunction _ | SetInstruction _ => true | _ => false end.

  (* how many debugger breakpoints a request can create (an upper bound) *)
  Definition cost (q : req) : N :=
    match q with
    | SetSource src bps => N.of_nat (length (flat_map (fun b => resolve_line src (fst b)) bps))
    | SetFunction bps => N.of_nat (length (flat_map (fun b => match fst b with Some f => resolve_fn f | None => [] end) bps))
    | SetInstruction bps => N.of_nat (length bps)
    | _ => 0
    end.
  (* instruction breakpoints requested while the debuggee is NOT running must be installable *)
  Definition ins_valid (ph : phase) (q : req) : bool :=
    match q with
    | SetInstruction bps =>
        phase_eqb ph InProgress
        || forallb (fun b => match fst b with Some a => valid a | None => true end) bps
    | _ => true
    end.
  Definition next_phase (q : req) (ph : phase) : phase :=
    match q, ph with
    | Start, Unload => InProgress
    | Restart, _ => InProgress
    | Exit, InProgress => Exited
    | _, _ => ph
    end.

  (* Guard of C13_replace.  The one substantial clause: after every breakpoint-setting request
     no location is shared by two requested breakpoints ([nodupb (expected_locs ..)]).  Two
     technical clauses: an instruction breakpoint requested while the debuggee is not running
     names an installable address (otherwise C13_instr_verified_refuted), and the process-wide
     breakpoint counter (AtomicU32, wrapping) does not wrap: n bounds the counter. *)
  Fixpoint guard_from (n : N) (ph : phase) (p : spec_st) (h : list req) : bool :=
    match h with
    | [] => true
    | q :: t =>
        let p' := spec_step p q in
        (if is_bp_set q
         then nodupb (expected_locs p') && ins_valid ph q && (n + cost q <? 4294967296)
         else true)
        && guard_from (n + cost q) (next_phase q ph) p' t
    end.
  Definition guard (num0 : N) (h : list req) : bool := guard_from num0 Unload spec_init h.

End Oracles.

(* ------------------------------------------------------------------------- *)
(** * Correspondence cases                                                     *)

(** (a) HitCondition unit case:
      (input bytes, hit count n, parse result of the real code, `matches` of the real code)
    parse result encoding: (tag, value): 0 Exact, 1 GreaterOrEqual, 2 Greater, 3 Less,
    4 LessOrEqual, 5 Invalid (value 0). *)
Definition hc_case : Type := (bstr * N * (N * N) * bool)%type.
Definition hc_code (h : hitcond) : N * N :=
  match h with
  | HExact n => (0, n) | HGe n => (1, n) | HGt n => (2, n) | HLt n => (3, n) | HLe n => (4, n)
  | HInvalid _ => (5, 0)
  end.
Definition pair_eqb (x y : N * N) : bool := (fst x =? fst y) && (snd x =? snd y).
(* spec side: the real [matches] answer equals the arithmetic meaning of the real parse *)
Definition hc_check (c : hc_case) : N :=
  let '(s, n, pr, m) := c in
  let h := hc_parse s in
  let model_ok := pair_eqb (hc_code h) pr && Bool.eqb (hc_matches h n) m in
  let spec_ok :=
    match fst pr with
    | 0 => Bool.eqb m (n =? snd pr) | 1 => Bool.eqb m (snd pr <=? n) | 2 => Bool.eqb m (snd pr <? n)
    | 3 => Bool.eqb m (n <? snd pr) | 4 => Bool.eqb m (n <=? snd pr) | _ => Bool.eqb m true
    end in
  verdict model_ok spec_ok.

(** (b) History case.
    Requests are given in a first-order form; the resolver's answers are tables inside the
    case:
      hc_lines : ((src, line), global addresses)   -- absent = no place
      hc_fns   : (name, global addresses)
      hc_valid : relocated addresses with a place (for instruction breakpoints)
      hc_wpok  : addresses a watchpoint can be armed at
      hc_bias  : load bias;  hc_num0 : number the next created breakpoint will get
      hc_steps : per request, what the real adapter did:
                   (request, response, snapshot after the request)
                 response as [resp]; snapshot = breakpoints_snapshot() as
                 (number, kind 0=Relocated/1=Global, address), any order. *)
Inductive creq :=
| CSetSource (src : N) (bps : list (N * opts))
| CSetFunction (bps : list (option N * opts))
| CSetInstruction (bps : list (option N * opts))
| CSetData (bps : list (option N))
| CStart | CRestart | CExit
| CHit (a : N) (cv : option bool).

Record hist_case := mk_hist_case {
  hc_lines : list ((N * N) * list N);
  hc_fns : list (N * list N);
  hc_valid : list N;
  hc_wpok : list N;
  hc_bias : N;
  hc_num0 : N;
  hc_steps : list (creq * resp * list (N * N * N))
}.

Definition nn_eqb (x y : N * N) : bool := (fst x =? fst y) && (snd x =? snd y).
Definition tbl_lines (c : hist_case) (src line : N) : list N :=
  match alist_get nn_eqb (hc_lines c) (src, line) with Some l => l | None => [] end.
Definition tbl_fns (c : hist_case) (f : N) : list N :=
  match alist_get N.eqb (hc_fns c) f with Some l => l | None => [] end.
Definition tbl_valid (c : hist_case) (a : N) : bool := existsb (N.eqb a) (hc_valid c).
Definition tbl_wpok (c : hist_case) (a : N) : bool := existsb (N.eqb a) (hc_wpok c).

Definition to_req (q : creq) : req :=
  match q with
  | CSetSource s b => SetSource s b | CSetFunction b => SetFunction b
  | CSetInstruction b => SetInstruction b | CSetData b => SetData b
  | CStart => Start | CRestart => Restart | CExit => Exit | CHit a cv => Hit a cv
  end.

Definition bn_eqb (x y : bool * N) : bool := Bool.eqb (fst x) (fst y) && (snd x =? snd y).
Definition resp_eqb (x y : resp) : bool :=
  match x, y with
  | RBps a, RBps b => list_eqb bn_eqb a b
  | RRun a, RRun b => Bool.eqb a b
  | RHit a m, RHit b n => Bool.eqb a b && (m =? n)
  | RNone, RNone => true
  | _, _ => false
  end.

(* snapshots are compared as sets of (kind, address) and as address lists ordered by
   number (creation order); the numbers themselves are compared too *)
Definition nnn_eqb (x y : N * N * N) : bool :=
  (fst (fst x) =? fst (fst y)) && (snd (fst x) =? snd (fst y)) && (snd x =? snd y).
Definition snap_sub (l1 l2 : list (N * N * N)) : bool := forallb (fun a => existsb (nnn_eqb a) l2) l1.
Definition snap_eqb (l1 l2 : list (N * N * N)) : bool :=
  snap_sub l1 l2 && snap_sub l2 l1 && (N.of_nat (length l1) =? N.of_nat (length l2)).
Definition snap_locs (bias : N) (l : list (N * N * N)) : list N :=
  map (fun e => match snd (fst e) with 0 => snd e | _ => bias + snd e end) l.

(* spec side of one step, judged on the REAL observations:
   - after a breakpoint-setting request the real snapshot's locations are exactly the expected
     locations of the latest sets, and `verified` is true exactly for the requested
     breakpoints that have at least one location;
   - a Hit at an expected location stops / logs according to the owner's options; the hit
     number is the count of Hit steps at ANY place of the owning requested breakpoint since
     the request that created it
     (counted across restarts, the lenient reading); a logpoint that passes its condition
     and hit condition emits at least one output and never stops;
   - a Hit at an address that no latest set contains violates the spec. *)
Section CaseCheck.
  Variable c : hist_case.
  Let rl := tbl_lines c.
  Let rf := tbl_fns c.
  Let va := tbl_valid c.
  Let wo := tbl_wpok c.
  Let bias := hc_bias c.

  Definition expected_verified (q : req) : option (list bool) :=
    match q with
    | SetSource src bps => Some (map (fun b => negb (match rl src (fst b) with [] => true | _ => false end)) bps)
    | SetFunction bps => Some (map (fun b => negb (match fn_locs rf bias b with [] => true | _ => false end)) bps)
    | SetInstruction bps => Some (map (fun b => negb (match ins_locs va bias b with [] => true | _ => false end)) bps)
    | _ => None
    end.

  (* walk the steps: model session, spec state, reversed past requests *)
  Fixpoint check_steps (s : res sess) (p : spec_st) (past : list req)
           (l : list (creq * resp * list (N * N * N))) : bool * bool :=
    match l with
    | [] => (true, true)
    | (cq, r, snap) :: t =>
        let q := to_req cq in
        let p' := spec_step p q in
        let ms := match s with Ok s0 => step rl rf va wo bias s0 q | _ => Err 0 end in
        let model_ok :=
          match ms with
          | Ok (s1, r1) => resp_eqb r1 r && snap_eqb (snapshot (s_dbg s1)) snap
          | _ => false
          end in
        let spec_ok :=
          match q, r with
          | (SetSource _ _ | SetFunction _ | SetInstruction _), RBps vs =>
              same_set (snap_locs bias snap) (expected_locs rl rf va bias p')
              && match expected_verified q with
                 | Some ev => list_eqb Bool.eqb ev (map fst vs)
                 | None => true
                 end
          | Hit a cv, RHit st outs =>
              match owner_of rl rf va bias p a with
              | Some (k, it, o) =>
                  let nth := hits_since rl rf va bias p k it past + 1 in
                  Bool.eqb st (spec_stop o nth cv)
                  && (if o_log o && spec_stop (mk_opts (o_cond o) (o_hit o) false) nth cv
                      then 1 <=? outs else true)
              | None => false                     (* trapped where no breakpoint is requested *)
              end
          | (Start | Restart | Exit), _ =>
              same_set (snap_locs bias snap) (expected_locs rl rf va bias p')
          | _, _ => true
          end in
        let '(m, sp) := check_steps (match ms with Ok (s1, _) => Ok s1 | Err e => Err e | Panic e => Panic e | OutOfFuel => OutOfFuel end)
                                    p' (q :: past) t in
        (model_ok && m, spec_ok && sp)
    end.

  Definition hist_check : N :=
    let '(m, sp) := check_steps (Ok (sess_init (hc_num0 c))) spec_init [] (hc_steps c) in
    verdict m sp.
End CaseCheck.
