(* C06 "Values shown are the values the program holds" - the self-contained byte-level decoders.

   Rust sources modelled (all under /repo/src/debugger):
     variable/value/parser.rs                     scalar_from_bytes, parse_scalar, parse_rust_enum
     variable/value/mod.rs:147                    ScalarValue::try_as_number
     debugee/dwarf/type.rs:583-597, 864-924, unit/die.rs:97-110  discr_value_in_tag_range, enum variant table,
                                                   Die::discr_value / discr_value_unsigned
     gimli-0.33.0 src/read/unit.rs:1825           AttributeValue::sdata_value
     variable/value/specialization/mod.rs         guard_len/guard_cap, parse_vector_inner, parse_vec_dequeue_inner
     variable/value/specialization/hashbrown.rs   BitMask, GroupReflection, BucketIterator
     variable/value/specialization/btree.rs       Handle, KVIterator

   No proofs in this file.  Memory of the stopped debuggee is immutable during one decoding, so a
   region that the debugger reads is given as the list of bytes found there ([read_bytes]); a read
   beyond the list is the ptrace error EIO. *)
From BS Require Import Model.Base.
Open Scope N_scope.

(* ------------------------------------------------------------------------------------------ *)
(* Constants taken from the Rust source (the translator regenerates this section)              *)
(* ------------------------------------------------------------------------------------------ *)
Definition LEN_GUARD : N := 10000.      (* specialization/mod.rs:40   const LEN_GUARD: i64 = 10_000 *)
Definition CAP_GUARD : N := 10000.      (* specialization/mod.rs:41   const CAP_GUARD: i64 = 10_000 *)
Definition GROUP_WIDTH : N := 16.       (* specialization/hashbrown.rs:41  GroupReflection::width() *)
Definition CTRL_SHIFT : N := 7.         (* specialization/hashbrown.rs:62  (b >> 7) << i *)
Definition BITMASK_ALL : N := 65535.    (* specialization/hashbrown.rs:13  self.0 ^ 0xffff_u16 *)
Definition BTREE_B : N := 6.            (* specialization/btree.rs:13  const B: usize = 6 *)
(* derived *)
Definition BTREE_EDGES : N := 2 * BTREE_B.        (* btree.rs:242  edges: [*const (); 2 * B] *)
Definition BTREE_CAPACITY : N := 2 * BTREE_B - 1. (* keys/vals arrays of std's LeafNode: [_; CAPACITY];
                                                     in the debugger: byte length of the DWARF members keys/vals *)
Definition CTRL_FULL_LIMIT : N := 2 ^ CTRL_SHIFT. (* a control byte is FULL iff it is < 0x80 *)
Definition USIZE_MAX : N := 2 ^ 64 - 1.
Definition EIO : N := 5.

(* Panic sites *)
Definition SITE_SCALAR_OOB : N := 601.   (* parser.rs:696 read_unaligned past the buffer: undefined behaviour, not a Rust panic *)
Definition SITE_VEC_MUL : N := 602.      (* mod.rs:232  len as usize * el_type_size overflows (debug profile) *)
Definition SITE_VD_MUL : N := 603.       (* mod.rs:779-780  data_ptr + range.start * el_type_size / range.len() * el_type_size
                                            overflows (debug profile) *)
Definition SITE_VD_SLICE : N := 604.     (* [before 1a591ca] &data[offset..(real_idx + 1) * el_type_size] out of range; unreachable now *)
Definition SITE_VD_ALLOC : N := 608.     (* debugger/mod.rs:1315 Vec::with_capacity(read_n), read_n > isize::MAX *)
Definition SITE_HB_BUCKETS : N := 605.   (* hashbrown.rs:126 bucket_mask + 1 overflows (debug profile) *)
Definition SITE_BT_SLICE : N := 606.     (* btree.rs:352/359 keys_raw[..]/vals_raw[..] out of range *)
Definition SITE_BT_EDGE : N := 607.      (* btree.rs:383/388/410 internal.edges[idx] out of range *)

(* ------------------------------------------------------------------------------------------ *)
(* Small helpers                                                                                *)
(* ------------------------------------------------------------------------------------------ *)
Fixpoint seqN (start : N) (n : nat) : list N :=
  match n with O => [] | S n' => start :: seqN (N.succ start) n' end.

Definition lenN {A} (l : list A) : N := N.of_nat (length l).

(* debugger::read_memory_by_pid (debugger/mod.rs:1314): exactly [n] bytes or an error *)
Definition read_bytes (mem : list N) (off n : N) : res (list N) :=
  if off + n <=? lenN mem then Ok (firstn (N.to_nat n) (skipn (N.to_nat off) mem)) else Err EIO.

(* Rust slice indexing data[lo..hi]: panics unless lo <= hi <= data.len() *)
Definition slice_bytes (site : N) (data : list N) (lo hi : N) : res (list N) :=
  if (lo <=? hi) && (hi <=? lenN data)
  then Ok (firstn (N.to_nat (hi - lo)) (skipn (N.to_nat lo) data))
  else Panic site.

(* the [el_size] bytes of element number [i] of a buffer *)
Definition elem_at (buf : list N) (el_size i : N) : list N :=
  firstn (N.to_nat el_size) (skipn (N.to_nat (i * el_size)) buf).

(* ------------------------------------------------------------------------------------------ *)
(* 1. Integers                                                                                  *)
(* ------------------------------------------------------------------------------------------ *)
(* little-endian value of a byte list *)
Fixpoint le_decode (bs : list N) : N :=
  match bs with [] => 0 | b :: t => b + 256 * le_decode t end.

(* parser.rs:694 scalar_from_bytes::<T>: read_unaligned of size_of::<T>() = [w] bytes from the start of
   the buffer, *without* a length check; a shorter buffer is an out-of-bounds read (UB). *)
Definition scalar_unsigned (w : nat) (bs : list N) : res N :=
  if Nat.ltb (length bs) w then Panic SITE_SCALAR_OOB else Ok (le_decode (firstn w bs)).

(* two's complement reinterpretation of a w-byte pattern *)
Definition to_signed (w : nat) (u : N) : Z :=
  if u <? 2 ^ (8 * N.of_nat w - 1) then Z.of_N u else (Z.of_N u - Z.of_N (2 ^ (8 * N.of_nat w)))%Z.

Definition scalar_signed (w : nat) (bs : list N) : res Z :=
  u <- scalar_unsigned w bs ;; Ok (to_signed w u).

(* parser.rs:102-143 : DW_ATE_signed / DW_ATE_unsigned selected by byte_size *)
Inductive scalar_view := SvNone | SvEmpty | SvInt (z : Z).

Definition int_width_ok (sz : N) : bool :=
  (sz =? 1) || (sz =? 2) || (sz =? 4) || (sz =? 8) || (sz =? 16).

Definition parse_int (signed : bool) (byte_size : N) (bytes : list N) : res scalar_view :=
  if byte_size =? 0 then Ok SvEmpty
  else if int_width_ok byte_size then
    if signed then z <- scalar_signed (N.to_nat byte_size) bytes ;; Ok (SvInt z)
    else u <- scalar_unsigned (N.to_nat byte_size) bytes ;; Ok (SvInt (Z.of_N u))
  else Ok SvNone.

(* specification: Rust's to_le_bytes *)
Fixpoint le_encode (w : nat) (v : N) : list N :=
  match w with O => [] | S w' => v mod 256 :: le_encode w' (v / 256) end.
Definition to_le_bytes_u (w : nat) (v : N) : list N := le_encode w v.
Definition to_le_bytes_s (w : nat) (z : Z) : list N :=
  le_encode w (Z.to_N (z mod Z.of_N (2 ^ (8 * N.of_nat w)))).

(* ------------------------------------------------------------------------------------------ *)
(* 2. Enum variant selection                                                                    *)
(* ------------------------------------------------------------------------------------------ *)
(* `as i64` *)
Definition wrap_i64 (z : Z) : Z :=
  let m := (z mod 2 ^ 64)%Z in if (m <? 2 ^ 63)%Z then m else (m - 2 ^ 64)%Z.

(* value/mod.rs:147 ScalarValue::try_as_number : I128/U128 (and non-integers) give None *)
Definition try_as_number (byte_size : N) (v : scalar_view) : option Z :=
  match v with
  | SvInt z => if byte_size =? 16 then None else Some (wrap_i64 z)
  | _ => None
  end.

(* the DWARF form of DW_AT_discr_value and gimli's AttributeValue::sdata_value.
   [raw] is the unsigned content of the fixed-size forms, the value itself for sdata/udata. *)
Inductive dw_form := FData1 | FData2 | FData4 | FData8 | FSdata | FUdata.
Definition sdata_value (f : dw_form) (raw : Z) : option Z :=
  match f with
  | FData1 => Some (to_signed 1 (Z.to_N raw))
  | FData2 => Some (to_signed 2 (Z.to_N raw))
  | FData4 => Some (to_signed 4 (Z.to_N raw))
  | FData8 => Some (to_signed 8 (Z.to_N raw))
  | FSdata => Some raw
  | FUdata => if (2 ^ 63 - 1 <? raw)%Z then None else Some raw
  end.

(* one DW_TAG_variant: its DW_AT_discr_value attribute (None = the default variant) and an id of the member *)
Definition variant_die : Type := (option (dw_form * Z) * N)%type.

(* type.rs:895-924 : (discriminant constant, member) pairs collected into a HashMap; a variant whose
   attribute does not convert gets the key None like the default variant *)
(* type.rs:583-597 (163122d) discr_value_in_tag_range: the constant is reduced modulo the size of the tag type and
   re-interpreted with the signedness of the tag type (tags of 8 bytes and unknown tags: unchanged) *)
Definition discr_in_tag_range (signed : bool) (byte_size : N) (z : Z) : Z :=
  if (byte_size =? 0) || (8 <=? byte_size) then z
  else
    let m := Z.to_N (z mod Z.of_N (2 ^ (8 * byte_size)))%Z in
    if signed then to_signed (N.to_nat byte_size) m else Z.of_N m.
(* gimli-0.33.0 read/unit.rs:1806 AttributeValue::udata_value (Die::discr_value_unsigned, unit/die.rs:107) *)
Definition udata_value (f : dw_form) (raw : Z) : option Z :=
  match f with
  | FSdata => if (raw <? 0)%Z then None else Some raw
  | _ => Some raw
  end.
(* type.rs:911-919 (17dfded): an unsigned tag takes the zero-extended bits of the form
   (discr_value_unsigned() as i64, falling back to discr_value()), a signed tag the constant
   sign-extended by the size of the form (discr_value() = sdata_value) *)
Definition discr_attr_value (signed : bool) (f : dw_form) (raw : Z) : option Z :=
  if signed then sdata_value f raw
  else match udata_value f raw with
       | Some u => Some (wrap_i64 u)
       | None => sdata_value f raw
       end.
Definition enum_key (signed : bool) (byte_size : N) (v : variant_die) : option Z :=
  match fst v with
  | None => None
  | Some (f, raw) => option_map (discr_in_tag_range signed byte_size) (discr_attr_value signed f raw)
  end.
Definition enum_table (signed : bool) (byte_size : N) (vs : list variant_die) : list (option Z * N) :=
  map (fun v => (enum_key signed byte_size v, snd v)) vs.

Definition okey_eqb (a b : option Z) : bool :=
  match a, b with
  | None, None => true
  | Some x, Some y => (x =? y)%Z
  | _, _ => false
  end.

(* HashMap::from_iter : a later pair with the same key replaces the earlier one *)
Fixpoint hm_get (k : option Z) (l : list (option Z * N)) : option N :=
  match l with
  | [] => None
  | (k', v) :: t => match hm_get k t with
                    | Some x => Some x
                    | None => if okey_eqb k k' then Some v else None
                    end
  end.

(* parser.rs:326-335 *)
Definition read_discr (signed : bool) (byte_size : N) (bytes : list N) : res (option Z) :=
  v <- parse_int signed byte_size bytes ;; Ok (try_as_number byte_size v).

Definition select_variant (tbl : list (option Z * N)) (discr : option Z) : option N :=
  match discr with
  | None => None
  | Some v => match hm_get (Some v) tbl with
              | Some m => Some m
              | None => hm_get None tbl
              end
  end.

Definition enum_decode (signed : bool) (byte_size : N) (vs : list variant_die) (bytes : list N) : res (option N) :=
  d <- read_discr signed byte_size bytes ;; Ok (select_variant (enum_table signed byte_size vs) d).

(* specification: the compiler's meaning of the variant part.  [ivs] = (discriminant the compiler
   assigned, as a number of the tag type; None for the default/dataful variant of a niche layout, id);
   [tag] = the value of the tag field in memory as a number of the tag type. *)
Fixpoint spec_find (tag : Z) (ivs : list (option Z * N)) : option N :=
  match ivs with
  | [] => None
  | (Some d, m) :: t => if (d =? tag)%Z then Some m else spec_find tag t
  | (None, _) :: t => spec_find tag t
  end.
Fixpoint spec_default (ivs : list (option Z * N)) : option N :=
  match ivs with
  | [] => None
  | (None, m) :: _ => Some m
  | _ :: t => spec_default t
  end.
Definition spec_variant (ivs : list (option Z * N)) (tag : Z) : option N :=
  match spec_find tag ivs with Some m => Some m | None => spec_default ivs end.

(* what the attribute of a variant is meant to say *)
Definition intended_value (signed : bool) (v : variant_die) : option Z :=
  match fst v with
  | None => None
  | Some (f, raw) =>
      (* LLVM DwarfUnit: unsigned tag type -> addUInt (the number itself, in the narrowest data form);
         signed tag type -> addSInt (two's complement in the narrowest data form that holds it as a
         signed number: -56 is DW_FORM_data1 0xc8 whatever the width of the tag; checked with rustc 1.89) *)
      if signed then sdata_value f raw else Some raw
  end.
Definition intended_table (signed : bool) (vs : list variant_die) : list (option Z * N) :=
  map (fun v => (intended_value signed v, snd v)) vs.

(* ------------------------------------------------------------------------------------------ *)
(* 3. Vec<T> / slices, String, &str : the length guard                                          *)
(* ------------------------------------------------------------------------------------------ *)
(* mod.rs:43-49 on the i64 view of a usize: a value >= 2^63 is negative and therefore not guarded *)
Definition guard_len (x : N) : N := if (x <? 2 ^ 63) && (LEN_GUARD <? x) then LEN_GUARD else x.
Definition guard_cap (x : N) : N := if (x <? 2 ^ 63) && (CAP_GUARD <? x) then CAP_GUARD else x.

(* mod.rs:206-259 parse_vector_inner.  [buf] = the bytes at data_ptr.  The result lists (index, element
   bytes).  raw_data has exactly len * el_size bytes, so chunks(el_size) yields exactly len chunks of
   el_size bytes (el_size <> 0); for a zero-sized element type len empty chunks are made. *)
Definition vec_decode (len_raw el_size : N) (buf : list N) : res (list (N * list N)) :=
  let len := guard_len len_raw in
  if 2 ^ 64 <=? len * el_size then Panic SITE_VEC_MUL else
  data <- read_bytes buf 0 (len * el_size) ;;
  Ok (map (fun i => (i, elem_at data el_size i)) (seqN 0 (N.to_nat len))).

(* specification: the len elements stored from data_ptr on *)
Definition vec_spec (len el_size : N) (buf : list N) : list (N * list N) :=
  map (fun i => (i, elem_at buf el_size i)) (seqN 0 (N.to_nat len)).

(* ------------------------------------------------------------------------------------------ *)
(* 4. VecDeque<T>                                                                               *)
(* ------------------------------------------------------------------------------------------ *)
Definition range_list (lo hi : N) : list N := seqN lo (N.to_nat (hi - lo)).

(* the two index ranges, mod.rs:756-771 at HEAD (1a591ca): the real capacity is the ring modulus;
   only len is guarded *)
Definition vd_cap (cap_raw el_size : N) : N := if el_size =? 0 then USIZE_MAX else cap_raw.
Definition vd_ranges (len_raw cap_raw head el_size : N) : (N * N) * (N * N) :=
  let len := guard_len len_raw in
  let cap := vd_cap cap_raw el_size in
  let wrapped_start := if cap =? 0 then 0 else head mod cap in
  let head_len := cap - wrapped_start in
  if len <=? head_len
  then ((wrapped_start, wrapped_start + len), (0, 0))
  else ((wrapped_start, cap), (0, len - head_len)).
Definition vd_indices (len_raw cap_raw head el_size : N) : list N :=
  let '((a, b), (c, d)) := vd_ranges len_raw cap_raw head el_size in
  range_list a b ++ range_list c d.

(* mod.rs:776-783 read_range: read_memory_by_pid(pid, data_ptr + range.start * el_type_size,
   range.len() * el_type_size).  usize arithmetic is overflow-checked in the debug profile; a request of
   more than isize::MAX bytes panics in Vec::with_capacity (debugger/mod.rs:1315, "capacity overflow").
   [buf] = the bytes at data_ptr. *)
Definition vd_read_range (data_ptr : N) (buf : list N) (el_size : N) (r : N * N) : res (list N) :=
  let '(a, b) := r in
  if 2 ^ 64 <=? a * el_size then Panic SITE_VD_MUL
  else if 2 ^ 64 <=? data_ptr + a * el_size then Panic SITE_VD_MUL
  else if 2 ^ 64 <=? (b - a) * el_size then Panic SITE_VD_MUL
  else if 2 ^ 63 <=? (b - a) * el_size then Panic SITE_VD_ALLOC
  else read_bytes buf (a * el_size) ((b - a) * el_size).

(* mod.rs:735-805 parse_vec_dequeue_inner at HEAD: the two occupied ranges are read separately and every
   element is sliced out of its own range (data[offset..offset + el_type_size] with
   offset = (real_idx - range.start) * el_type_size is always inside the range just read).
   Result: (slot index in the ring, element bytes) in display order. *)
Definition vecdeque_decode_at (data_ptr len_raw cap_raw head el_size : N) (buf : list N)
  : res (list (N * list N)) :=
  let '((a, b), (c, d)) := vd_ranges len_raw cap_raw head el_size in
  d0 <- vd_read_range data_ptr buf el_size (a, b) ;;
  d1 <- vd_read_range data_ptr buf el_size (c, d) ;;
  Ok (map (fun i => (i, elem_at d0 el_size (i - a))) (range_list a b) ++
      map (fun i => (i, elem_at d1 el_size (i - c))) (range_list c d)).

(* the correspondence cases give the buffer relative to its own start *)
Definition vecdeque_decode : N -> N -> N -> N -> list N -> res (list (N * list N)) := vecdeque_decode_at 0.

(* specification: the len elements starting at head in the ring of cap slots.  For a zero-sized element
   type VecDeque::capacity() is usize::MAX. *)
Definition vd_logical_cap (cap_raw el_size : N) : N := if el_size =? 0 then USIZE_MAX else cap_raw.
Definition vd_spec_indices (len cap head : N) : list N :=
  map (fun i => (head + i) mod cap) (seqN 0 (N.to_nat len)).
Definition vecdeque_spec (len cap_raw head el_size : N) (buf : list N) : list (N * list N) :=
  map (fun i => (i, elem_at buf el_size i)) (vd_spec_indices len (vd_logical_cap cap_raw el_size) head).

(* a state std's VecDeque can be in *)
Definition vd_valid (len cap_raw head el_size : N) : Prop :=
  let cap := vd_logical_cap cap_raw el_size in
  len <= cap /\ (head < cap \/ (cap = 0 /\ head = 0)) /\ cap <= USIZE_MAX.
Definition vd_validb (len cap_raw head el_size : N) : bool :=
  let cap := vd_logical_cap cap_raw el_size in
  (len <=? cap) && ((head <? cap) || ((cap =? 0) && (head =? 0))) && (cap <=? USIZE_MAX).

(* ------------------------------------------------------------------------------------------ *)
(* 5. hashbrown (HashMap / HashSet)                                                             *)
(* ------------------------------------------------------------------------------------------ *)
(* hashbrown.rs:57-67 match_empty_or_deleted: for (i, b) in enumerate: result |= (b >> 7) << i *)
Fixpoint med_loop (i : N) (g : list N) (result : N) : N :=
  match g with
  | [] => result
  | b :: t => med_loop (i + 1) t (N.lor result (N.shiftl (N.shiftr b CTRL_SHIFT) i))
  end.
Definition match_empty_or_deleted (g : list N) : N := med_loop 0 g 0.

(* hashbrown.rs:12-14 *)
Definition bm_invert (m : N) : N := N.lxor m BITMASK_ALL.

(* u16::trailing_zeros *)
Fixpoint pos_ctz (p : positive) : N :=
  match p with xO p' => 1 + pos_ctz p' | _ => 0 end.
Definition trailing_zeros (m : N) : N := match m with N0 => 16 | Npos p => pos_ctz p end.

(* hashbrown.rs:20-26, 16-18 *)
Definition lowest_set_bit (m : N) : option N := if m =? 0 then None else Some (trailing_zeros m).
Definition remove_lowest_bit (m : N) : N := N.land m (m - 1).

(* hashbrown.rs:45-53 : 16 bytes at ctrl + off *)
Definition load_group (ctrl : list N) (off : N) : res (list N) := read_bytes ctrl off GROUP_WIDTH.

Definition full_mask (g : list N) : N := bm_invert (match_empty_or_deleted g).

(* hashbrown.rs:159-178 BucketIterator::next, iterated until Ok(None) (FallibleIterator::collect).
   Pointers are offsets relative to the control pointer: [data] <= 0, [next_ctrl] >= 0.  A yielded
   bucket is reported by BucketReflection::location() = ptr - size.  One unit of fuel per loop turn. *)
Fixpoint hb_run (fuel : nat) (ctrl : list N) (size end_ : N) (data : Z) (cur next_ctrl : N) (acc : list Z)
  : res (list Z) :=
  match fuel with
  | O => OutOfFuel
  | S f =>
      match lowest_set_bit cur with
      | Some index =>
          hb_run f ctrl size end_ data (remove_lowest_bit cur) next_ctrl
                 (acc ++ [(data - Z.of_N (index * size) - Z.of_N size)%Z])
      | None =>
          if end_ <=? next_ctrl then Ok acc
          else
            g <- load_group ctrl next_ctrl ;;
            hb_run f ctrl size end_ (data - Z.of_N (GROUP_WIDTH * size))%Z (full_mask g)
                   (next_ctrl + GROUP_WIDTH) acc
      end
  end.

(* hashbrown.rs:129-143 HashmapReflection::iter followed by collect *)
Definition hb_collect (fuel : nat) (ctrl : list N) (bucket_mask size : N) : res (list Z) :=
  g0 <- load_group ctrl 0 ;;
  if bucket_mask =? USIZE_MAX then Panic SITE_HB_BUCKETS else
  hb_run fuel ctrl size (bucket_mask + 1) 0%Z (full_mask g0) GROUP_WIDTH [].

Definition hb_fuel (bucket_mask : N) : nat :=
  N.to_nat (bucket_mask + 1 + (bucket_mask + 1) / GROUP_WIDTH + GROUP_WIDTH + 2).

(* specification: the set of full buckets {i < buckets | ctrl[i] < 0x80}; bucket i lives at
   ctrl - (i + 1) * size (hashbrown Bucket::from_base_index + as_ptr). *)
Definition ctrl_at (ctrl : list N) (i : N) : N := nth (N.to_nat i) ctrl 255.
Definition is_full (ctrl : list N) (i : N) : bool := ctrl_at ctrl i <? CTRL_FULL_LIMIT.
Definition full_buckets (ctrl : list N) (buckets : N) : list N :=
  filter (is_full ctrl) (seqN 0 (N.to_nat buckets)).
Definition bucket_loc (size i : N) : Z := (- Z.of_N ((i + 1) * size))%Z.
Definition hb_spec (ctrl : list N) (bucket_mask size : N) : list Z :=
  map (bucket_loc size) (full_buckets ctrl (bucket_mask + 1)).

(* hashbrown's layout invariant for the control bytes: buckets + GROUP_WIDTH bytes are allocated, and in
   a table with fewer buckets than a group the bytes between buckets and GROUP_WIDTH are always EMPTY
   (0xFF); only bytes GROUP_WIDTH.. mirror the first ones (RawTableInner::set_ctrl). *)
Definition padded (buckets : N) : N := (buckets + GROUP_WIDTH - 1) / GROUP_WIDTH * GROUP_WIDTH.
Definition hb_layout (ctrl : list N) (buckets : N) : Prop :=
  Forall (fun b => b < 256) ctrl /\
  padded buckets <= lenN ctrl /\
  forall i, buckets <= i -> i < padded buckets -> is_full ctrl i = false.
Definition hb_layoutb (ctrl : list N) (buckets : N) : bool :=
  forallb (fun b => b <? 256) ctrl &&
  (padded buckets <=? lenN ctrl) &&
  forallb (fun i => negb (is_full ctrl i)) (seqN buckets (N.to_nat (padded buckets - buckets))).

(* ------------------------------------------------------------------------------------------ *)
(* 6. B-tree (BTreeMap / BTreeSet)                                                              *)
(* ------------------------------------------------------------------------------------------ *)
(* a node as Leaf::from_bytes / Internal::from_markup see it.  bn_parent = 0 is Option::None (null
   pointer niche).  bn_edges: the 2*B words after the leaf part (meaningful for internal nodes only).
   bn_keys: the keys array (used only by the correspondence checker). *)
Record bnode := mkNode { bn_parent : N; bn_parent_idx : N; bn_len : N; bn_edges : list N; bn_keys : list N }.
Definition bheap : Type := list (N * bnode).

(* btree.rs:471-495 make_node: a failed read is ParsingError::ReadDebugeeMemory *)
Definition make_node (heap : bheap) (ptr : N) : res bnode :=
  match alist_get N.eqb heap ptr with Some n => Ok n | None => Err EIO end.

(* internal.edges[idx] on a [_; 2*B] array *)
Definition edge (n : bnode) (idx : N) : res N :=
  if idx <? BTREE_EDGES then
    match nth_error (bn_edges n) (N.to_nat idx) with Some e => Ok e | None => Panic SITE_BT_EDGE end
  else Panic SITE_BT_EDGE.

(* btree.rs:400-416 first_leaf_edge and the inner loop of next_leaf_edge (385-389): every node on the
   way, the leaf included, is read; the loop is bounded by the height counter *)
Fixpoint first_leaf (heap : bheap) (h : nat) (ptr : N) : res N :=
  n <- make_node heap ptr ;;
  match h with
  | O => Ok ptr
  | S h' => e <- edge n 0 ;; first_leaf heap h' e
  end.

(* btree.rs:345-367 Handle::data: the two slices *)
Definition kv_slices_ok (k_size v_size idx : N) : bool :=
  (k_size * (idx + 1) <=? k_size * BTREE_CAPACITY) && (v_size * (idx + 1) <=? v_size * BTREE_CAPACITY).

(* Leaf::from_bytes since the repair of the slice panic: `len: len.min(2 * B - 1)` - a len field above the capacity
   (memory that is not a node) no longer indexes the key / value arrays out of range *)
Definition eff_len (n : bnode) : N := N.min (bn_len n) BTREE_CAPACITY.

(* btree.rs:528-558 KVIterator::next iterated until Ok(None).  A handle is (node pointer, height, idx);
   the node content is re-read from the (unchanged) memory.  Yields (node pointer, idx) slots.
   One unit of fuel per turn of the `loop` in next(). *)
Fixpoint bt_run (fuel : nat) (heap : bheap) (k_size v_size : N) (ptr : N) (h : nat) (idx : N)
                (acc : list (N * N)) : res (list (N * N)) :=
  match fuel with
  | O => OutOfFuel
  | S f =>
      n <- make_node heap ptr ;;
      if idx <? eff_len n then
        if kv_slices_ok k_size v_size idx then
          match h with
          | O => bt_run f heap k_size v_size ptr O (idx + 1) (acc ++ [(ptr, idx)])
          | S h' =>
              e <- edge n (idx + 1) ;;
              l <- first_leaf heap h' e ;;
              bt_run f heap k_size v_size l O 0 (acc ++ [(ptr, idx)])
          end
        else Panic SITE_BT_SLICE
      else if bn_parent n =? 0 then Ok acc
      else bt_run f heap k_size v_size (bn_parent n) (S h) (bn_parent_idx n) acc
  end.

Definition bt_collect (fuel : nat) (heap : bheap) (k_size v_size root : N) (root_h : nat) : res (list (N * N)) :=
  l <- first_leaf heap root_h root ;;
  bt_run fuel heap k_size v_size l O 0 [].

(* specification: an abstract B-tree and its in-order slot list *)
Inductive tree :=
| TLeaf (addr : N) (len : nat)
| TInt (addr : N) (first : tree) (rest : list tree).   (* len = length rest; children first :: rest *)

Definition taddr (t : tree) : N := match t with TLeaf a _ => a | TInt a _ _ => a end.

Definition flat_rest (fl : tree -> list (N * N)) (a : N) : N -> list tree -> list (N * N) :=
  fix fr (i : N) (ks : list tree) : list (N * N) :=
    match ks with
    | [] => []
    | k :: ks' => (a, i) :: fl k ++ fr (i + 1) ks'
    end.

Fixpoint flatten (t : tree) : list (N * N) :=
  match t with
  | TLeaf a len => map (fun i => (a, i)) (seqN 0 len)
  | TInt a k0 rest => flatten k0 ++ flat_rest flatten a 0 rest
  end.

Definition size_rest (sz : tree -> nat) : list tree -> nat :=
  fix sr (ks : list tree) : nat := match ks with [] => O | k :: ks' => S (sz k + sr ks') end.

(* number of key-value pairs + number of nodes = turns of the loop *)
Fixpoint tree_size (t : tree) : nat :=
  match t with
  | TLeaf _ len => S len
  | TInt _ k0 rest => S (tree_size k0 + size_rest tree_size rest)
  end.

Fixpoint leftmost (t : tree) : N :=
  match t with TLeaf a _ => a | TInt _ k0 _ => leftmost k0 end.

(* the heap holds tree [t] of height [h] whose root has parent pointer [parent] and parent_idx [pidx] *)
Fixpoint repr (heap : bheap) (h : nat) (t : tree) (parent pidx : N) : Prop :=
  match h, t with
  | O, TLeaf a len =>
      exists n, alist_get N.eqb heap a = Some n /\
        bn_parent n = parent /\ (parent <> 0 -> bn_parent_idx n = pidx) /\
        bn_len n = N.of_nat len /\ bn_len n <= BTREE_CAPACITY
  | S h', TInt a k0 rest =>
      exists n, alist_get N.eqb heap a = Some n /\ a <> 0 /\
        bn_parent n = parent /\ (parent <> 0 -> bn_parent_idx n = pidx) /\
        bn_len n = N.of_nat (length rest) /\ bn_len n <= BTREE_CAPACITY /\
        forall i k, nth_error (k0 :: rest) i = Some k ->
          nth_error (bn_edges n) i = Some (taddr k) /\ repr heap h' k a (N.of_nat i)
  | _, _ => False
  end.

(* ------------------------------------------------------------------------------------------ *)
(* 7. Correspondence cases                                                                      *)
(* ------------------------------------------------------------------------------------------ *)
Definition res_eqb {A} (eqb : A -> A -> bool) (r : res A) (x : A) : bool :=
  match r with Ok a => eqb a x | _ => false end.

(* integers: (signed, byte_size, bytes fetched, number shown) *)
Definition int_case : Type := (bool * N * list N * Z)%type.
Definition int_check (c : int_case) : N :=
  let '(signed, sz, bytes, got) := c in
  verdict
    (match parse_int signed sz bytes with Ok (SvInt z) => (z =? got)%Z | _ => false end)
    (list_eqb N.eqb (firstn (N.to_nat sz) bytes)
       (if signed then to_le_bytes_s (N.to_nat sz) got else to_le_bytes_u (N.to_nat sz) (Z.to_N got))).

(* enum: (tag signed, tag byte_size, variant DIEs in DWARF order, bytes of the tag field,
          id of the variant the program holds, id of the variant shown (None = no value shown)) *)
Definition enum_case : Type := (bool * N * list variant_die * list N * N * option N)%type.
Definition on_eqb (a b : option N) : bool :=
  match a, b with None, None => true | Some x, Some y => x =? y | _, _ => false end.
Definition enum_check (c : enum_case) : N :=
  let '(signed, sz, vs, bytes, truth, got) := c in
  verdict (res_eqb on_eqb (enum_decode signed sz vs bytes) got) (on_eqb got (Some truth)).

(* Vec: (len field, element size, bytes at data_ptr (at least len*el_size of them),
         element indices shown = (item address - data_ptr) / el_size, or 0..n-1 for a ZST) *)
Definition vec_case : Type := (N * N * list N * list N)%type.
Definition vec_check (c : vec_case) : N :=
  let '(len, el, buf, got) := c in
  verdict (res_eqb (list_eqb N.eqb) (r <- vec_decode len el buf ;; Ok (map fst r)) got)
          (list_eqb N.eqb got (seqN 0 (N.to_nat len))).

(* VecDeque: (len, cap, head fields, element size, bytes at the buffer pointer (cap*el_size of them),
              ring slots shown in display order = (item address - buffer pointer) / el_size;
              for a ZST: 0 repeated once per item shown) *)
Definition vd_case : Type := (N * N * N * N * list N * list N)%type.
Definition vd_check (c : vd_case) : N :=
  let '(len, cap, head, el, buf, got) := c in
  verdict
    (if el =? 0 then res_eqb N.eqb (r <- vecdeque_decode len cap head el buf ;; Ok (lenN r)) (lenN got)
     else res_eqb (list_eqb N.eqb) (r <- vecdeque_decode len cap head el buf ;; Ok (map fst r)) got)
    (if el =? 0 then lenN got =? len
     else list_eqb N.eqb got (vd_spec_indices len cap head)).

(* hashbrown: (bucket_mask, size of (K,V), number of items (table.items), control bytes from the control
   pointer on (buckets + GROUP_WIDTH of them), BucketReflection::location() - control pointer of each
   bucket yielded, in order) *)
Definition hb_case : Type := (N * N * N * list N * list Z)%type.
Fixpoint countZ (x : Z) (l : list Z) : nat :=
  match l with [] => O | y :: t => if (x =? y)%Z then S (countZ x t) else countZ x t end.
Definition perm_eqbZ (a b : list Z) : bool :=
  Nat.eqb (length a) (length b) && forallb (fun x => Nat.eqb (countZ x a) (countZ x b)) a.
Definition hb_check (c : hb_case) : N :=
  let '(mask, size, items, ctrl, got) := c in
  verdict (res_eqb (list_eqb Z.eqb) (hb_collect (hb_fuel mask) ctrl mask size) got)
          ((lenN got =? items) &&
           (if size =? 0 then true else perm_eqbZ got (hb_spec ctrl mask size))).

(* B-tree: (node heap: (address, node) for every node of the map, root pointer, root height, key size,
   value size, the sorted keys the program holds, the keys shown in order).  Keys are <= 8 bytes wide and
   given as numbers; bn_keys of a node are its BTREE_CAPACITY key slots. *)
Definition bt_case : Type := (bheap * N * N * N * N * list N * list N)%type.
Definition slot_key (heap : bheap) (s : N * N) : N :=
  match alist_get N.eqb heap (fst s) with
  | Some n => nth (N.to_nat (snd s)) (bn_keys n) 0
  | None => 0
  end.
Definition bt_fuel_heap (heap : bheap) : nat :=
  fold_right (fun e acc => (S (N.to_nat (bn_len (snd e))) + acc)%nat) 1%nat heap.
Definition bt_check (c : bt_case) : N :=
  let '(heap, root, root_h, ks, vs, truth, got) := c in
  verdict
    (res_eqb (list_eqb N.eqb)
       (r <- bt_collect (bt_fuel_heap heap) heap ks vs root (N.to_nat root_h) ;; Ok (map (slot_key heap) r)) got)
    (list_eqb N.eqb got truth).
