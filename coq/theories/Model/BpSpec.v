(* Specification-level replay of a breakpoint history against the native instruction trace
   (C01 / C02 e2e leg).  No model of the debugger here: only what the user must observe. *)
From BS Require Import Model.Base.
Open Scope N_scope.

Inductive bev :=
| BAdd (a : N)                           (* a user breakpoint now exists at a (re-adding is idempotent) *)
| BRemove (a : N)
| BRun (stop : option N)                 (* start / continue; observed: Some pc = breakpoint stop, None = exit *)
| BObs (bps : list N) (patched : list N) (running : bool).   (* debugger's list; text bytes differing from the file *)

(* trace, addresses the debugger may patch for itself in the program's text (the ELF entry point), events *)
Definition bp_case : Type := (list N * list N * list bev)%type.

Definition mem_n (a : N) (l : list N) : bool := existsb (N.eqb a) l.
Definition set_eqb (a b : list N) : bool := forallb (fun x => mem_n x b) a && forallb (fun x => mem_n x a) b.

(* next position > i (or >= 0 when nothing ran yet) whose address is in the set *)
Fixpoint next_hit (tr : list N) (set : list N) : option (N * list N) :=
  match tr with
  | [] => None
  | a :: rest => if mem_n a set then Some (a, rest) else next_hit rest set
  end.

Record bstate := mk_b { b_rest : list N;      (* trace still to be executed; head = instruction at the current pc if stopped there *)
                        b_at : bool;          (* stopped at head (it has not executed yet) *)
                        b_set : list N; b_ok : bool; b_done : bool }.

Definition bstep (internal : list N) (s : bstate) (e : bev) : bstate :=
  match e with
  | BAdd a => mk_b (b_rest s) (b_at s) (if mem_n a (b_set s) then b_set s else a :: b_set s) (b_ok s) (b_done s)
  | BRemove a => mk_b (b_rest s) (b_at s) (filter (fun x => negb (x =? a)) (b_set s)) (b_ok s) (b_done s)
  | BRun stop =>
      let rest := if b_at s then tl (b_rest s) else b_rest s in
      match next_hit rest (b_set s), stop with
      | Some (a, r), Some pc => mk_b (a :: r) true (b_set s) (b_ok s && (a =? pc) && negb (b_done s)) false
      | None, None => mk_b [] false (b_set s) (b_ok s && negb (b_done s)) true
      | _, _ => mk_b [] false (b_set s) false true
      end
  | BObs bps patched running =>
      mk_b (b_rest s) (b_at s) (b_set s)
           (b_ok s && set_eqb bps (b_set s)
            && (if running then forallb (fun x => mem_n x patched) (b_set s)
                             && forallb (fun x => mem_n x (b_set s) || mem_n x internal) patched else match patched with [] => true | _ => false end))
           (b_done s)
  end.

Definition bp_check (c : bp_case) : N :=
  let '(tr, internal, evs) := c in
  let s := fold_left (bstep internal) evs (mk_b tr false [] true false) in
  verdict (b_ok s) (b_ok s).
