(* Model of src/debugger/register.rs RegisterMap / DwarfRegisterMap over the tables the
   translator read from the source (Gen/Regs.v).  A RegisterMap is the list of its u64
   fields in declaration order. *)
From BS Require Import Model.Base Gen.Regs.
Open Scope N_scope.

Definition regmap := list N.

Fixpoint set_nth_n (l : list N) (i : nat) (v : N) : list N :=
  match l, i with
  | [], _ => []
  | _ :: t, O => v :: t
  | x :: t, S k => x :: set_nth_n t k v
  end.

Definition rm_value (m : regmap) (r : reg) : N := nth (value_field r) m 0.
Definition rm_update (m : regmap) (r : reg) (v : N) : regmap := set_nth_n m (update_field r) v.

(* From<user_regs_struct> and back: user_regs_struct is modelled as the list of the same
   fields by name index *)
Definition rm_from_user (u : list N) : regmap :=
  fold_left (fun m p => set_nth_n m (fst p) (nth (snd p) u 0)) from_user (repeat 0 n_fields).
Definition rm_to_user (m : regmap) : list N :=
  fold_left (fun u p => set_nth_n u (fst p) (nth (snd p) m 0)) to_user (repeat 0 n_fields).

(* Vec::insert(idx, x): shifts the tail right *)
Fixpoint insert_at {A} (l : list A) (i : nat) (x : A) : list A :=
  match i, l with
  | O, _ => x :: l
  | S k, y :: t => y :: insert_at t k x
  | S _, [] => [x]       (* smallvec would panic: index > len; never reached from a 128-slot vector *)
  end.

Definition dwarf_map_of (m : regmap) : list (option N) :=
  fold_left (fun v p => insert_at v (fst p) (Some (nth (snd p) m 0))) dwarf_inserts (repeat None DWARF_MAP_CAP).

(* DwarfRegisterMap::value *)
Definition dm_value (d : list (option N)) (n : N) : option N :=
  match nth_error d (N.to_nat n) with Some (Some v) => Some v | _ => None end.
