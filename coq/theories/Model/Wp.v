(* Model of src/debugger/watchpoint.rs: HardwareBreakpoint enable/disable, the
   watchpoint registry, distribution of the last seen state to new threads, companion
   breakpoints of scoped expression watchpoints.  ptrace reads/writes of the debug
   registers are assumed to succeed (threads are stopped when these run). *)
From BS Require Import Model.Base Gen.Dr Model.Dr.
Open Scope N_scope.

Record hw := mk_hw { h_regs : list N; h_dr6 : N; h_dr7 : N }.
Definition hw_zero : hw := mk_hw [0; 0; 0; 0] 0 0.

Record wp := mk_wp {
  w_num : N; w_addr : N; w_size : N; w_cond : N;     (* size / cond as DR7 encodings *)
  w_reg : option N;                                   (* HardwareBreakpoint.register *)
  w_companion : option N                              (* companion breakpoint number *)
}.

(* the part of the breakpoint registry watchpoints touch: companion breakpoints
   (address, number, watchpoint numbers) *)
Definition comp := (N * N * list N)%type.

Record st := mk_st {
  threads : list (N * hw);       (* (tid, debug registers); the main thread is the head *)
  wps : list wp;
  last_seen : option hw;
  wp_counter : N;                (* GLOBAL_WP_COUNTER *)
  bp_counter : N;                (* GLOBAL_BP_COUNTER *)
  comps : list comp
}.

Definition st_init (main_tid : N) : st := mk_st [(main_tid, hw_zero)] [] None 1 1 [].

Definition main_hw (s : st) : hw := match threads s with (_, h) :: _ => h | [] => hw_zero end.

Fixpoint set_nth (l : list N) (i : nat) (v : N) : list N :=
  match l, i with
  | [], _ => []
  | _ :: t, O => v :: t
  | x :: t, S k => x :: set_nth t k v
  end.

Definition sync_all (s : st) (h : hw) : st :=
  mk_st (map (fun th => (fst th, h)) (threads s)) (wps s) (last_seen s) (wp_counter s) (bp_counter s) (comps s).

Definition free_register (d7 : N) : option N :=
  find (fun r => negb (dr_enabled d7 r false)) [0; 1; 2; 3].

(* HardwareBreakpoint::enable: Err 1 = WatchpointLimitReached *)
Definition hw_enable (s : st) (addr size cond : N) : res (st * hw * N) :=
  let cur := main_hw s in
  match free_register (h_dr7 cur) with
  | None => Err 1
  | Some r =>
      let d7 := set_dr (configure_bp (h_dr7 cur) r cond size) r false true in
      let h := mk_hw (set_nth (h_regs cur) (N.to_nat r) addr) (h_dr6 cur) d7 in
      Ok (sync_all s h, h, r)
  end.

(* HardwareBreakpoint::disable; Panic 2 = `self.register.expect("should exist")` *)
Definition hw_disable (s : st) (reg : option N) : res (st * hw) :=
  let cur := main_hw s in
  match reg with
  | None => Panic 2
  | Some r =>
      (* the freed slot is left neutral: address 0, write, 1 byte *)
      let d7 := configure_bp (set_dr (h_dr7 cur) r false false) r COND_DataWrites SIZE_Bytes1 in
      let h := mk_hw (set_nth (h_regs cur) (N.to_nat r) 0) (h_dr6 cur) d7 in
      Ok (sync_all s h, h)
  end.

Definition already_observed (s : st) (addr : N) : bool :=
  let cur := main_hw s in
  existsb (fun r => dr_enabled (h_dr7 cur) r false && (nth (N.to_nat r) (h_regs cur) 0 =? addr)) [0; 1; 2; 3].

Definition with_wps (s : st) (w : list wp) (ls : option hw) (c : N) : st :=
  mk_st (threads s) w ls c (bp_counter s) (comps s).

(* Watchpoint::from_raw_addr + registry add.  Err 2 = AddressAlreadyObserved *)
Definition add_addr (s : st) (addr size cond : N) : res st :=
  if already_observed s addr then Err 2 else
  r <- hw_enable s addr size cond ;;
  let '(s1, h, reg) := r in
  Ok (with_wps s1 (wps s1 ++ [mk_wp (wp_counter s1) addr size cond (Some reg) None]) (Some h) (wp_counter s1 + 1)).

(* Breakpoint::new_watchpoint_companion + add_and_enable *)
Definition add_companion (s : st) (at_addr wp_num : N) : st * N :=
  match find (fun c => fst (fst c) =? at_addr) (comps s) with
  | Some (a, n, nums) =>
      (mk_st (threads s) (wps s) (last_seen s) (wp_counter s) (bp_counter s)
             ((a, n, nums ++ [wp_num]) :: filter (fun c => negb (fst (fst c) =? at_addr)) (comps s)), n)
  | None =>
      (mk_st (threads s) (wps s) (last_seen s) (wp_counter s) (bp_counter s + 1)
             ((at_addr, bp_counter s, [wp_num]) :: comps s), bp_counter s)
  end.

(* BreakpointRegistry::decrease_companion_rc *)
Definition comp_num (c : comp) : N := snd (fst c).
Definition decrease_rc (s : st) (bp_num wp_num : N) : st :=
  match find (fun c => comp_num c =? bp_num) (comps s) with
  | None => s
  | Some (a, n, nums) =>
      let others := filter (fun c => negb (comp_num c =? bp_num)) (comps s) in
      let cs := if (match nums with [x] => x =? wp_num | _ => false end)
                then others                                                   (* remove_by_num *)
                else (a, n, filter (fun x => negb (x =? wp_num)) nums) :: others in
      mk_st (threads s) (wps s) (last_seen s) (wp_counter s) (bp_counter s) cs
  end.

(* Watchpoint::from_dqe for an expression whose address, size and scope end are given:
   the companion breakpoint is installed before the hardware register is taken; when
   the register cannot be taken the companion reference is dropped again. *)
Definition add_expr_prepare (s : st) (scope_end : option N) : st * option N :=
  match scope_end with
  | Some e => let '(s', n) := add_companion s e (wp_counter s) in (s', Some n)
  | None => (s, None)
  end.
Definition add_expr_rollback (s0 : st) (companion : option N) : st :=
  match companion with Some b => decrease_rc s0 b (wp_counter s0) | None => s0 end.
Definition add_expr (s : st) (addr size cond : N) (scope_end : option N) : res st :=
  if already_observed s addr then Err 2 else
  let '(s0, companion) := add_expr_prepare s scope_end in
  match hw_enable s0 addr size cond with
  | Ok (s1, h, reg) =>
      Ok (with_wps s1 (wps s1 ++ [mk_wp (wp_counter s1) addr size cond (Some reg) companion]) (Some h) (wp_counter s1 + 1))
  | Err e => Err e
  | Panic p => Panic p
  | OutOfFuel => OutOfFuel
  end.
(* the state a failing add_expr leaves behind (the caller only sees the error) *)
Definition add_expr_state_on_error (s : st) (addr size cond : N) (scope_end : option N) : st :=
  if already_observed s addr then s else
  let '(s0, companion) := add_expr_prepare s scope_end in add_expr_rollback s0 companion.

(* WatchpointRegistry::remove(idx) *)
Definition remove_at (s : st) (i : nat) : res st :=
  match nth_error (wps s) i with
  | None => Panic 3
  | Some w =>
      let s0 := with_wps s (firstn i (wps s) ++ skipn (S i) (wps s)) (last_seen s) (wp_counter s) in
      r <- hw_disable s0 (w_reg w) ;;
      let '(s1, h) := r in
      let s2 := match w_companion w with Some b => decrease_rc s1 b (w_num w) | None => s1 end in
      Ok (with_wps s2 (wps s2) (Some h) (wp_counter s2))
  end.

Fixpoint position {A} (p : A -> bool) (l : list A) : option nat :=
  match l with
  | [] => None
  | x :: t => if p x then Some O else option_map S (position p t)
  end.

Definition remove_by_num (s : st) (n : N) : res st :=
  match position (fun w => w_num w =? n) (wps s) with None => Ok s | Some i => remove_at s i end.
Definition remove_by_addr (s : st) (a : N) : res st :=
  match position (fun w => w_addr w =? a) (wps s) with None => Ok s | Some i => remove_at s i end.

(* a thread appears: the kernel gives it cleared debug registers, then
   distribute_to_tracee copies the last seen state *)
Definition new_thread (s : st) (tid : N) : st :=
  let h := match last_seen s with Some h => h | None => hw_zero end in
  mk_st (threads s ++ [(tid, h)]) (wps s) (last_seen s) (wp_counter s) (bp_counter s) (comps s).

Definition exit_thread (s : st) (tid : N) : st :=
  match threads s with
  | [] => s
  | m :: rest => mk_st (m :: filter (fun th => negb (fst th =? tid)) rest) (wps s) (last_seen s)
                       (wp_counter s) (bp_counter s) (comps s)
  end.

Inductive wop :=
| WAddAddr (addr size cond : N)
| WAddExpr (addr size cond : N) (scope_end : option N)
| WRemoveNum (n : N)
| WRemoveAddr (a : N)
| WNewThread (tid : N)
| WExitThread (tid : N).

(* one command; a refused command leaves the registry as the code leaves it *)
Definition wstep (s : st) (o : wop) : st * N :=    (* N: 0 ok, otherwise 10+err / 100+panic site *)
  let fin (r : res st) (on_err : st) : st * N :=
    match r with Ok s' => (s', 0) | Err e => (on_err, 10 + e) | Panic p => (on_err, 100 + p) | OutOfFuel => (on_err, 99) end in
  match o with
  | WAddAddr a sz c => fin (add_addr s a sz c) s
  | WAddExpr a sz c e => fin (add_expr s a sz c e) (add_expr_state_on_error s a sz c e)
  | WRemoveNum n => fin (remove_by_num s n) s
  | WRemoveAddr a => fin (remove_by_addr s a) s
  | WNewThread t => (new_thread s t, 0)
  | WExitThread t => (exit_thread s t, 0)
  end.

Definition wrun (ops : list wop) (s : st) : st := fold_left (fun s o => fst (wstep s o)) ops s.

(* the active set, slot by slot, as the registry sees it *)
Definition has_reg (r : N) (w : wp) : bool := match w_reg w with Some r' => r' =? r | None => false end.
Definition active_slot (s : st) (r : N) : option (N * N * N) :=
  match find (has_reg r) (wps s) with
  | Some w => Some (w_addr w, w_cond w, w_size w)
  | None => None
  end.

(* what a thread's image says for slot r, read with the debugger's own accessors *)
Definition slot_view (h : hw) (r : N) : option (N * N * N) :=
  if dr_enabled (h_dr7 h) r false
  then Some (nth (N.to_nat r) (h_regs h) 0, cond_bits (h_dr7 h) r, size_bits (h_dr7 h) r)
  else None.
