(* C09 - correspondence cases of the leg c09-e2e.

   One case = one debugging history of a generated multi-threaded debuggee under the real
   debugger, recorded by the harness:
     - what the user did (continue / stepi / next / step-out / focus) and what was reported,
     - the ordered event log of the tracer for every operation (verification hooks in
       tracer.rs / tracee.rs / breakpoint.rs / debugee/mod.rs): every waitpid answer the
       tracer consumed, every ptrace request it issued (with the ESRCH answers), every
       breakpoint byte it patched, the entry and exit of Tracer::resume / Tracer::single_step,
     - the harness' own observation of the world at every reported stop: scheduler state, CPU
       time and pc of every task of the debuggee, twice (a few milliseconds apart), the
       debugger's thread list, the tracer's thread table, the debuggee's own arrival counters
       read from its memory.

   (a) [spec_*]: the C09 statement evaluated on the observations (verdict 2).
   (b) [model_*]: the tracer model of Model/Tracer.v driven by the same operations over a
       REPLAY WORLD built from the event log: waitpid answers are popped from the log, every
       request the model issues is compared with the recorded one (verdict 1).

   No proofs in this file. *)
From BS Require Import Model.Base Gen.Tracer Model.Tracer.
Open Scope N_scope.

(* ------------------------------------------------------------------------------------- *)
(* 1. The event log and the replay world                                                   *)
(* ------------------------------------------------------------------------------------- *)

Inductive tev :=
| EW (target : option tid) (s : wstatus)      (* waitpid(target or -1) returned s *)
| EWErr (target : option tid) (errno : N)     (* waitpid failed (10 = ECHILD) *)
| EQ (r : preq) (ok : bool)                   (* ptrace request / breakpoint byte patch; false = ESRCH *)
| EBegin (single : option tid) (bps : list bp)  (* Tracer::resume (None) / Tracer::single_step (Some pid) entered; tcx.breakpoints *)
| EEnd (ok : bool) (stop : option stop_reason). (* ... returned *)

(* Events of different threads commute for the tracer (TraceeCtl keeps its tracees in a
   HashMap: the order in which cont_stopped / group_stop_interrupt visit them is unspecified
   and not recorded), events of ONE thread do not.  So every event has a key; the replay world
   hands out / compares the FIRST unconsumed event of a key:
     KT x  - requests to thread x and wait answers about thread x (whatever the target was),
     KBp   - breakpoint byte patches,
     KAny  - a failed waitpid(-1). *)
Inductive ekey := KT (x : tid) | KBp | KAny.
Definition ekey_eqb (a b : ekey) : bool :=
  match a, b with KT x, KT y => x =? y | KBp, KBp => true | KAny, KAny => true | _, _ => false end.
Definition req_key (r : preq) : ekey :=
  match r with
  | PCont x _ | PStep x _ | PSyscall x | PInterrupt x | PSetPc x _ => KT x
  | PBpDisable _ | PBpEnable _ => KBp
  end.
Definition ev_key (e : tev) : option ekey :=
  match e with
  | EW _ s => Some (KT (ws_tid s))
  | EWErr (Some x) _ => Some (KT x)
  | EWErr None _ => Some KAny
  | EQ r _ => Some (req_key r)
  | EBegin _ _ | EEnd _ _ => None
  end.
Definition is_marker (e : tev) : bool := match e with EBegin _ _ | EEnd _ _ => true | _ => false end.

(* first event with key k: (index, event, the list without it) *)
Fixpoint take_key (k : ekey) (i : N) (l : list tev) : option (N * tev * list tev) :=
  match l with
  | [] => None
  | e :: r =>
      if match ev_key e with Some k' => ekey_eqb k k' | None => false end then Some (i, e, r)
      else match take_key k (i + 1) r with Some (j, e', r') => Some (j, e', e :: r') | None => None end
  end.
(* first answer of a waitpid(-1) *)
Fixpoint take_anywait (i : N) (l : list tev) : option (N * tev * list tev) :=
  match l with
  | [] => None
  | e :: r =>
      if match e with EW None _ | EWErr None _ => true | _ => false end then Some (i, e, r)
      else match take_anywait (i + 1) r with Some (j, e', r') => Some (j, e', e :: r') | None => None end
  end.

(* p_dev: 0 = the model has done exactly what was recorded so far;
   1 = a request differs from the recorded next request of that thread, 2 = a request where
   the real run has none left for that thread *)
Record pworld := mkP { p_log : list tev; p_pcs : list (tid * N); p_dev : N }.

Definition opt_tid_eq (a b : option tid) : bool :=
  match a, b with Some x, Some y => x =? y | None, None => true | _, _ => false end.

(* error codes of a replayed wait: 10 ECHILD (as in the model), 1 another waitpid error,
   99 the model waits where the real run did not, 98 the model waits for something else
   than the real run did at this point of that thread's history *)
Definition pw_wait (w : pworld) (target : option tid) : res (wstatus * pworld) :=
  let found :=
    match target with
    | Some x => take_key (KT x) 0 (p_log w)
    | None => take_anywait 0 (p_log w)
    end in
  match found with
  | None => Err 99
  | Some (i, EW tg s, rest) =>
      if negb (opt_tid_eq tg target) then Err 98 else
      (* the answer must be the next event in the history of the thread it is about *)
      match take_key (KT (ws_tid s)) 0 (p_log w) with
      | Some (j, _, _) =>
          if i =? j then
            let pcs := match s with WStopped x _ _ pc => (x, pc) :: p_pcs w | _ => p_pcs w end in
            Ok (s, mkP rest pcs (p_dev w))
          else Err 98
      | None => Err 98
      end
  | Some (_, EWErr tg e, rest) =>
      if negb (opt_tid_eq tg target) then Err 98 else
      if e =? 10 then Err 10 else Err 1
  | Some _ => Err 98
  end.

Definition pw_req (w : pworld) (r : preq) : bool * pworld :=
  let pcs := match r with PSetPc x pc => (x, pc) :: p_pcs w | _ => p_pcs w end in
  match take_key (req_key r) 0 (p_log w) with
  | Some (_, EQ r' ok, rest) =>
      if preq_eqb r r' then (ok, mkP rest pcs (p_dev w))
      else (true, mkP (p_log w) pcs (if p_dev w =? 0 then 1 else p_dev w))
  | _ => (true, mkP (p_log w) pcs (if p_dev w =? 0 then 2 else p_dev w))
  end.

Definition pw_pc (w : pworld) (x : tid) : N := match alist_get N.eqb (p_pcs w) x with Some p => p | None => 0 end.

(* everything recorded has been consumed and nothing else was asked for *)
Definition pw_clean (w : pworld) : bool :=
  (p_dev w =? 0) && forallb is_marker (p_log w).

Definition PFUEL : nat := 6000.

Definition p_resume := resume STEP_QUIET_DEQUEUES pworld pw_wait pw_req pw_pc PFUEL.
Definition p_sstep := sstep STEP_QUIET_DEQUEUES pworld pw_wait pw_req pw_pc PFUEL.
Definition p_api_step := api_step STEP_QUIET_DEQUEUES pworld pw_wait pw_req pw_pc PFUEL.

(* ------------------------------------------------------------------------------------- *)
(* 2. The case                                                                             *)
(* ------------------------------------------------------------------------------------- *)

(* /proc/<pid>/task/<tid>/stat and .../syscall of one task *)
Record task := mkTask {
  tk_tid : tid;
  tk_state : N;       (* the state letter: 116 't' tracing stop, 90 'Z', 88 'X', 82 'R', 83 'S', 68 'D', 84 'T' *)
  tk_cpu : N;         (* utime + stime, clock ticks *)
  tk_pc : N }.        (* user-space pc; 0 = "running" *)

Record obs := mkObs {
  ob_tasks1 : list task;                 (* read right after the operation returned *)
  ob_tasks2 : list task;                 (* read again a few milliseconds later *)
  ob_dbg : list tid;                     (* Debugger::thread_state() *)
  ob_table : list (tid * tstatus);       (* the tracer's thread table (TraceeCtl::snapshot) *)
  ob_cnt : list (tid * (N * N)) }.       (* the debuggee's own counters (hit_a, hit_b) per thread, read from its memory;
                                            after the exit: the counters it printed *)

Inductive opk := KCont | KStepi | KNext | KOut | KFocus.

Record hop := mkOp {
  o_kind : opk;
  o_focus : tid;                         (* thread in focus before the operation *)
  o_bps : list bp;                       (* BreakpointRegistry::active_breakpoints() before it *)
  o_en_a : bool; o_en_b : bool;          (* the user's breakpoint in hit_a / hit_b is set during the operation *)
  o_evs : list tev;                      (* the tracer's event log of the operation *)
  o_ok : bool;                           (* the API call returned Ok *)
  o_stop : option stop_reason;           (* what it reported (continue: the StopReason; steps: a signal stop seen by the hooks) *)
  o_reports : list (tid * N);            (* user breakpoint reports of the operation (thread, address) *)
  o_focus_after : tid;
  o_obs : obs }.

Record c09_case := mkCase {
  c_proc : tid;
  c_bp_a : N; c_bp_b : N;                (* addresses of the user's breakpoints (0: not used) *)
  c_init : obs;                          (* the world before the first operation (one thread, stopped) *)
  c_ops : list hop;
  c_expect : list (tid * (N * N));       (* planned number of calls of hit_a / hit_b per thread *)
  c_end : N }.                           (* 0 the exit was reported; 1 an operation failed; 2 hang (watchdog); 3 panic / crash; 4 output missing *)

(* ------------------------------------------------------------------------------------- *)
(* 3. (b) model replay                                                                     *)
(* ------------------------------------------------------------------------------------- *)

Definition pcs_of (o : obs) : list (tid * N) := map (fun k => (tk_tid k, tk_pc k)) (ob_tasks2 o).

Record seg := mkSeg { sg_single : option tid; sg_bps : list bp; sg_evs : list tev; sg_end : option (bool * option stop_reason) }.
Fixpoint segs_go (l : list tev) (cur : option seg) (acc : list seg) : list seg :=
  match l with
  | [] => rev (match cur with Some c => c :: acc | None => acc end)
  | EBegin s b :: r => segs_go r (Some (mkSeg s b [] None)) (match cur with Some c => c :: acc | None => acc end)
  | EEnd ok st :: r =>
      match cur with
      | Some c => segs_go r None (mkSeg (sg_single c) (sg_bps c) (sg_evs c) (Some (ok, st)) :: acc)
      | None => segs_go r None acc
      end
  | e :: r =>
      match cur with
      | Some c => segs_go r (Some (mkSeg (sg_single c) (sg_bps c) (sg_evs c ++ [e]) None)) acc
      | None => segs_go r None acc          (* Debugger-level patches between two tracer calls *)
      end
  end.
Definition segs (l : list tev) : list seg := segs_go l None [].

(* one call of Tracer::resume / Tracer::single_step; returns the tracer afterwards (None:
   the call failed in the model, the caller re-reads the table), the pcs, agreement *)
Definition seg_model (t : tracer) (pcs : list (tid * N)) (s : seg) : option tracer * list (tid * N) * bool :=
  let w0 := mkP (sg_evs s) pcs 0 in
  let real_failed := match sg_end s with Some (true, _) => false | _ => true end in
  match sg_single s with
  | None =>
      match p_resume (sg_bps s) t w0 with
      | Ok (t1, w1, sr) =>
          (Some t1, p_pcs w1,
           pw_clean w1 && match sg_end s with Some (true, Some sr') => sr_eqb sr sr' | _ => false end)
      | OutOfFuel => (None, pcs, false)
      | _ => (None, pcs, real_failed)
      end
  | Some p =>
      match p_sstep (sg_bps s) t w0 p with
      | Ok (t1, w1, sr) =>
          (Some t1, p_pcs w1,
           pw_clean w1 && match sg_end s with Some (true, sr') => osr_eqb sr sr' | _ => false end)
      | OutOfFuel => (None, pcs, false)
      | _ => (None, pcs, real_failed)
      end
  end.

Fixpoint segs_model (t : tracer) (pcs : list (tid * N)) (ss : list seg) : option tracer * bool :=
  match ss with
  | [] => (Some t, true)
  | s :: r =>
      match seg_model t pcs s with
      | (Some t1, pcs1, ok) => let '(t2, ok2) := segs_model t1 pcs1 r in (t2, ok && ok2)
      | (None, _, ok) => (None, ok && match r with [] => true | _ => false end)
      end
  end.

Definition resync (t : tracer) (table : list (tid * tstatus)) : tracer := mkT (t_proc t) table (t_queue t) false.

(* one operation: the model's tracer before it, the pcs of all threads before it *)
Definition op_model (t : tracer) (pcs : list (tid * N)) (o : hop) : tracer * bool :=
  let table := ob_table (o_obs o) in
  let api (op : api_op) :=
    let d := mkD t (o_focus o) (match alist_get N.eqb pcs (o_focus o) with Some p => p | None => 0 end) in
    let w0 := mkP (filter (fun e => negb (is_marker e)) (o_evs o)) pcs 0 in
    match p_api_step (o_bps o) d w0 op with
    | Ok (d1, w1, sr) =>
        (* the same operation once more, call by call (Tracer::resume / Tracer::single_step as
           entered from Debugee, with the breakpoint table each call was given) *)
        let calls_ok := match segs_model t pcs (segs (o_evs o)) with
                        | (Some t1, ok) => ok && threads_eqb (t_threads t1) table
                        | (None, _) => false end in
        let ok := o_ok o && pw_clean w1 && osr_eqb sr (o_stop o)
                  && threads_eqb (t_threads (d_tr d1)) table && (d_focus d1 =? o_focus_after o) && calls_ok in
        (if ok then d_tr d1 else resync (d_tr d1) table, ok)
    | OutOfFuel => (resync t table, false)
    | _ => (resync t table, negb (o_ok o))
    end in
  match o_kind o with
  | KCont => api OCont
  | KStepi => api OStepi
  | KNext | KOut =>
      match segs_model t pcs (segs (o_evs o)) with
      | (Some t1, ok) =>
          let ok := ok && threads_eqb (t_threads t1) table in
          (if ok then t1 else resync t1 table, ok)
      | (None, ok) => (resync t table, ok && negb (o_ok o))
      end
  | KFocus => (t, forallb is_marker (o_evs o) && threads_eqb (t_threads t) table)
  end.

Fixpoint ops_model (t : tracer) (pcs : list (tid * N)) (ops : list hop) : bool :=
  match ops with
  | [] => true
  | o :: r => let '(t1, ok) := op_model t pcs o in ok && ops_model t1 (pcs_of (o_obs o)) r
  end.

Definition model_ok (c : c09_case) : bool :=
  ops_model (mkT (c_proc c) (ob_table (c_init c)) [] false) (pcs_of (c_init c)) (c_ops c).

(* index of the first operation on which model and run part (for the triage), None = agree *)
Fixpoint ops_model_first (t : tracer) (pcs : list (tid * N)) (ops : list hop) (i : N) : option N :=
  match ops with
  | [] => None
  | o :: r => let '(t1, ok) := op_model t pcs o in
              if ok then ops_model_first t1 (pcs_of (o_obs o)) r (i + 1) else Some i
  end.
Definition model_first (c : c09_case) : option N :=
  ops_model_first (mkT (c_proc c) (ob_table (c_init c)) [] false) (pcs_of (c_init c)) (c_ops c) 0.

(* ------------------------------------------------------------------------------------- *)
(* 4. (a) the C09 statement on the observations                                            *)
(* ------------------------------------------------------------------------------------- *)

Definition ST_t := 116.  Definition ST_Z := 90.  Definition ST_X := 88.

(* threads whose PTRACE_EVENT_EXIT the tracer has consumed: they have executed their last user
   instruction, the kernel lets them die as soon as they are resumed; between that resume and
   the zombie state /proc shows them running (in the kernel) *)
Definition exits_of (evs : list tev) : list tid :=
  filter_map (fun e => match e with EW _ (WEvent x EvExit) => Some x | _ => None end) evs.

Definition dead (exiting : list tid) (k : task) : bool :=
  (tk_state k =? ST_Z) || (tk_state k =? ST_X) || mem (tk_tid k) exiting.
Definition live (exiting : list tid) (l : list task) : list task := filter (fun k => negb (dead exiting k)) l.

Definition find_task (l : list task) (x : tid) : option task := find (fun k => tk_tid k =? x) l.

(* all-stop at a reported stop: every live task is in a tracing stop, now and a few
   milliseconds later, has not used any CPU time and has not moved in between; the debugger's
   thread list and the tracer's table are the kernel's list of live tasks; no entry of the
   table says "running" *)
Definition spec_all_stop_obs (exiting : list tid) (o : obs) : bool :=
  let l1 := live exiting (ob_tasks1 o) in
  let l2 := live exiting (ob_tasks2 o) in
  forallb (fun k => tk_state k =? ST_t) l1
  && forallb (fun k => tk_state k =? ST_t) l2
  && forallb (fun k => match find_task (ob_tasks2 o) (tk_tid k) with
                       | Some k2 => (tk_state k2 =? ST_t) && (tk_cpu k2 =? tk_cpu k) && (tk_pc k2 =? tk_pc k)
                       | None => false end) l1
  && same_set (map tk_tid l1) (map tk_tid l2)
  && same_set (ob_dbg o) (map tk_tid l1)
  && same_set (map fst (ob_table o)) (map tk_tid l1)
  && forallb (fun p => is_stopped (Some (snd p))) (ob_table o).

(* exactly-once.  owed (x, a) = reports of (x, a) so far - times x has passed a (its counter):
   0, or 1 while x stands on the breakpoint it was reported at.  While the user's breakpoint is
   not set, passing it unreported is right and a report of it is wrong; a breakpoint the user
   sets again later is a new breakpoint (a thread still standing on the address owes nothing
   and may be reported by the new one). *)
Definition zget (l : list ((tid * N) * Z)) (k : tid * N) : Z :=
  match find (fun p => pair_eqb (fst p) k) l with Some p => snd p | None => 0%Z end.
Definition zset (l : list ((tid * N) * Z)) (k : tid * N) (v : Z) : list ((tid * N) * Z) :=
  (k, v) :: filter (fun p => negb (pair_eqb (fst p) k)) l.
Definition cnt_get (l : list (tid * (N * N))) (x : tid) : N * N :=
  match alist_get N.eqb l x with Some p => p | None => (0, 0) end.
Definition nreports (l : list (tid * N)) (k : tid * N) : Z := Z.of_nat (count k l).

(* one (thread, breakpoint): new owed and whether it is legal *)
Definition owed_step (enabled : bool) (owed : Z) (reports : Z) (before after : N) : Z * bool :=
  let v := (owed + reports - (Z.of_N after - Z.of_N before))%Z in
  if enabled then (v, (0 <=? v)%Z && (v <=? 1)%Z)
  else (0%Z, (reports =? 0)%Z).

Definition tids_of (a b : list (tid * (N * N))) : list tid := nodup N.eq_dec (map fst a ++ map fst b).

Fixpoint spec_once_go (bpa bpb : N) (owed : list ((tid * N) * Z)) (before : list (tid * (N * N))) (ops : list hop) : bool :=
  match ops with
  | [] => forallb (fun p => (snd p =? 0)%Z) owed
  | o :: r =>
      let after := ob_cnt (o_obs o) in
      (* a thread that is gone keeps its last counters *)
      let after := after ++ filter (fun p => negb (mem (fst p) (map fst after))) before in
      let step (acc : list ((tid * N) * Z) * bool) (x : tid) :=
        let '(ow, ok) := acc in
        let '(ba, bb) := cnt_get before x in
        let '(aa, ab) := cnt_get after x in
        let '(va, oka) := owed_step (o_en_a o) (zget ow (x, bpa)) (nreports (o_reports o) (x, bpa)) ba aa in
        let ow := zset ow (x, bpa) va in
        if bpb =? 0 then (ow, ok && oka) else
        let '(vb, okb) := owed_step (o_en_b o) (zget ow (x, bpb)) (nreports (o_reports o) (x, bpb)) bb ab in
        (zset ow (x, bpb) vb, ok && oka && okb) in
      let '(owed', ok) := fold_left step (tids_of before after) (owed, true) in
      (* a report names one of the user's breakpoints *)
      ok && forallb (fun p => (snd p =? bpa) || ((snd p =? bpb) && negb (bpb =? 0))) (o_reports o)
         && spec_once_go bpa bpb owed' after r
  end.

(* no original instruction skipped or executed twice: every thread counted exactly its
   planned number of calls *)
Definition spec_counts (c : c09_case) : bool :=
  match rev (c_ops c) with
  | last :: _ =>
      let fin := ob_cnt (o_obs last) in
      Nat.eqb (length fin) (length (c_expect c))
      && forallb (fun p => match alist_get N.eqb fin (fst p) with
                           | Some q => pair_eqb q (snd p) | None => false end) (c_expect c)
  | [] => false
  end.

Definition is_exit (o : option stop_reason) : bool := match o with Some (SRExit _) => true | _ => false end.

Fixpoint spec_stops_go (exiting : list tid) (ops : list hop) : bool :=
  match ops with
  | [] => true
  | o :: r =>
      let exiting := exits_of (o_evs o) ++ exiting in
      (is_exit (o_stop o) || negb (o_ok o) || spec_all_stop_obs exiting (o_obs o))
      && spec_stops_go exiting r
  end.

Definition spec_all_stop_case (c : c09_case) : bool := spec_all_stop_obs [] (c_init c) && spec_stops_go [] (c_ops c).
Definition spec_once_case (c : c09_case) : bool := spec_once_go (c_bp_a c) (c_bp_b c) [] (ob_cnt (c_init c)) (c_ops c).
Definition spec_end_case (c : c09_case) : bool :=
  (c_end c =? 0) && match rev (c_ops c) with last :: _ => is_exit (o_stop last) | [] => false end.

Definition spec_ok (c : c09_case) : bool :=
  spec_end_case c && spec_all_stop_case c && spec_once_case c && spec_counts c.

Definition c09_check (c : c09_case) : N := verdict (model_ok c) (spec_ok c).

(* for the triage: which parts hold *)
Definition c09_diag (c : c09_case) :=
  (model_first c, spec_end_case c, spec_all_stop_case c, spec_once_case c, spec_counts c).
