(* Model of src/debugger/debugee/dwarf/utils.rs : PathSearchIndex<T>
   (the index behind function templates `a::b::f` and file templates `dir/file.rs`).
   A path component (an interned string) is modelled by its bytes: the interner is
   injective, so symbol equality is string equality. *)
From BS Require Import Model.Base.

Notation sym := bstr (only parsing).

Section PathIndex.
Context {T : Type}.

Definition sym_eqb : sym -> sym -> bool := bstr_eqb.

Definition key_eqb (a b : N * nat) : bool := N.eqb (fst a) (fst b) && Nat.eqb (snd a) (snd b).

Record pindex := mk_pindex {
  next_nonce : N;
  heads : list (sym * (list nat * N));   (* HashMap<Symbol,(Vec<usize>,u64)> *)
  tails : list (list sym);               (* Vec<Vec<Symbol>> *)
  data : list ((N * nat) * T)            (* HashMap<(u64,usize),T> *)
}.

Definition pi_empty : pindex := mk_pindex 0%N [] [] [].

(* insert_w_head(path, head, value) *)
Definition insert_w_head (ix : pindex) (tail : list sym) (head : sym) (v : T) : pindex :=
  let tails' := tails ix ++ [tail] in
  let tail_idx := length tails' - 1 in
  match alist_get sym_eqb (heads ix) head with
  | Some (idxs, nonce) =>
      mk_pindex (next_nonce ix)
                (alist_set (heads ix) head (idxs ++ [tail_idx], nonce))
                tails'
                (alist_set (data ix) (nonce, tail_idx) v)
  | None =>
      let nonce := next_nonce ix in
      mk_pindex (N.succ nonce)
                (alist_set (heads ix) head ([tail_idx], nonce))
                tails'
                (alist_set (data ix) (nonce, tail_idx) v)
  end.

(* insert(path, value): the last component is the head; an empty path is ignored *)
Definition insert (ix : pindex) (path : list sym) (v : T) : pindex :=
  match rev path with
  | [] => ix
  | h :: rt => insert_w_head ix (rev rt) h v
  end.

(* slice::ends_with *)
Definition ends_with (l s : list sym) : bool :=
  (length s <=? length l) && list_eqb sym_eqb (skipn (length l - length s) l) s.

(* get() on an already split needle; [Panic 1] = `self.index.tails[idx]` out of range *)
Fixpoint get_loop (ix : pindex) (exp_tail : list sym) (nonce : N) (idxs : list nat) : res (list T) :=
  match idxs with
  | [] => Ok []
  | i :: rest =>
      match nth_error (tails ix) i with
      | None => Panic 1
      | Some tl =>
          r <- get_loop ix exp_tail nonce rest ;;
          if ends_with tl exp_tail
          then match alist_get key_eqb (data ix) (nonce, i) with
               | Some v => Ok (v :: r)
               | None => Ok r
               end
          else Ok r
      end
  end.

Definition get_comps (ix : pindex) (comps : list sym) : res (list T) :=
  match rev comps with
  | [] => Ok []
  | h :: rt =>
      match alist_get sym_eqb (heads ix) h with
      | None => Ok []
      | Some (idxs, nonce) => get_loop ix (rev rt) nonce idxs
      end
  end.

End PathIndex.
Arguments pindex T : clear implicits.

(* str::split(&str) for a non-empty pattern: non-overlapping matches, left to right *)
Fixpoint split_aux (d : bstr) (skip : nat) (cur : bstr) (s : bstr) : list bstr :=
  match s with
  | [] => [rev cur]
  | c :: t =>
      match skip with
      | S k => split_aux d k cur t
      | O => if is_prefix N.eqb d s
             then rev cur :: split_aux d (length d - 1) [] t
             else split_aux d 0 (c :: cur) t
      end
  end.
Definition split (d s : bstr) : list bstr := split_aux d 0 [] s.

(* the needle -> components rule of get(): a leading delimiter is the root directory *)
Definition needle_comps (d needle : bstr) : list bstr :=
  if is_prefix N.eqb d needle then d :: tl (split d needle) else split d needle.

Definition get {T} (d : bstr) (ix : pindex T) (needle : bstr) : res (list T) :=
  get_comps ix (needle_comps d needle).

(* ---- specification ---- *)
(* what was inserted, in order: (tail, head, value); full path = tail ++ [head] *)
Definition entry (T : Type) : Type := (list bstr * bstr * T)%type.
Definition e_path {T} (e : entry T) : list bstr := fst (fst e) ++ [snd (fst e)].
Definition e_val {T} (e : entry T) : T := snd e.

Definition build {T} (es : list (entry T)) : pindex T :=
  fold_left (fun ix e => insert_w_head ix (fst (fst e)) (snd (fst e)) (snd e)) es pi_empty.

(* component-wise suffix, as a Prop and as the boolean the spec filter uses *)
Definition is_suffix (s l : list bstr) : Prop := exists pre, l = pre ++ s.
Definition is_suffixb (s l : list bstr) : bool := ends_with l s.

Definition spec_get {T} (es : list (entry T)) (comps : list bstr) : list T :=
  match comps with
  | [] => []
  | _ => map e_val (filter (fun e => is_suffixb comps (e_path e)) es)
  end.

(* ---- correspondence case format (written by the harness) ---- *)
(* (delimiter, inserts, needle, answer of the real PathSearchIndex::get) *)
Definition pi_case : Type := (bstr * list (entry N) * bstr * list N)%type.
Definition res_list_eqb (r : res (list N)) (l : list N) : bool :=
  match r with Ok x => list_eqb N.eqb x l | _ => false end.
Definition pi_check (c : pi_case) : N :=
  let '(d, es, needle, ans) := c in
  verdict (res_list_eqb (get d (build es) needle) ans)
          (list_eqb N.eqb (spec_get es (needle_comps d needle)) ans).
