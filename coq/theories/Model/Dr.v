(* Model of src/debugger/register.rs `mod debug`: DR6 / DR7 images and their bit
   functions, over the constants the translator read from the source (Gen/Dr.v). *)
From BS Require Import Model.Base Gen.Dr.
Open Scope N_scope.

(* bit_field::BitField on usize *)
Definition get_bit (x i : N) : bool := N.testbit x i.
Definition set_bit (x i : N) (v : bool) : N := if v then N.setbit x i else N.clearbit x i.
Fixpoint set_bits_n (x lo v : N) (k : nat) : N :=
  match k with
  | O => x
  | S k' => set_bit (set_bits_n x lo v k') (lo + N.of_nat k') (N.testbit v (N.of_nat k'))
  end.
(* set_bits(lo..=lo+wm1, v); BitField panics when v does not fit the range *)
Definition set_bits (x lo wm1 v : N) : N := set_bits_n x lo v (S (N.to_nat wm1)).
Definition fits (wm1 v : N) : bool := N.shiftr v (wm1 + 1) =? 0.
Fixpoint get_bits_n (x lo : N) (k : nat) : N :=
  match k with
  | O => 0
  | S k' => get_bits_n x lo k' + (if N.testbit x (lo + N.of_nat k') then 2 ^ N.of_nat k' else 0)
  end.
Definition get_bits (x lo wm1 : N) : N := get_bits_n x lo (S (N.to_nat wm1)).

Definition en_idx (r : N) (global : bool) : N :=
  if global then r * EN_GLOBAL_MUL + EN_GLOBAL_ADD else r * EN_LOCAL_MUL.

Definition dr_enabled (d7 r : N) (global : bool) : bool := get_bit d7 (en_idx r global).

Definition configure_bp (d7 r cond size : N) : N :=
  set_bits (set_bits d7 (COND_BASE + r * COND_MUL) COND_WIDTH_M1 cond)
           (SIZE_BASE + r * SIZE_MUL) SIZE_WIDTH_M1 size.

Definition set_dr (d7 r : N) (global enable : bool) : N :=
  let d1 := set_bit d7 (en_idx r global) enable in
  let det := if global then GLOBAL_EXACT_BIT else LOCAL_EXACT_BIT in
  if enable then set_bit d1 det true
  else if forallb (fun n => negb (dr_enabled d1 n global)) [0; 1; 2; 3]
       then set_bit d1 det false else d1.

(* DebugStatusRegister::detect_and_flush: first trap flag set, cleared *)
Fixpoint detect_loop (d6 : N) (i : N) (traps : list N) : option N * N :=
  match traps with
  | [] => (None, d6)
  | t :: rest => if N.land d6 t =? t then (Some i, N.land d6 (N.lnot t 64))
                 else detect_loop d6 (i + 1) rest
  end.
Definition detect_and_flush (d6 : N) : option N * N := detect_loop d6 0 TRAPS.

(* what the debugger itself reads back from an image for slot r *)
Definition cond_bits (d7 r : N) : N := get_bits d7 (COND_BASE + r * COND_MUL) COND_WIDTH_M1.
Definition size_bits (d7 r : N) : N := get_bits d7 (SIZE_BASE + r * SIZE_MUL) SIZE_WIDTH_M1.

(* ---- correspondence cases for the bit functions ---- *)
Inductive dr_op :=
| OpEnabled (r : N) (g : bool)            (* -> bool as 0/1 *)
| OpConfigure (r cond size : N)           (* -> new image *)
| OpSetDr (r : N) (g en : bool)           (* -> new image *)
| OpDetect.                               (* on DR6 -> (hit+1 or 0, new image) *)
Definition dr_case : Type := (N * dr_op * N * N)%type.   (* image, op, impl result 1, impl result 2 *)
Definition dr_check (c : dr_case) : N :=
  let '(x, op, r1, r2) := c in
  let ok := match op with
            | OpEnabled r g => (if dr_enabled x r g then 1 else 0) =? r1
            | OpConfigure r cnd sz => configure_bp x r cnd sz =? r1
            | OpSetDr r g en => set_dr x r g en =? r1
            | OpDetect => let '(h, d) := detect_and_flush x in
                          ((match h with Some i => i + 1 | None => 0 end) =? r1) && (d =? r2)
            end in
  verdict ok ok.
