(* C09 / C10 - model of the ptrace tracer of BugStalker (src/debugger/debugee/tracer.rs,
   tracee.rs, the callers in src/debugger/mod.rs and step.rs), an assumed small-step model of
   the kernel side (ptrace / wait / signal semantics), the specifications and the
   correspondence cases.  No proofs in this file. *)
From BS Require Import Model.Base Gen.Tracer.
Open Scope N_scope.

(* ------------------------------------------------------------------------------------- *)
(* 1. Vocabulary                                                                           *)
(* ------------------------------------------------------------------------------------- *)

Notation tid := N (only parsing).
Notation sig := N (only parsing).

Definition SIGINT := 2.   Definition SIGTRAP := 5.   Definition SIGUSR1 := 10.
Definition SIGUSR2 := 12. Definition SIGALRM := 14.  Definition SIGCHLD := 17.
Definition SIGSTOP := 19. Definition SIGURG := 23.   Definition SIGVTALRM := 26.
Definition SIGPROF := 27. Definition SIGIO := 29.

(* tracer.rs:21-29 and :32 *)
Definition QUIET_SIGNALS : list N := [SIGALRM; SIGURG; SIGCHLD; SIGIO; SIGVTALRM; SIGPROF].
Definition TRANSPARENT_SIGNALS : list N := [SIGINT].
Definition mem (x : N) (l : list N) : bool := existsb (N.eqb x) l.
Definition quiet (s : N) : bool := mem s QUIET_SIGNALS.
Definition transparent (s : N) : bool := mem s TRANSPARENT_SIGNALS.

(* si_code values, code.rs *)
Definition TRAP_BRKPT := 1%Z.  Definition TRAP_TRACE := 2%Z.  Definition TRAP_HWBKPT := 4%Z.
Definition TRAP_UNK := 5%Z.    Definition SI_KERNEL := 128%Z. Definition SI_USER := 0%Z.

(* tracee.rs:28-38 *)
Inductive stop_type := StInterrupt | StSignal (s : sig).
Inductive tstatus := TStopped (st : stop_type) | TRunning.

Inductive ev_kind := EvExec | EvClone (child : tid) | EvStop | EvExit | EvOther.

(* What one waitpid() call hands to the tracer, together with what the tracer reads right
   after it about the same stop (si_code by PTRACE_GETSIGINFO, rip by PTRACE_GETREGS,
   the child id by PTRACE_GETEVENTMSG). *)
Inductive wstatus :=
| WExited (t : tid) (code : N)
| WEvent (t : tid) (e : ev_kind)
| WStopped (t : tid) (s : sig) (si_code : Z) (pc : N)
| WGone (t : tid) (s : sig)               (* Stopped, but PTRACE_GETSIGINFO answers ESRCH *)
| WSignaled (t : tid).

Definition ws_tid (s : wstatus) : tid :=
  match s with WExited t _ | WEvent t _ | WStopped t _ _ _ | WGone t _ | WSignaled t => t end.

Inductive preq :=
| PCont (t : tid) (data : sig)           (* PTRACE_CONT, data = signal to inject, 0 = none *)
| PStep (t : tid) (data : sig)           (* PTRACE_SINGLESTEP *)
| PSyscall (t : tid)                     (* PTRACE_SYSCALL, data 0 *)
| PInterrupt (t : tid)
| PSetPc (t : tid) (pc : N)              (* PTRACE_SETREGS changing rip only *)
| PBpDisable (addr : N)                  (* POKE the original byte back *)
| PBpEnable (addr : N).                  (* POKE 0xCC *)

Inductive stop_reason :=
| SRExit (code : N) | SRStart | SRBreakpoint (t : tid) (pc : N) | SRWatchpoint (t : tid) (pc : N)
| SRSignal (t : tid) (s : sig) | SRNoSuchProcess (t : tid).

(* breakpoint.rs BrkptType, as far as the tracer distinguishes them *)
Inductive bkind := BUser | BTemp | BTempAsync | BCompanion | BInternal (* entry point / linker map / transparent *).
Record bp := mk_bp { b_addr : N; b_kind : bkind; b_pid : tid; b_enabled : bool }.

Definition bkind_eqb (a b : bkind) : bool :=
  match a, b with BUser, BUser | BTemp, BTemp | BTempAsync, BTempAsync | BCompanion, BCompanion | BInternal, BInternal => true | _, _ => false end.
Definition find_bp (bps : list bp) (a : N) : option bp := find (fun b => b_addr b =? a) bps.

(* tracer.rs:78-83, tracee.rs:134-138 (threads_state : HashMap; the model keeps insertion
   order, the iteration order of the real HashMap is unspecified) *)
Record tracer := mkT { t_proc : tid; t_threads : list (tid * tstatus); t_queue : list (tid * sig); t_guard : bool }.

Definition tget (l : list (tid * tstatus)) (x : tid) : option tstatus := alist_get N.eqb l x.
Fixpoint tset (l : list (tid * tstatus)) (x : tid) (v : tstatus) : list (tid * tstatus) :=
  match l with
  | [] => []
  | (y, s) :: r => if x =? y then (y, v) :: r else (y, s) :: tset r x v
  end.
Definition tremove (l : list (tid * tstatus)) (x : tid) := filter (fun p => negb (fst p =? x)) l.
(* TraceeCtl::add, tracee.rs:188 (HashMap::insert of a new_stopped tracee) *)
Definition tadd (l : list (tid * tstatus)) (x : tid) :=
  match tget l x with Some _ => tset l x (TStopped StInterrupt) | None => l ++ [(x, TStopped StInterrupt)] end.

Definition with_threads (t : tracer) l := mkT (t_proc t) l (t_queue t) (t_guard t).
Definition with_queue (t : tracer) q := mkT (t_proc t) (t_threads t) q (t_guard t).
Definition with_guard (t : tracer) g := mkT (t_proc t) (t_threads t) (t_queue t) g.

Definition t_add t x := with_threads t (tadd (t_threads t) x).
Definition t_remove t x := with_threads t (tremove (t_threads t) x).
Definition t_set t x v := with_threads t (tset (t_threads t) x v).
(* tracee_ensure_mut(pid).set_stop(..): unwrap of a missing entry panics (tracee.rs:174-180) *)
Definition ensure_stop (t : tracer) (x : tid) (st : stop_type) : res tracer :=
  match tget (t_threads t) x with None => Panic 1 | Some _ => Ok (t_set t x (TStopped st)) end.
Definition is_stopped (o : option tstatus) : bool := match o with Some (TStopped _) => true | _ => false end.
Definition is_running (o : option tstatus) : bool := match o with Some TRunning => true | _ => false end.

(* Tracer::new, tracer.rs:91 *)
Definition tracer_new (p : tid) : tracer := mkT p [(p, TStopped StInterrupt)] [] false.

Definition opt_tid_eqb (o : option tid) (x : tid) : bool := match o with Some y => y =? x | None => false end.

Definition pair_eqb (a b : N * N) : bool := (fst a =? fst b) && (snd a =? snd b).
(* VecDeque: remove the LAST entry equal to p (rposition + remove), tracer.rs single_step *)
Fixpoint remove_first_pair (q : list (N * N)) (p : N * N) : list (N * N) :=
  match q with [] => [] | a :: r => if pair_eqb a p then r else a :: remove_first_pair r p end.
Definition remove_last_pair (q : list (N * N)) (p : N * N) : list (N * N) := rev (remove_first_pair (rev q) p).

(* error codes: 1 Waitpid, 2 Ptrace, 3 ProcessExit, 10 = ECHILD from waitpid(-1).
   panic sites: 1 tracee_ensure unwrap, 2 todo!() on TRAP_TRACE (tracer.rs:407),
   3 unreachable!("breakpoints/watchpoints must be ignore") (:603,:606), 4 unreachable!("stop at
   debugee entry point twice") (:262,:610), 5 debug_assert breakpoint not found (:420),
   6 debug_assert first status of a cloned thread (:356), 7 pc - 1 underflow (:412),
   8 debug_assert syscall status (:580). *)

(* ------------------------------------------------------------------------------------- *)
(* 2. The tracer, against an abstract world (kernel / recorded run)                        *)
(* ------------------------------------------------------------------------------------- *)
Section TRACER.
(* dequeue = true: the code after repo commit "single_step takes back the queue entry of a quiet
   signal it injects itself" (Gen.Tracer.STEP_QUIET_DEQUEUES); false: the code before it *)
Variable dequeue : bool.
Variable W : Type.
Variable w_wait : W -> option tid -> res (wstatus * W).   (* waitpid(tid or -1); Err 10 = ECHILD *)
Variable w_req : W -> preq -> bool * W.                     (* false = ESRCH *)
Variable w_pc : W -> tid -> N.                              (* rip of a stopped thread *)

(* TraceeCtl::cont_stopped_ex (tracee.rs:233-271); cont_stopped (:202-225) is the case
   inject = None, exclude = [] *)
Fixpoint cont_list (l : list (tid * tstatus)) (w : W) (inject : option (tid * sig)) (exclude : list tid)
  : list (tid * tstatus) * W :=
  match l with
  | [] => ([], w)
  | (x, st) :: r =>
      if mem x exclude then let '(r', w') := cont_list r w inject exclude in ((x, st) :: r', w')
      else match st with
      | TRunning => let '(r', w') := cont_list r w inject exclude in ((x, st) :: r', w')
      | TStopped _ =>
          let data := match inject with Some (p, s) => if p =? x then s else 0 | None => 0 end in
          let '(ok, w1) := w_req w (PCont x data) in
          let '(r', w') := cont_list r w1 inject exclude in
          ((x, if ok then TRunning else st) :: r', w')
      end
  end.
Definition cont_stopped_ex (t : tracer) (w : W) inject exclude : tracer * W :=
  let '(l, w') := cont_list (t_threads t) w inject exclude in (with_threads t l, w').

Definition trap_like (c : Z) : bool :=
  (c =? TRAP_TRACE)%Z || (c =? TRAP_BRKPT)%Z || (c =? SI_KERNEL)%Z || (c =? TRAP_HWBKPT)%Z.
Definition is_event_stop (s : wstatus) : bool := match s with WEvent _ EvStop => true | _ => false end.

Definition R3 := (tracer * W * option stop_reason)%type.
Definition R2 := (tracer * W)%type.

Fixpoint ans (f : nat) (bps : list bp) (t : tracer) (w : W) (s : wstatus) {struct f} : res R3 :=
  (* Tracer::apply_new_status, tracer.rs:314-515 *)
  match f with O => OutOfFuel | S f' =>
  match s with
  | WExited p code =>
      Ok (t_remove t p, w, if p =? t_proc t then Some (SRExit code) else None)
  | WEvent p EvExec => Ok (t_add t p, w, Some SRStart)
  | WEvent p (EvClone c) =>
      t1 <- ensure_stop t p StInterrupt ;;
      match tget (t_threads t1) c with
      | Some _ => Ok (t1, w, None)
      | None =>
          let t2 := t_add t1 c in
          r <- w_wait w (Some c) ;;
          let '(ns, w1) := r in
          match ns with
          | WExited _ _ => Ok (t_remove t2 c, w1, None)
          | WEvent c' EvStop => if c' =? c then Ok (t2, w1, None) else Panic 6
          | _ => Panic 6
          end
      end
  | WEvent p EvStop =>
      match tget (t_threads t) p with
      | Some _ => Ok (t_set t p (TStopped StInterrupt), w, None)
      | None => Ok (t_add t p, w, None)
      end
  | WEvent p EvExit =>
      match tget (t_threads t) p with
      | Some _ => let '(_, w1) := w_req w (PCont p 0) in Ok (t_remove t p, w1, None)
      | None => Ok (t, w, None)
      end
  | WEvent p EvOther => Ok (t, w, None)
  | WGone p _ => Ok (t, w, Some (SRNoSuchProcess p))
  | WSignaled _ => Ok (t, w, None)
  | WStopped p sg code pc =>
      if sg =? SIGTRAP then
        if (code =? TRAP_TRACE)%Z then Panic 2
        else if (code =? TRAP_BRKPT)%Z || (code =? SI_KERNEL)%Z then
          match tget (t_threads t) p with None => Panic 1 | Some _ =>
          if pc =? 0 then Panic 7 else
          let cur := pc - 1 in
          let '(ok, w1) := w_req w (PSetPc p cur) in
          if negb ok then Err 2 else
          match find_bp bps cur with
          | None =>
              (* tracer.rs after "fix: a breakpoint removed while its trap was pending": the trap of a
                 breakpoint that is not in the table anymore is consumed, the pc is already back on
                 the original instruction, the tracee is marked stopped and goes on with the others *)
              t2 <- ensure_stop t p StInterrupt ;; Ok (t2, w1, None)
          | Some b =>
              let has_tmp := existsb (fun b => bkind_eqb (b_kind b) BTemp || bkind_eqb (b_kind b) BTempAsync) bps in
              let temporary_hit := bkind_eqb (b_kind b) BTemp && (p =? b_pid b) in
              let temporary_async_hit := bkind_eqb (b_kind b) BTempAsync in
              let watchpoint_hit := bkind_eqb (b_kind b) BCompanion in
              if has_tmp && negb temporary_hit && negb watchpoint_hit && negb temporary_async_hit then
                (* tracer.rs:436-449: the hit is stepped over and never reported *)
                r <- (if b_enabled b then
                        let '(_, w2) := w_req w1 (PBpDisable cur) in
                        r <- sstep_drain f' bps t w2 p ;;
                        let '(t3, w3) := r in
                        let '(_, w4) := w_req w3 (PBpEnable cur) in Ok (t3, w4)
                      else Ok (t, w1)) ;;
                let '(t5, w5) := r in
                t6 <- ensure_stop t5 p StInterrupt ;;
                Ok (t6, w5, None)
              else
                t2 <- ensure_stop t p StInterrupt ;;
                r <- gsi f' bps t2 w1 (Some p) ;;
                let '(t3, w3) := r in
                Ok (t3, w3, Some (if watchpoint_hit then SRWatchpoint p cur else SRBreakpoint p cur))
          end end
        else if (code =? TRAP_HWBKPT)%Z then
          t2 <- ensure_stop t p StInterrupt ;;
          r <- gsi f' bps t2 w (Some p) ;;
          let '(t3, w3) := r in
          Ok (t3, w3, Some (SRWatchpoint p pc))
        else Ok (t, w, None)
      else
        let t1 := if transparent sg then t else with_queue t (t_queue t ++ [(p, sg)]) in
        t2 <- ensure_stop t1 p (StSignal sg) ;;
        r <- (if quiet sg then Ok (t2, w) else gsi f' bps t2 w (Some p)) ;;
        let '(t3, w3) := r in
        Ok (t3, w3, Some (SRSignal p sg))
  end end

with gsi (f : nat) (bps : list bp) (t : tracer) (w : W) (initiator : option tid) {struct f} : res R2 :=
  (* Tracer::group_stop_interrupt, tracer.rs:191-305 *)
  match f with O => OutOfFuel | S f' =>
  if t_guard t then Ok (t, w) else
  let t := with_guard t true in
  if negb (existsb (fun p => negb (opt_tid_eqb initiator (fst p))) (t_threads t))
  then Ok (with_guard t false, w)
  else
    r <- gsi_round f' bps t w (map fst (t_threads t)) ;;
    let '(t1, w1) := r in
    r <- gsi_round f' bps t1 w1 (map fst (t_threads t1)) ;;
    let '(t2, w2) := r in
    Ok (with_guard t2 false, w2)
  end

with gsi_round (f : nat) (bps : list bp) (t : tracer) (w : W) (tids : list tid) {struct f} : res R2 :=
  (* one pass over the snapshot, tracer.rs:222-293 *)
  match f with O => OutOfFuel | S f' =>
  match tids with
  | [] => Ok (t, w)
  | x :: rest =>
      match tget (t_threads t) x with
      | None | Some (TStopped _) => gsi_round f' bps t w rest
      | Some TRunning =>
          let '(ok, w1) := w_req w (PInterrupt x) in
          if negb ok then gsi_round f' bps (t_set t x (TStopped StInterrupt)) w1 rest
          else
            r <- w_wait w1 (Some x) ;;
            let '(wait, w2) := r in
            r <- gsi_while f' bps t w2 x wait ;;
            let '(t3, w3) := r in
            let t4 := if is_running (tget (t_threads t3) x) then t_set t3 x (TStopped StInterrupt) else t3 in
            gsi_round f' bps t4 w3 rest
      end
  end end

with gsi_while (f : nat) (bps : list bp) (t : tracer) (w : W) (x : tid) (wait : wstatus) {struct f} : res R2 :=
  (* the absorbing loop, tracer.rs:249-286 *)
  match f with O => OutOfFuel | S f' =>
  if is_event_stop wait then Ok (t, w) else
  r <- ans f' bps t w wait ;;
  let '(t1, w1, stop) := r in
  b <- match stop with
       | None => Ok false
       | Some (SRBreakpoint p _) | Some (SRWatchpoint p _) => Ok (p =? x)
       | Some (SRExit _) => Err 3
       | Some SRStart => Panic 4
       | Some (SRSignal _ _) => Ok true
       | Some (SRNoSuchProcess _) => Ok true
       end ;;
  if (b : bool) then Ok (t1, w1) else
  match tget (t_threads t1) x with
  | None => Ok (t1, w1)
  | Some (TStopped StInterrupt) => Ok (t1, w1)
  | Some _ =>
      r <- w_wait w1 (Some x) ;;
      let '(wait', w2) := r in
      gsi_while f' bps t1 w2 x wait'
  end end

with sstep (f : nat) (bps : list bp) (t : tracer) (w : W) (pid : tid) {struct f} : res R3 :=
  (* Tracer::single_step, tracer.rs:528-536 *)
  match f with O => OutOfFuel | S f' =>
  match tget (t_threads t) pid with None => Panic 1 | Some _ =>
  let pc0 := w_pc w pid in
  let '(ok, w1) := w_req w (PStep pid 0) in
  if negb ok then Err 2 else sstep_loop f' bps t w1 pid pc0
  end end

with sstep_loop (f : nat) (bps : list bp) (t : tracer) (w : W) (pid : tid) (pc0 : N) {struct f} : res R3 :=
  (* the loop of single_step, tracer.rs:537-626 (no debug register is ever flagged: hardware
     watchpoints are outside this model) *)
  match f with O => OutOfFuel | S f' =>
  match tget (t_threads t) pid with None => Panic 1 | Some _ =>
  r <- w_wait w (Some pid) ;;
  let '(status, w1) := r in
  let fallthrough :=
    r <- ans f' bps t w1 status ;;
    let '(t2, w2, stop) := r in
    match stop with
    | None => sstep_loop f' bps t2 w2 pid pc0
    | Some (SRBreakpoint _ _) | Some (SRWatchpoint _ _) => Panic 3
    | Some (SRExit _) => Err 3
    | Some SRStart => Panic 4
    | Some (SRSignal _ sg) =>
        if quiet sg then
          let t2 := if dequeue then with_queue t2 (remove_last_pair (t_queue t2) (pid, sg)) else t2 in
          match tget (t_threads t2) pid with None => Panic 1 | Some _ =>
          let '(ok, w3) := w_req w2 (PStep pid sg) in
          if negb ok then Err 2 else sstep_loop f' bps t2 w3 pid pc0 end
        else Ok (t2, w2, stop)
    | Some (SRNoSuchProcess _) => Ok (t2, w2, None)
    end in
  match status with
  | WExited _ _ | WSignaled _ | WGone _ _ => Err 2     (* getsiginfo(pid).map_err(Ptrace)?, :540 *)
  | WStopped _ sg code pc =>
      if (sg =? SIGTRAP) && trap_like code then
        if pc =? pc0 then
          let '(ok, w2) := w_req w1 (PStep pid 0) in
          if negb ok then Err 2 else sstep_loop f' bps t w2 pid pc0
        else
          match find_bp bps pc with
          | Some b => if bkind_eqb (b_kind b) BCompanion then Ok (t, w1, Some (SRWatchpoint pid pc)) else Ok (t, w1, None)
          | None => Ok (t, w1, None)
          end
      else if (sg =? SIGTRAP) && (code =? TRAP_UNK)%Z then
        let '(ok, w2) := w_req w1 (PSyscall pid) in
        if negb ok then Err 2 else
        r <- w_wait w2 (Some pid) ;;
        let '(st2, w3) := r in
        match st2 with
        | WStopped _ s2 _ _ =>
            if s2 =? SIGTRAP then
              let '(ok, w4) := w_req w3 (PStep pid 0) in
              if negb ok then Err 2 else sstep_loop f' bps t w4 pid pc0
            else Panic 8
        | _ => Panic 8
        end
      else fallthrough
  | WEvent p EvStop => if p =? pid then Ok (t, w1, None) else fallthrough
  | WEvent _ _ => fallthrough
  end end end

with sstep_drain (f : nat) (bps : list bp) (t : tracer) (w : W) (pid : tid) {struct f} : res R2 :=
  (* `while self.single_step(tcx, pid)?.is_some() {}`, tracer.rs:441 *)
  match f with O => OutOfFuel | S f' =>
  r <- sstep f' bps t w pid ;;
  let '(t1, w1, stop) := r in
  match stop with None => Ok (t1, w1) | Some _ => sstep_drain f' bps t1 w1 pid end
  end.

(* Tracer::resume, tracer.rs:114-157 *)
Fixpoint resume (f : nat) (bps : list bp) (t : tracer) (w : W) {struct f} : res (tracer * W * stop_reason) :=
  match f with O => OutOfFuel | S f' =>
  let wait_part (t : tracer) (w : W) :=
    match w_wait w None with
    | Err 10 => Ok (t, w, SRNoSuchProcess (t_proc t))
    | Err e => Err e
    | Panic s => Panic s
    | OutOfFuel => OutOfFuel
    | Ok (status, w1) =>
        r <- ans f' bps t w1 status ;;
        let '(t2, w2, stop) := r in
        match stop with
        | None => resume f' bps t2 w2
        | Some (SRSignal p sg) => if quiet sg then resume f' bps t2 w2 else Ok (t2, w2, SRSignal p sg)
        | Some sr => Ok (t2, w2, sr)
        end
    end in
  match t_queue t with
  | (x, sg) :: rest =>
      let '(t1, w1) := cont_stopped_ex (with_queue t rest) w (Some (x, sg)) (map fst rest) in
      match rest with
      | (y, s2) :: _ =>
          r <- gsi f' bps t1 w1 None ;;
          let '(t2, w2) := r in
          Ok (t2, w2, SRSignal y s2)
      | [] => wait_part t1 w1
      end
  | [] =>
      let '(t1, w1) := cont_stopped_ex t w None [] in
      wait_part t1 w1
  end end.

(* --- the callers: Debugger::step_over_breakpoint (step.rs:209-227), single_step_instruction
   (:188-201), stepi (mod.rs:940-954), continue_execution (mod.rs:543-696) ---------------- *)
Record dbg := mkD { d_tr : tracer; d_focus : tid; d_pc : N (* ecx location of the thread in focus *) }.

Definition step_over_breakpoint (f : nat) (bps : list bp) (d : dbg) (w : W) : res (dbg * W * option stop_reason) :=
  match tget (t_threads (d_tr d)) (d_focus d) with None => Panic 1 | Some _ =>
  let pc := w_pc w (d_focus d) in
  match find_bp bps pc with
  | Some b =>
      if b_enabled b then
        let '(_, w1) := w_req w (PBpDisable pc) in
        r <- sstep f bps (d_tr d) w1 (d_focus d) ;;
        let '(t2, w2, stop) := r in
        let '(_, w3) := w_req w2 (PBpEnable pc) in
        Ok (mkD t2 (d_focus d) (w_pc w3 (d_focus d)), w3, stop)
      else Ok (d, w, None)
  | None => Ok (d, w, None)
  end end.

Fixpoint sob_drain (f : nat) (bps : list bp) (d : dbg) (w : W) : res (dbg * W) :=
  match f with O => OutOfFuel | S f' =>
  r <- step_over_breakpoint f' bps d w ;;
  let '(d1, w1, stop) := r in
  match stop with None => Ok (d1, w1) | Some _ => sob_drain f' bps d1 w1 end end.

Definition stepi (f : nat) (bps : list bp) (d : dbg) (w : W) : res (dbg * W * option stop_reason) :=
  match find_bp bps (d_pc d) with
  | Some _ => step_over_breakpoint f bps d w
  | None =>
      r <- sstep f bps (d_tr d) w (d_focus d) ;;
      let '(t2, w2, stop) := r in
      Ok (mkD t2 (d_focus d) (w_pc w2 (d_focus d)), w2, stop)
  end.

Fixpoint cont_loop (f : nat) (bps : list bp) (d : dbg) (w : W) : res (dbg * W * stop_reason) :=
  match f with O => OutOfFuel | S f' =>
  r <- resume f' bps (d_tr d) w ;;
  let '(t1, w1, ev) := r in
  let d1 := mkD t1 (d_focus d) (d_pc d) in
  match ev with
  | SRExit _ => Ok (d1, w1, ev)
  | SRStart => cont_loop f' bps d1 w1
  | SRNoSuchProcess _ => Err 4
  | SRBreakpoint p pc =>
      let d2 := mkD t1 p (w_pc w1 p) in
      match find_bp bps pc with
      | Some b =>
          match b_kind b with
          | BInternal => r <- sob_drain f' bps d2 w1 ;; let '(d3, w3) := r in cont_loop f' bps d3 w3
          | BCompanion => Panic 9
          | _ => Ok (d2, w1, ev)
          end
      | None => cont_loop f' bps d2 w1       (* `if let Some(bp) = get_enabled(pc)` fails: loop again *)
      end
  | SRSignal p _ | SRWatchpoint p _ => Ok (mkD t1 p (w_pc w1 p), w1, ev)
  end end.

Definition continue_execution (f : nat) (bps : list bp) (d : dbg) (w : W) : res (dbg * W * stop_reason) :=
  r <- step_over_breakpoint f bps d w ;;
  let '(d1, w1, stop) := r in
  match stop with
  | Some (SRWatchpoint p pc) => Ok (d1, w1, SRWatchpoint p pc)
  | Some (SRSignal p sg) => Ok (d1, w1, SRSignal p sg)
  | Some _ => Panic 10
  | None => cont_loop f bps d1 w1
  end.

Inductive api_op := OCont | OStepi | OFocus (t : tid).

Definition api_step (f : nat) (bps : list bp) (d : dbg) (w : W) (o : api_op) : res (dbg * W * option stop_reason) :=
  match o with
  | OCont => r <- continue_execution f bps d w ;; let '(d1, w1, sr) := r in Ok (d1, w1, Some sr)
  | OStepi => stepi f bps d w
  | OFocus x => Ok (mkD (d_tr d) x (w_pc w x), w, None)
  end.

Fixpoint api_run (f : nat) (bps : list bp) (d : dbg) (w : W) (ops : list api_op) : res (dbg * W * list (option stop_reason)) :=
  match ops with
  | [] => Ok (d, w, [])
  | o :: rest =>
      r <- api_step f bps d w o ;;
      let '(d1, w1, sr) := r in
      r <- api_run f bps d1 w1 rest ;;
      let '(d2, w2, srs) := r in
      Ok (d2, w2, sr :: srs)
  end.

Fixpoint resume_run (f : nat) (bps : list bp) (t : tracer) (w : W) (n : nat) : res (tracer * W * list stop_reason) :=
  match n with
  | O => Ok (t, w, [])
  | S n' =>
      r <- resume f bps t w ;;
      let '(t1, w1, sr) := r in
      r <- resume_run f bps t1 w1 n' ;;
      let '(t2, w2, srs) := r in
      Ok (t2, w2, sr :: srs)
  end.
End TRACER.

(* ------------------------------------------------------------------------------------- *)
(* 3. ASSUMED kernel model (ptrace(2) under PTRACE_SEIZE with TRACECLONE|TRACEEXEC|        *)
(*    TRACEEXIT, process.rs:126-130): a nondeterministic transition system whose           *)
(*    nondeterminism is an explicit schedule (list of choices)                             *)
(* ------------------------------------------------------------------------------------- *)

Inductive kst := KRun | KSig (s : sig) | KTrap (code : Z) | KEv (e : ev_kind) | KZombie (code : N).

Record kthread := mkK {
  k_st : kst;
  k_rep : bool;          (* the current stop / exit has already been returned by a wait *)
  k_intr : bool;         (* PTRACE_INTERRUPT requested, PTRACE_EVENT_STOP not yet taken *)
  k_pend : list sig;     (* signals sent to the thread and not yet dequeued *)
  k_pc : N;
  k_tf : bool }.         (* resumed by PTRACE_SINGLESTEP *)

Record kernel := mkKer {
  k_threads : list (tid * kthread);
  k_int3 : list N;                 (* addresses currently holding 0xCC *)
  k_prog : list (N * N);           (* next-pc table; default pc + 1 (every instruction is one byte) *)
  k_sent : list (tid * sig);       (* log: signals sent *)
  k_deliv : list (tid * sig);      (* log: signals handed to the thread (handler runs) *)
  k_arrivals : list (tid * N);     (* log: executions of an int3 (thread, breakpoint address) *)
  k_exec : list (tid * N) }.       (* log: original instructions executed *)

Definition kget (k : kernel) (x : tid) : option kthread := alist_get N.eqb (k_threads k) x.
Fixpoint kset_l (l : list (tid * kthread)) (x : tid) (v : kthread) :=
  match l with [] => [] | (y, s) :: r => if x =? y then (y, v) :: r else (y, s) :: kset_l r x v end.
Definition kwith (k : kernel) l := mkKer l (k_int3 k) (k_prog k) (k_sent k) (k_deliv k) (k_arrivals k) (k_exec k).
Definition kset (k : kernel) x v := kwith k (kset_l (k_threads k) x v).
Definition kst_running (s : kst) : bool := match s with KRun => true | _ => false end.
Definition krunning (k : kernel) (x : tid) : bool :=
  match kget k x with Some th => kst_running (k_st th) | None => false end.
Definition next_pc (k : kernel) (pc : N) : N := match alist_get N.eqb (k_prog k) pc with Some n => n | None => pc + 1 end.

Inductive choice :=
| CSend (t : tid) (s : sig)      (* somebody sends signal s to thread t (any time, any state) *)
| CSig (t : tid)                 (* running t dequeues its oldest pending signal: signal-delivery-stop *)
| CIntr (t : tid)                (* running t notices a pending PTRACE_INTERRUPT: PTRACE_EVENT_STOP *)
| CRun (t : tid)                 (* running t executes one instruction (an int3 traps) *)
| CClone (t c : tid)             (* running t creates thread c *)
| CExit (t : tid)                (* running t starts to exit: PTRACE_EVENT_EXIT stop *)
| CPick (t : tid).               (* the next waitpid(-1) returns t's status if it has one *)

Definition stop_th (th : kthread) (s : kst) : kthread := mkK s false (k_intr th) (k_pend th) (k_pc th) false.

(* environment step: only a RUNNING thread changes state (a stopped thread stays stopped
   until the tracer resumes it); a new thread starts in PTRACE_EVENT_STOP, not running *)
Definition kenv (k : kernel) (c : choice) : kernel :=
  match c with
  | CSend x s =>
      match kget k x with
      | Some th => match k_st th with
          | KZombie _ => k
          | _ => let k1 := kset k x (mkK (k_st th) (k_rep th) (k_intr th) (k_pend th ++ [s]) (k_pc th) (k_tf th)) in
                 mkKer (k_threads k1) (k_int3 k) (k_prog k) (k_sent k ++ [(x, s)]) (k_deliv k) (k_arrivals k) (k_exec k)
          end
      | None => k
      end
  | CSig x =>
      match kget k x with
      | Some th => match k_st th, k_pend th with
          | KRun, s :: rest => kset k x (mkK (KSig s) false (k_intr th) rest (k_pc th) false)
          | _, _ => k end
      | None => k
      end
  | CIntr x =>
      match kget k x with
      | Some th => match k_st th with
          | KRun => if k_intr th then kset k x (mkK (KEv EvStop) false false (k_pend th) (k_pc th) false) else k
          | _ => k end
      | None => k
      end
  | CRun x =>
      match kget k x with
      | Some th => match k_st th with
          | KRun =>
              if mem (k_pc th) (k_int3 k) then
                let k1 := kset k x (mkK (KTrap TRAP_BRKPT) false (k_intr th) (k_pend th) (k_pc th + 1) false) in
                mkKer (k_threads k1) (k_int3 k) (k_prog k) (k_sent k) (k_deliv k) (k_arrivals k ++ [(x, k_pc th)]) (k_exec k)
              else
                let th' := if k_tf th then mkK (KTrap TRAP_TRACE) false (k_intr th) (k_pend th) (next_pc k (k_pc th)) false
                           else mkK KRun false (k_intr th) (k_pend th) (next_pc k (k_pc th)) false in
                let k1 := kset k x th' in
                mkKer (k_threads k1) (k_int3 k) (k_prog k) (k_sent k) (k_deliv k) (k_arrivals k) (k_exec k ++ [(x, k_pc th)])
          | _ => k end
      | None => k
      end
  | CClone x c =>
      match kget k x, kget k c with
      | Some th, None => match k_st th with
          | KRun => let k1 := kset k x (stop_th th (KEv (EvClone c))) in
                    kwith k1 (k_threads k1 ++ [(c, mkK (KEv EvStop) false false [] (k_pc th) false)])
          | _ => k end
      | _, _ => k
      end
  | CExit x =>
      match kget k x with
      | Some th => match k_st th with KRun => kset k x (stop_th th (KEv EvExit)) | _ => k end
      | None => k
      end
  | CPick _ => k
  end.

Definition kstatus (x : tid) (th : kthread) : option wstatus :=
  if k_rep th then None else
  match k_st th with
  | KRun => None
  | KSig s => Some (WStopped x s SI_USER (k_pc th))
  | KTrap c => Some (WStopped x SIGTRAP c (k_pc th))
  | KEv e => Some (WEvent x e)
  | KZombie c => Some (WExited x c)
  end.

Fixpoint first_reportable (k : kernel) (keys : list tid) (target : option tid) : option (tid * wstatus) :=
  match keys with
  | [] => None
  | x :: r =>
      if match target with Some y => x =? y | None => true end then
        match kget k x with
        | Some th => match kstatus x th with Some s => Some (x, s) | None => first_reportable k r target end
        | None => first_reportable k r target
        end
      else first_reportable k r target
  end.

(* a status is consumed: the stop becomes "reported"; a reported exit is reaped *)
Definition kconsume (k : kernel) (x : tid) : kernel :=
  match kget k x with
  | Some th => match k_st th with
      | KZombie _ => kwith k (filter (fun p => negb (fst p =? x)) (k_threads k))
      | _ => kset k x (mkK (k_st th) true (k_intr th) (k_pend th) (k_pc th) (k_tf th)) end
  | None => k
  end.

(* When the explicit schedule is exhausted the kernel continues with a fixed fair policy:
   a running thread takes a pending interrupt, else dequeues a pending signal, else
   completes a pending single-step; otherwise running threads
   exit, the main thread (first in the list) last. *)
Definition kdefault (k : kernel) : option choice :=
  let run_and (f : kthread -> bool) := find (fun p => kst_running (k_st (snd p)) && f (snd p)) (k_threads k) in
  match run_and k_intr with
  | Some (x, _) => Some (CIntr x)
  | None =>
  match run_and (fun th => negb (match k_pend th with [] => true | _ => false end)) with
  | Some (x, _) => Some (CSig x)
  | None =>
  match run_and k_tf with
  | Some (x, _) => Some (CRun x)
  | None =>
  match find (fun p => kst_running (k_st (snd p))) (tl (k_threads k)) with
  | Some (x, _) => Some (CExit x)
  | None => match k_threads k with
            | (x, th) :: _ => if kst_running (k_st th) then Some (CExit x) else None
            | [] => None end
  end end end end.

Definition kworld := (kernel * list choice)%type.

(* waitpid: Err 10 (ECHILD) when the target does not exist; blocks (consuming schedule
   choices, then the default policy) until the target has an unreported status *)
Fixpoint kwait (fuel : nat) (k : kernel) (sch : list choice) (target : option tid) : res (wstatus * kworld) :=
  match fuel with O => OutOfFuel | S fuel' =>
  let exists_target := match target with Some y => match kget k y with Some _ => true | None => false end
                                        | None => match k_threads k with [] => false | _ => true end end in
  if negb exists_target then Err 10 else
  let normal (sch : list choice) :=
    match first_reportable k (map fst (k_threads k)) target with
    | Some (x, s) => Ok (s, (kconsume k x, sch))
    | None =>
        match sch with
        | c :: sch' => kwait fuel' (kenv k c) sch' target
        | [] => match kdefault k with Some c => kwait fuel' (kenv k c) [] target | None => OutOfFuel end
        end
    end in
  match sch, target with
  | CPick x :: sch', None =>
      match first_reportable k (map fst (k_threads k)) (Some x) with
      | Some (_, s) => Ok (s, (kconsume k x, sch'))
      | None => kwait fuel' k sch' target
      end
  | _, _ => normal sch
  end end.

Definition kst_stopped_reported (th : kthread) : bool :=
  k_rep th && match k_st th with KSig _ | KTrap _ | KEv _ => true | _ => false end.

(* ptrace requests need a tracee in a reported ptrace-stop, else ESRCH; PTRACE_INTERRUPT
   needs a live tracee.  ASSUMPTION (ptrace(2), "signal injection"): resuming a thread that
   is in a signal-delivery-stop (a signal stop or a SIGTRAP trap stop) with data = s <> 0
   delivers s, with data = 0 delivers nothing (the reported signal is suppressed); in a
   PTRACE_EVENT stop the data argument is ignored.  Resuming from PTRACE_EVENT_EXIT lets
   the thread die (zombie until its exit status is collected). *)
Definition kresume (k : kernel) (x : tid) (data : sig) (tf : bool) : bool * kernel :=
  match kget k x with
  | Some th =>
      if kst_stopped_reported th then
        let deliver := match k_st th with KSig _ | KTrap _ => negb (data =? 0) | _ => false end in
        let st' := match k_st th with KEv EvExit => KZombie 0 | _ => KRun end in
        let k1 := kset k x (mkK st' false (k_intr th) (k_pend th) (k_pc th) tf) in
        (true, mkKer (k_threads k1) (k_int3 k) (k_prog k) (k_sent k)
                     (if deliver then k_deliv k ++ [(x, data)] else k_deliv k) (k_arrivals k) (k_exec k))
      else (false, k)
  | None => (false, k)
  end.

Definition kreq (k : kernel) (r : preq) : bool * kernel :=
  match r with
  | PCont x d => kresume k x d false
  | PStep x d => kresume k x d true
  | PSyscall x => kresume k x 0 false
  | PInterrupt x =>
      match kget k x with
      | Some th => match k_st th with
          | KZombie _ => (false, k)
          | _ => (true, kset k x (mkK (k_st th) (k_rep th) true (k_pend th) (k_pc th) (k_tf th))) end
      | None => (false, k)
      end
  | PSetPc x pc =>
      match kget k x with
      | Some th => if kst_stopped_reported th
                   then (true, kset k x (mkK (k_st th) (k_rep th) (k_intr th) (k_pend th) pc (k_tf th)))
                   else (false, k)
      | None => (false, k)
      end
  | PBpDisable a => (true, mkKer (k_threads k) (filter (fun b => negb (b =? a)) (k_int3 k)) (k_prog k) (k_sent k) (k_deliv k) (k_arrivals k) (k_exec k))
  | PBpEnable a => (true, mkKer (k_threads k) (if mem a (k_int3 k) then k_int3 k else a :: k_int3 k) (k_prog k) (k_sent k) (k_deliv k) (k_arrivals k) (k_exec k))
  end.

Definition KFUEL : nat := 2000.
Definition kw_wait (w : kworld) (target : option tid) : res (wstatus * kworld) := kwait KFUEL (fst w) (snd w) target.
Definition kw_req (w : kworld) (r : preq) : bool * kworld := let '(ok, k') := kreq (fst w) r in (ok, (k', snd w)).
Definition kw_pc (w : kworld) (x : tid) : N := match kget (fst w) x with Some th => k_pc th | None => 0 end.

(* the tracer and its callers running against the kernel model *)
(* generic in the dequeue switch; the un-suffixed ones are the CURRENT code *)
Definition sstep_gen := sstep.
Definition k_ans_gen dq := ans dq kworld kw_wait kw_req kw_pc.
Definition k_sstep_gen dq := sstep dq kworld kw_wait kw_req kw_pc.
Definition k_resume_gen dq := resume dq kworld kw_wait kw_req kw_pc.
Definition k_api_run_gen dq := api_run dq kworld kw_wait kw_req kw_pc.
Definition k_ans := ans STEP_QUIET_DEQUEUES kworld kw_wait kw_req kw_pc.
Definition k_gsi := gsi STEP_QUIET_DEQUEUES kworld kw_wait kw_req kw_pc.
Definition k_sstep := sstep STEP_QUIET_DEQUEUES kworld kw_wait kw_req kw_pc.
Definition k_resume := resume STEP_QUIET_DEQUEUES kworld kw_wait kw_req kw_pc.
Definition k_api_run := api_run STEP_QUIET_DEQUEUES kworld kw_wait kw_req kw_pc.
Definition k_resume_run := resume_run STEP_QUIET_DEQUEUES kworld kw_wait kw_req kw_pc.

(* a kernel with the given threads, all stopped in a reported PTRACE_EVENT_STOP at [pc] *)
Definition kthread_stopped (pc : N) : kthread := mkK (KEv EvStop) true false [] pc false.
Definition kinit (threads : list (tid * N)) (int3 : list N) (prog : list (N * N)) : kernel :=
  mkKer (map (fun p => (fst p, kthread_stopped (snd p))) threads) int3 prog [] [] [] [].
Definition tinit (threads : list (tid * N)) : tracer :=
  mkT (match threads with (p, _) :: _ => p | [] => 0 end) (map (fun p => (fst p, TStopped StInterrupt)) threads) [] false.

(* ------------------------------------------------------------------------------------- *)
(* 4. Specifications (over the kernel's own logs, independent of the tracer's bookkeeping) *)
(* ------------------------------------------------------------------------------------- *)

Definition count (p : N * N) (l : list (N * N)) : nat := length (filter (pair_eqb p) l).
Definition subset (a b : list N) : bool := forallb (fun x => mem x b) a.
Definition same_set (a b : list N) : bool := subset a b && subset b a.
Definition same_bag (a b : list (N * N)) : bool :=
  forallb (fun p => Nat.eqb (count p a) (count p b)) (a ++ b).

Definition klive (k : kernel) : list tid :=
  map fst (filter (fun p => match k_st (snd p) with KZombie _ => false | _ => true end) (k_threads k)).

(* C09 all-stop: no thread of the debuggee is running, and the debugger's thread list is the
   kernel's list of live threads *)
Definition all_stopped_k (k : kernel) : Prop := forall x, krunning k x = false.
Definition spec_all_stop (t : tracer) (k : kernel) : bool :=
  forallb (fun p => negb (kst_running (k_st (snd p)))) (k_threads k)
  && same_set (map fst (t_threads t)) (klive k).

(* C09 exactly-once: each time thread x executes the original instruction at a user
   breakpoint address a (it "passes" the breakpoint) exactly one Breakpoint(x, a) stop has been
   reported for that arrival; one more report may be outstanding for a thread still
   standing on the breakpoint. *)
Definition bp_reports (srs : list (option stop_reason)) : list (N * N) :=
  filter_map (fun o => match o with Some (SRBreakpoint x a) => Some (x, a) | _ => None end) srs.
Definition spec_exactly_once (user_bps : list N) (srs : list (option stop_reason)) (k : kernel) : bool :=
  let passes := filter (fun p => mem (snd p) user_bps) (k_exec k) in
  let reps := filter (fun p => mem (snd p) user_bps) (bp_reports srs) in
  forallb (fun p => let r := count p reps in let e := count p passes in Nat.eqb r e || Nat.eqb r (S e)) (passes ++ reps).

(* C09 "no original instruction skipped or executed twice": the instructions executed by each
   thread follow the program's successor relation *)
Fixpoint chain_ok (k : kernel) (last : list (tid * N)) (l : list (tid * N)) : bool :=
  match l with
  | [] => true
  | (x, pc) :: r =>
      match alist_get N.eqb last x with
      | Some prev => (next_pc k prev =? pc) && chain_ok k ((x, pc) :: last) r
      | None => chain_ok k ((x, pc) :: last) r
      end
  end.
Definition spec_no_skip (k : kernel) : bool := chain_ok k [] (k_exec k).

(* C10: every sent signal is handed to its thread exactly once (never, for SIGINT), and the
   signal stops reported are exactly the non-quiet signals sent, with the receiving thread.
   Meant for a quiescent end state: nothing pending, nobody in a signal stop. *)
Definition sig_reports (srs : list (option stop_reason)) : list (N * N) :=
  filter_map (fun o => match o with Some (SRSignal x s) => Some (x, s) | _ => None end) srs.
Definition spec_delivery (sent deliv : list (N * N)) : bool :=
  same_bag (filter (fun p => negb (transparent (snd p))) sent) deliv.
Definition spec_reported (sent reported : list (N * N)) : bool :=
  same_bag (filter (fun p => negb (quiet (snd p))) sent) reported.
Definition kquiescent (k : kernel) : bool :=
  forallb (fun p => match k_pend (snd p) with [] => true | _ => false end
                    && match k_st (snd p) with KSig _ => false | _ => true end) (k_threads k).

(* ------------------------------------------------------------------------------------- *)
(* 5. Correspondence cases                                                                 *)
(* ------------------------------------------------------------------------------------- *)

(* 5a. trace replay: one call of Tracer::resume / Tracer::single_step of a real run, with the
   wait statuses it consumed (in order), the ptrace requests it issued, what it returned, the
   tracer's thread table afterwards and the scheduler state of every task of the debuggee
   (/proc/<pid>/task/*/stat: true = 't' tracing stop, zombies left out). *)
Record rworld := mkR { r_waits : list wstatus; r_log : list preq; r_pcs : list (tid * N); r_fail : list preq }.

Definition ev_eqb (a b : ev_kind) : bool :=
  match a, b with
  | EvExec, EvExec | EvStop, EvStop | EvExit, EvExit | EvOther, EvOther => true
  | EvClone x, EvClone y => x =? y
  | _, _ => false end.
Definition preq_eqb (a b : preq) : bool :=
  match a, b with
  | PCont x d, PCont y e | PStep x d, PStep y e | PSetPc x d, PSetPc y e => (x =? y) && (d =? e)
  | PSyscall x, PSyscall y | PInterrupt x, PInterrupt y | PBpDisable x, PBpDisable y | PBpEnable x, PBpEnable y => x =? y
  | _, _ => false end.
Definition sr_eqb (a b : stop_reason) : bool :=
  match a, b with
  | SRExit x, SRExit y | SRNoSuchProcess x, SRNoSuchProcess y => x =? y
  | SRStart, SRStart => true
  | SRBreakpoint x p, SRBreakpoint y q | SRWatchpoint x p, SRWatchpoint y q | SRSignal x p, SRSignal y q => (x =? y) && (p =? q)
  | _, _ => false end.
Definition osr_eqb (a b : option stop_reason) : bool :=
  match a, b with Some x, Some y => sr_eqb x y | None, None => true | _, _ => false end.
Definition tstatus_eqb (a b : tstatus) : bool :=
  match a, b with
  | TRunning, TRunning => true
  | TStopped StInterrupt, TStopped StInterrupt => true
  | TStopped (StSignal x), TStopped (StSignal y) => x =? y
  | _, _ => false end.

Fixpoint take_wait (l : list wstatus) (target : option tid) : option (wstatus * list wstatus) :=
  match l with
  | [] => None
  | s :: r =>
      if match target with Some y => ws_tid s =? y | None => true end then Some (s, r)
      else match take_wait r target with Some (s', r') => Some (s', s :: r') | None => None end
  end.
(* waitpid(tid) takes the first recorded status of that thread, waitpid(-1) the first one;
   Err 99: the model waits where the real run did not *)
Definition rw_wait (w : rworld) (target : option tid) : res (wstatus * rworld) :=
  match take_wait (r_waits w) target with
  | None => Err 99
  | Some (s, rest) =>
      let pcs := match s with WStopped x _ _ pc => (x, pc) :: r_pcs w | _ => r_pcs w end in
      Ok (s, mkR rest (r_log w) pcs (r_fail w))
  end.
Definition rw_req (w : rworld) (r : preq) : bool * rworld :=
  let pcs := match r with PSetPc x pc => (x, pc) :: r_pcs w | _ => r_pcs w end in
  (negb (existsb (preq_eqb r) (r_fail w)), mkR (r_waits w) (r_log w ++ [r]) pcs (r_fail w)).
Definition rw_pc (w : rworld) (x : tid) : N := match alist_get N.eqb (r_pcs w) x with Some p => p | None => 0 end.

Inductive rop := RResume | RSingleStep (pid : tid) (pc0 : N).
Record rcall := mk_rcall {
  rc_op : rop;
  rc_bps : list bp;                      (* tcx.breakpoints *)
  rc_waits : list wstatus;               (* statuses returned by waitpid during the call, in order *)
  rc_reqs : list preq;                   (* ptrace requests issued during the call *)
  rc_fail : list preq;                   (* those of them answered ESRCH *)
  rc_ok : bool;                          (* the call returned Ok *)
  rc_stop : option stop_reason;          (* what it returned *)
  rc_threads : list (tid * tstatus);     (* TraceeCtl::snapshot() after the call *)
  rc_tasks : list (tid * bool) }.        (* kernel view after the call *)
Definition trace_case : Type := (tid * list (tid * tstatus) * list rcall)%type.

Definition perm_eqb (a b : list preq) : bool :=
  Nat.eqb (length a) (length b)
  && forallb (fun r => Nat.eqb (length (filter (preq_eqb r) a)) (length (filter (preq_eqb r) b))) a.
Definition threads_eqb (a b : list (tid * tstatus)) : bool :=
  Nat.eqb (length a) (length b)
  && forallb (fun p => match tget b (fst p) with Some s => tstatus_eqb s (snd p) | None => false end) a.

Definition RFUEL : nat := 400.
Definition rcall_model (t : tracer) (c : rcall) : tracer * bool :=
  let w0 := mkR (rc_waits c) [] (match rc_op c with RSingleStep p pc0 => [(p, pc0)] | RResume => [] end) (rc_fail c) in
  let r := match rc_op c with
           | RResume => match resume STEP_QUIET_DEQUEUES rworld rw_wait rw_req rw_pc RFUEL (rc_bps c) t w0 with
                        | Ok (t1, w1, sr) => Ok (t1, w1, Some sr) | Err e => Err e | Panic s => Panic s | OutOfFuel => OutOfFuel end
           | RSingleStep p _ => sstep STEP_QUIET_DEQUEUES rworld rw_wait rw_req rw_pc RFUEL (rc_bps c) t w0 p
           end in
  match r with
  | Ok (t1, w1, sr) =>
      (t1, rc_ok c && match r_waits w1 with [] => true | _ => false end && perm_eqb (r_log w1) (rc_reqs c)
           && osr_eqb sr (rc_stop c) && threads_eqb (t_threads t1) (rc_threads c))
  | _ => (with_threads t (rc_threads c), negb (rc_ok c))
  end.
Definition is_user_stop (o : option stop_reason) : bool :=
  match o with Some (SRBreakpoint _ _) | Some (SRWatchpoint _ _) | Some (SRSignal _ _) => true | _ => false end.
Definition rcall_spec (c : rcall) : bool :=
  if rc_ok c && is_user_stop (rc_stop c) then
    forallb (fun p => snd p) (rc_tasks c) && same_set (map fst (rc_threads c)) (map fst (rc_tasks c))
    && forallb (fun p => is_stopped (Some (snd p))) (rc_threads c)
  else true.
Fixpoint trace_run (t : tracer) (cs : list rcall) : bool * bool :=
  match cs with
  | [] => (true, true)
  | c :: r => let '(t1, m) := rcall_model t c in
              let '(m', s') := trace_run t1 r in (m && m', rcall_spec c && s')
  end.
Definition trace_check (c : trace_case) : N :=
  let '(p, threads, calls) := c in
  let '(m, s) := trace_run (mkT p threads [] false) calls in verdict m s.

(* 5b. signal accounting: the harness sends signals with tgkill while the debuggee is
   stopped, interleaved with stepi / continue of the debugger; the debuggee counts handler
   invocations per signal number and prints the counters when it exits. *)
Inductive acct_ev := ASend (t : tid) (s : sig) | AOp (o : api_op).
Definition acct_case : Type :=
  (list tid                  (* threads, main thread first; all stopped, focus on the main thread *)
   * list acct_ev            (* what the harness did, in order; the last continue runs to exit *)
   * list (sig * N)          (* handler counters printed by the debuggee *)
   * list (tid * sig))%type. (* SignalStop(tid, sig) reported by the debugger, in order *)

Definition AFUEL : nat := 200.
Fixpoint acct_run (d : dbg) (w : kworld) (evs : list acct_ev) (acc : list (option stop_reason))
  : res (kworld * list (option stop_reason)) :=
  match evs with
  | [] => Ok (w, acc)
  | ASend x s :: r => acct_run d (kenv (fst w) (CSend x s), snd w) r acc
  | AOp o :: r =>
      q <- api_step STEP_QUIET_DEQUEUES kworld kw_wait kw_req kw_pc AFUEL [] d w o ;;
      let '(d1, w1, sr) := q in acct_run d1 w1 r (acc ++ [sr])
  end.
Definition sends (evs : list acct_ev) : list (N * N) :=
  filter_map (fun e => match e with ASend x s => Some (x, s) | _ => None end) evs.
Definition count_sig (s : N) (l : list (N * N)) : N := N.of_nat (length (filter (fun p => snd p =? s) l)).
Definition counters_match (counters : list (N * N)) (deliv : list (N * N)) : bool :=
  forallb (fun c => snd c =? count_sig (fst c) deliv) counters
  && forallb (fun p => match alist_get N.eqb counters (snd p) with Some _ => true | None => false end) deliv.
Definition acct_check (c : acct_case) : N :=
  let '(tids, evs, counters, reported) := c in
  let threads := map (fun x => (x, 100 * x)) tids in
  let d := mkD (tinit threads) (hd 0 tids) (100 * hd 0 tids) in
  let model_ok :=
    match acct_run d (kinit threads [] [], []) evs [] with
    | Ok ((k, _), srs) => counters_match counters (k_deliv k) && list_eqb pair_eqb (sig_reports srs) reported
    | _ => false
    end in
  let sent := sends evs in
  let spec_ok :=
    counters_match counters (filter (fun p => negb (transparent (snd p))) sent)
    && spec_reported sent reported in
  verdict model_ok spec_ok.
