(* Replay of an observed watchpoint history (C14 e2e leg) through the model (Wp.v) and
   against the specification (Spec/DrArch.v): no proofs here. *)
From BS Require Import Model.Base Gen.Dr Model.Dr Model.Wp Spec.DrArch.
Open Scope N_scope.

Inductive ev :=
| ENew (tid : N)
| EExit (tid : N)
| EObs (threads : list (N * list N * N))      (* (tid, DR0-3, DR7) read with PTRACE_PEEKUSER *)
| EOp (o : wop) (code : N) (len_or_num : N)   (* observed result code; byte length for adds *)
| ESeg (accesses : list (N * bool)) (hits : list N).  (* 8-byte accesses (addr, is_write) and reported hit addresses *)

Definition wp_e2e_case : Type := (N * list ev)%type.

(* the specification's own bookkeeping of what the user has asked for *)
Record want := mk_want { wa_addr : N; wa_len : N; wa_rw : bool }.

Definition access_eqb (a b : access) : bool :=
  match a, b with Write, Write | ReadWrite, ReadWrite | Exec, Exec | IO, IO => true | _, _ => false end.
Definition want_matches (w : want) (h : hwbp) : bool :=
  (wa_addr w =? hb_addr h) && (wa_len w =? hb_len h)
  && access_eqb (if wa_rw w then ReadWrite else Write) (hb_access h).

Definition decoded (regs : list N) (d7 : N) : list hwbp :=
  filter_map (fun x => x) (arch_decode regs d7).

Definition set_eq (ws : list want) (hs : list hwbp) : bool :=
  forallb (fun w => existsb (want_matches w) hs) ws
  && forallb (fun h => existsb (fun w => want_matches w h) ws) hs
  && Nat.eqb (length ws) (length hs).

Definition overlaps (w : want) (a : N) : bool := (a <=? wa_addr w) && (wa_addr w <? a + 8).

(* every access to watched bytes reports exactly one hit, on a matching watchpoint *)
Fixpoint hits_ok (ws : list want) (accs : list (N * bool)) (hits : list N) : bool :=
  match accs with
  | [] => match hits with [] => true | _ => false end
  | (a, is_write) :: rest =>
      let m := filter (fun w => overlaps w a && (is_write || wa_rw w)) ws in
      match m with
      | [] => hits_ok ws rest hits
      | _ => match hits with
             | [] => false
             | h :: hs => existsb (fun w => wa_addr w =? h) m && hits_ok ws rest hs
             end
      end
  end.

Fixpoint remove_first_addr (ws : list want) (a : N) : list want :=
  match ws with
  | [] => []
  | w :: t => if wa_addr w =? a then t else w :: remove_first_addr t a
  end.

Definition hw_image_eqb (h : hw) (regs : list N) (d7 : N) : bool :=
  list_eqb N.eqb (h_regs h) regs && (h_dr7 h =? d7).

Definition threads_match (s : st) (obs : list (N * list N * N)) : bool :=
  Nat.eqb (length (threads s)) (length obs)
  && forallb (fun o => let '(tid, regs, d7) := o in
                       existsb (fun th => (fst th =? tid) && hw_image_eqb (snd th) regs d7) (threads s)) obs.

Record rstate := mk_r { r_st : st; r_want : list (N * want) (* keyed by the model's number *); r_mok : bool; r_sok : bool }.

Definition step_ev (r : rstate) (e : ev) : rstate :=
  let s := r_st r in
  match e with
  | ENew t => mk_r (new_thread s t) (r_want r) (r_mok r) (r_sok r)
  | EExit t => mk_r (exit_thread s t) (r_want r) (r_mok r) (r_sok r)
  | EObs obs =>
      mk_r s (r_want r)
           (r_mok r && threads_match s obs)
           (r_sok r && forallb (fun o => let '(_, regs, d7) := o in set_eq (map snd (r_want r)) (decoded regs d7)) obs)
  | EOp o code len =>
      let '(s', mcode) := wstep s o in
      let agree := (mcode =? code) in
      let want' :=
        match o with
        | WAddAddr a _ c | WAddExpr a _ c _ =>
            if code =? 0 then r_want r ++ [(wp_counter s, mk_want a len (c =? COND_DataReadsWrites))] else r_want r
        | WRemoveNum n => if code =? 0 then filter (fun kv => negb (fst kv =? n)) (r_want r) else r_want r
        | WRemoveAddr a =>
            if code =? 0 then
              (fix rm (l : list (N * want)) := match l with
                                               | [] => []
                                               | kv :: t => if wa_addr (snd kv) =? a then t else kv :: rm t
                                               end) (r_want r)
            else r_want r
        | _ => r_want r
        end in
      (* refusals the specification demands: a fifth, or a second on the same address *)
      let must_refuse :=
        match o with
        | WAddAddr a _ _ | WAddExpr a _ _ _ =>
            (4 <=? N.of_nat (length (r_want r))) || existsb (fun kv => wa_addr (snd kv) =? a) (r_want r)
        | _ => false
        end in
      let spec_ok := match o with
                     | WAddAddr _ _ _ | WAddExpr _ _ _ _ => Bool.eqb must_refuse (negb (code =? 0))
                     | _ => code =? 0
                     end in
      mk_r s' want' (r_mok r && agree) (r_sok r && spec_ok)
  | ESeg accs hits =>
      mk_r s (r_want r) (r_mok r) (r_sok r && hits_ok (map snd (r_want r)) accs hits)
  end.

Definition wp_e2e_check (c : wp_e2e_case) : N :=
  let '(main_tid, evs) := c in
  (* watchpoint numbers come from a process-global counter: they are matched through the
     model's own numbering, which only has to be consistent within a history *)
  let r := fold_left step_ev evs (mk_r (st_init main_tid) [] true true) in
  verdict (r_mok r) (r_sok r).
