(* Specification-level check of a signal history (C10 e2e leg): signals sent, the debuggee's
   own handler counters at exit, signal stops the debugger reported. *)
From BS Require Import Model.Base.
Open Scope N_scope.

(* quiet signals per the documentation: SIGALRM 14, SIGURG 23, SIGCHLD 17, SIGIO 29, SIGVTALRM 26, SIGPROF 27 *)
Definition doc_quiet (s : N) : bool := existsb (N.eqb s) [14; 23; 17; 29; 26; 27].
Definition SIGINT : N := 2.

Definition count_of (s : N) (l : list N) : N := N.of_nat (length (filter (N.eqb s) l)).

(* sent signals, (signal, handler count) pairs, (reported signal, reported for the receiving thread?) *)
Definition sig_case : Type := (list N * list (N * N) * list (N * N))%type.

Definition sig_check (c : sig_case) : N :=
  let '(sent, counts, reported) := c in
  (* delivered exactly once each (never for SIGINT) *)
  let delivered_ok :=
    forallb (fun kv => let '(s, n) := kv in n =? (if s =? SIGINT then 0 else count_of s sent)) counts in
  (* reported iff non-quiet, once per instance, with the receiving thread *)
  let rep_sigs := map fst reported in
  let reported_ok :=
    forallb (fun kv => let '(s, _) := kv in
                       count_of s rep_sigs =? (if doc_quiet s then 0 else count_of s sent)) counts
    && forallb (fun r => (snd r =? 1)) reported in
  let ok := delivered_ok && reported_ok in
  verdict ok ok.
