(* Extension of Model/BpMachine.v for property C11 (start, restart, exit, quit, detach).  Nothing of
   the patch machine is redefined; this file adds what it lacks:
   (1) how the end of the process reaches the debugger (wait status -> stop reason -> what the
       interfaces report as exit code): tracer.rs:338-343, :545, resume :116-160, mod.rs:577-593,
       debugee/mod.rs:301-346, step.rs:310-313 / :504-507, dap/yadap/session/control.rs:537-546 (next),
       :577-586 (stepIn), :617-626 (stepOut);
   (2) the debug registers of the debuggee's threads next to the patch machine (world = BpMachine.st *
       Wp.st) and the watchpoint part of Debugger::detach (mod.rs:466-499) and Drop (mod.rs:1275-1372):
       WatchpointRegistry::clear_all (watchpoint.rs:682-688) over WatchpointRegistry::remove
       (watchpoint.rs:623-633, = Wp.remove_at);
   (3) the pure function that disable_all_breakpoints (breakpoint.rs:1161-1189) computes on the
       registry (which breakpoints survive a restart / exit as uninit breakpoints).
   No proofs in this file. *)
From BS Require Import Model.Base.
From BS Require Import Model.BpMachine.
From BS Require Import Gen.Dr Model.Dr Model.Wp.
Open Scope N_scope.

(* ---------- (1) the end of the process ---------- *)
(* what waitpid reports for the thread-group leader when the program ends *)
Inductive wstatus :=
| WExited (code : Z)        (* WaitStatus::Exited(pid, code) *)
| WSignaled (sig : N).      (* WaitStatus::Signaled(pid, sig, core): killed by a signal *)

(* the real exit status of the program, as a shell would show it *)
Definition real_status (w : wstatus) : Z :=
  match w with WExited c => c | WSignaled s => 128 + Z.of_N s end.

(* Tracer::resume + apply_new_status on the final wait status.
   Exited(pid, code) with pid = proc_pid -> StopReason::DebugeeExit(code)  (tracer.rs:338-343);
   Signaled(..) -> Ok(None) (tracer.rs:545): the loop of resume goes on, there is no tracee left
   (all went through PTRACE_EVENT_EXIT, tracer.rs:393-408), cont_stopped does nothing, waitpid(-1)
   fails with ECHILD -> StopReason::NoSuchProcess (tracer.rs:137-143). *)
Inductive end_event := EDebugeeExit (code : Z) | ENoSuchProcess.
Definition resume_at_end (w : wstatus) : end_event :=
  match w with WExited c => EDebugeeExit c | WSignaled _ => ENoSuchProcess end.

(* continue_execution on that event (mod.rs:577-593; trace_until_stop marks the debugee Exited in both
   cases, debugee/mod.rs:301-303, :343-345):
   DebugeeExit(code): disable_all_breakpoints, on_exit(code), Ok(DebugeeExit(code));
   NoSuchProcess: return Err(ProcessNotStarted), no hook, breakpoints not disabled.
   The first component is what the user is told about the exit status. *)
Definition continue_at_end (w : wstatus) : option Z * outcome :=
  match resume_at_end w with
  | EDebugeeExit c => (Some c, OStop (StopExit c))
  | ENoSuchProcess => (None, OErr E_NOT_STARTED)
  end.

(* what the DAP adapter sends as `exited` event for the outcome of a step request (next / stepIn /
   stepOut): control.rs:537-546, :577-586, :617-626 map Err(ProcessExit(code)) to Exited{code}; the DAP
   session runs with NopHook (init.rs:86, :129), so on_exit(code) is not seen by the client.
   E_PROCESS_EXIT is step.rs:312 / :506 `return Err(ProcessExit(0))` ("todo add exit code here"). *)
Definition dap_step_exit_code (o : outcome) : option Z :=
  match o with
  | OExit c => Some c
  | OErr c => if c =? E_PROCESS_EXIT then Some 0%Z else None
  | _ => None
  end.

Definition last_error (l : list outcome) : option outcome := match rev l with o :: _ => Some o | [] => None end.

(* every exit code an outcome list carries (hook on_exit / StopReason::DebugeeExit / Err(ProcessExit)
   after the exit handling) *)
Definition exit_codes (l : list outcome) : list Z :=
  filter_map (fun o => match o with OStop (StopExit c) => Some c | OExit c => Some c | _ => None end) l.

(* ---------- (2) debug registers next to the patch machine ---------- *)
(* WatchpointRegistry::clear_all, watchpoint.rs:682-688: `remove(0)` as many times as there are
   watchpoints, errors dropped by weak_error!, then last_seen_state = None.  remove(idx) takes the
   watchpoint out of the vector BEFORE disabling it (watchpoint.rs:629), so an error still shortens the
   vector; a panic (HardwareBreakpoint::disable: `self.register.expect("should exist")`,
   watchpoint.rs:172, = Panic 2 of Wp.hw_disable) is not caught by weak_error!. *)
Definition drop_first (s : Wp.st) : Wp.st := with_wps s (tl (wps s)) (last_seen s) (wp_counter s).
Fixpoint clear_n (n : nat) (s : Wp.st) : res Wp.st :=
  match n with
  | O => Ok s
  | S k => match remove_at s O with
           | Ok s' => clear_n k s'
           | Err _ => clear_n k (drop_first s)
           | Panic site => Panic site
           | OutOfFuel => OutOfFuel
           end
  end.
Definition clear_all (s : Wp.st) : res Wp.st :=
  s' <- clear_n (length (wps s)) s ;; Ok (with_wps s' (wps s') None (wp_counter s')).

(* the same when the process is gone: HardwareDebugState::current(proc_pid)? fails with ESRCH in
   every remove (watchpoint.rs:171, before the expect), nothing is written, the vector is emptied *)
Definition clear_all_dead (s : Wp.st) : Wp.st := with_wps s [] None (wp_counter s).

(* an attached process: every thread found in /proc/<pid>/task, debug registers as the kernel
   gives them to a process nobody has debugged (all zero) *)
Definition wst_attached (tids : list N) : Wp.st :=
  mk_st (map (fun t => (t, hw_zero)) tids) [] None 1 1 [].

Record world := mk_world { w_bp : BpMachine.st; w_wp : Wp.st }.

Definition clear_for (s : BpMachine.st) (w : Wp.st) : res Wp.st :=
  match s_status s with Exited => Ok (clear_all_dead w) | _ => clear_all w end.

(* Debugger::detach, mod.rs:466-499 *)
Definition detach_w (off : N) (x : world) : res world :=
  if s_detached (w_bp x) then Ok x else
  w' <- clear_for (w_bp x) (w_wp x) ;; Ok (mk_world (detach off (w_bp x)) w').

(* Drop for Debugger, mod.rs:1275-1372: clear_all runs for an external process in every state and for
   a launched one that is InProgress *)
Definition drop_w (off : N) (x : world) : res world :=
  if s_detached (w_bp x) then Ok x else
  w' <- (if s_external (w_bp x) then clear_for (w_bp x) (w_wp x)
         else match s_status (w_bp x) with InProgress => clear_all (w_wp x) | _ => Ok (w_wp x) end) ;;
  Ok (mk_world (drop off (w_bp x)) w').

(* all eight enable bits L0..L3 / G0..G3 of a DR7 image are clear *)
Definition dr7_quiet (d7 : N) : bool :=
  forallb (fun r => negb (dr_enabled d7 r false) && negb (dr_enabled d7 r true)) [0; 1; 2; 3].

(* ---------- (3) what disable_all_breakpoints leaves in the registry ---------- *)
(* BreakpointRegistry::disable_all_breakpoints, breakpoint.rs:1161-1189, registry side only (the
   memory side is BpMachine.disable_all_from): EntryPoint and UserDefined breakpoints become uninit
   breakpoints under their Global address with their number, everything else is dropped *)
Definition persist (off : N) (b : bp) : option ubp :=
  match b_ty b with
  | TEntry => Some (mk_ubp (Glob (b_addr b - off)) 0 TEntry false)
  | TUser => Some (mk_ubp (Glob (b_addr b - off)) (b_num b) TUser true)
  | _ => None
  end.
Fixpoint dis_of (off : N) (l : list bp) (dis : list ubp) : list ubp :=
  match l with
  | [] => dis
  | b :: t => dis_of off t (match persist off b with Some u => add_uninit u dis | None => dis end)
  end.

(* the user's breakpoints as (number, load address) pairs: active ones and pending (uninit) ones *)
Definition uviews (bps : list bp) : list (N * N) := map (fun b => (b_num b, b_addr b)) (user_bps bps).
Definition pendv (off : N) (r : reg) : list (N * N) :=
  map (fun u => (u_num u, key_addr off (u_key u))) (filter (fun u => bty_eqb (u_ty u) TUser) (r_dis r)).

(* ---------- correspondence case: the lifecycle observations of one session ---------- *)
(* One case = one debugger session on a launched program.  The harness records, for a command list of
   Add / Continue / Restart / Detach / Quit, what the debugger reported as exit codes (on_exit hook
   and Err(ProcessExit) values, in order), the breakpoint list after the last command, and what became
   of the process (0 = still traced, 1 = gone and reaped, 2 = alive and running on its own). *)
Record life_case := mk_life_case {
  lc_trace : list N; lc_entry : N; lc_rbrk : N;
  lc_exit : Z;                       (* native exit status of the program *)
  lc_ops : list op;
  lc_codes : list Z;                 (* exit codes the debugger reported *)
  lc_snapshot : list (N * address);  (* breakpoints_snapshot() after the last command *)
  lc_fate : N
}.
Definition fate_code (f : fate) : N := match f with FTraced => 0 | FReaped => 1 | FReleased => 2 end.
Definition life_check (c : life_case) : N :=
  let code : mem := fun _ => Some 144 in
  let x := run_ops code (lc_trace c) (lc_rbrk c) 0 (fun _ => true) (lc_exit c)
                   (init_launched code (lc_trace c) (lc_entry c) 0) (lc_ops c) in
  let model_ok := list_eqb Z.eqb (lc_codes c) (exit_codes (snd x))
                  && list_eqb view_eqb (lc_snapshot c) (snapshot (s_reg (fst x)))
                  && (lc_fate c =? fate_code (s_fate (fst x))) in
  (* specification: every reported code is the native one; a launched program is never left running *)
  let spec_ok := forallb (Z.eqb (lc_exit c)) (lc_codes c)
                 && (if existsb (fun o => match o with Quit => true | _ => false end) (lc_ops c)
                     then lc_fate c =? 1 else true) in
  verdict model_ok spec_ok.
