(* Shared basic definitions for all models: byte strings, association lists,
   results with explicit Panic / OutOfFuel values.  No proofs in Model files. *)
From Coq Require Export List NArith ZArith Bool Arith.
Export ListNotations.

Arguments N.add : simpl never.
Arguments N.sub : simpl never.
Arguments N.mul : simpl never.
Arguments N.eqb : simpl never.
Arguments N.ltb : simpl never.
Arguments N.leb : simpl never.
Arguments N.div : simpl never.
Arguments N.modulo : simpl never.
Arguments N.pow : simpl never.
Arguments N.land : simpl never.
Arguments N.lor : simpl never.
Arguments N.shiftl : simpl never.
Arguments N.shiftr : simpl never.
Arguments N.testbit : simpl never.
Arguments Z.add : simpl never.
Arguments Z.sub : simpl never.
Arguments Z.mul : simpl never.
Arguments Z.eqb : simpl never.
Arguments Z.ltb : simpl never.
Arguments Z.leb : simpl never.
Arguments Z.div : simpl never.
Arguments Z.modulo : simpl never.
Arguments Z.pow : simpl never.

(* A Rust computation either returns, returns an error value, panics
   (unwrap / index out of range / arithmetic overflow in the debug profile) or
   does not terminate within the fuel given. *)
Inductive res (A : Type) : Type :=
| Ok (a : A)
| Err (code : N)
| Panic (site : N)
| OutOfFuel.
Arguments Ok {A} a.
Arguments Err {A} code.
Arguments Panic {A} site.
Arguments OutOfFuel {A}.

Definition bind {A B} (r : res A) (f : A -> res B) : res B :=
  match r with
  | Ok a => f a
  | Err c => Err c
  | Panic s => Panic s
  | OutOfFuel => OutOfFuel
  end.
Notation "x <- r ;; k" := (bind r (fun x => k)) (at level 61, r at next level, right associativity).

Definition is_ok {A} (r : res A) : bool := match r with Ok _ => true | _ => false end.
Definition is_panic {A} (r : res A) : bool := match r with Panic _ => true | _ => false end.

(* byte strings: a Rust &str / String is modelled by its list of bytes *)
Definition bstr := list N.

Fixpoint list_eqb {A} (eqb : A -> A -> bool) (l1 l2 : list A) : bool :=
  match l1, l2 with
  | [], [] => true
  | x :: xs, y :: ys => eqb x y && list_eqb eqb xs ys
  | _, _ => false
  end.

Definition bstr_eqb : bstr -> bstr -> bool := list_eqb N.eqb.

(* association lists with "first binding wins"; [alist_set] puts the new
   binding in front, which is HashMap::insert's overwrite behaviour. *)
Fixpoint alist_get {K V} (eqb : K -> K -> bool) (l : list (K * V)) (k : K) : option V :=
  match l with
  | [] => None
  | (k', v) :: t => if eqb k k' then Some v else alist_get eqb t k
  end.

Definition alist_set {K V} (l : list (K * V)) (k : K) (v : V) : list (K * V) := (k, v) :: l.

Fixpoint filter_map {A B} (f : A -> option B) (l : list A) : list B :=
  match l with
  | [] => []
  | x :: t => match f x with Some y => y :: filter_map f t | None => filter_map f t end
  end.

Fixpoint is_prefix {A} (eqb : A -> A -> bool) (p l : list A) : bool :=
  match p, l with
  | [], _ => true
  | x :: ps, y :: ls => eqb x y && is_prefix eqb ps ls
  | _ :: _, [] => false
  end.

(* Correspondence verdict of one case: 0 = implementation, model and spec agree;
   1 = implementation differs from the model only (tie broken, spec still met);
   2 = implementation violates the spec on this concrete input. *)
Definition verdict (model_ok spec_ok : bool) : N :=
  if spec_ok then (if model_ok then 0 else 1)%N else 2%N.

(* (index, verdict) of each case of [cs] (from [i]) whose verdict is not 0 *)
Fixpoint mismatches {A} (chk : A -> N) (i : N) (cs : list A) : list (N * N) :=
  match cs with
  | [] => []
  | c :: t => let v := chk c in
              if N.eqb v 0 then mismatches chk (N.succ i) t else (i, v) :: mismatches chk (N.succ i) t
  end.
