(* C19 - model of lexical-scope filtering and location-list selection:
     src/debugger/debugee/dwarf/unit/die_ref.rs   ranges / valid_at / local_variables /
                                                  local_variable / parameters
     src/debugger/debugee/dwarf/unit/die.rs       for_each_children_recursive_t (BFS), ranges
     src/debugger/debugee/dwarf/location.rs       try_as_expression (location lists)
     src/debugger/address.rs:111                  GlobalAddress::in_range / in_ranges
     src/debugger/variable/execute.rs:205-264     variable_die_by_selector / param_die_by_selector
   No proofs in this file. *)
From BS Require Import Model.Base.
Local Open Scope N_scope.

(* ------------------------------------------------------------------ *)
(** * DIE trees                                                         *)

Inductive dkind :=
| KSubprogram      (* DW_TAG_subprogram *)
| KBlock           (* DW_TAG_lexical_block *)
| KInlined         (* DW_TAG_inlined_subroutine *)
| KVar             (* DW_TAG_variable *)
| KParam           (* DW_TAG_formal_parameter *)
| KOther.          (* anything else *)

(* one location-list entry as yielded by gimli's LocListIter: a range with an expression
   (numbered), or a parse error *)
Inductive lentry := LEntry (lbegin lend : N) (data : N) | LBad.

Inductive location :=
| LocNone                          (* no DW_AT_location *)
| LocExpr (e : N)                  (* DW_FORM_exprloc / block *)
| LocList (l : list lentry)        (* loclistx / sec_offset, already decoded *)
| LocOther.                        (* any other attribute form *)

(* offset, tag, DW_AT_name (interned), die_ranges (empty when the DIE has no pc attributes:
   die.rs:73 `unwrap_or_default`), DW_AT_location, children in document order *)
Inductive die :=
| Die (off : N) (kind : dkind) (name : option N) (ranges : list (N * N)) (loc : location)
      (children : list die).

Definition d_off (d : die) := match d with Die o _ _ _ _ _ => o end.
Definition d_kind (d : die) := match d with Die _ k _ _ _ _ => k end.
Definition d_name (d : die) := match d with Die _ _ n _ _ _ => n end.
Definition d_ranges (d : die) := match d with Die _ _ _ r _ _ => r end.
Definition d_loc (d : die) := match d with Die _ _ _ _ l _ => l end.
Definition d_children (d : die) := match d with Die _ _ _ _ _ c => c end.

Fixpoint size (d : die) : nat :=
  match d with
  | Die _ _ _ _ _ cs => S ((fix sz (l : list die) : nat :=
                              match l with [] => O | x :: t => (size x + sz t)%nat end) cs)
  end.

(* ------------------------------------------------------------------ *)
(** * Scope ranges (die_ref.rs:214 ranges, :231 valid_at; address.rs:111)        *)

(* GlobalAddress::in_range: `self >= begin && self < end` *)
Definition in_range (pc : N) (r : N * N) : bool := (fst r <=? pc) && (pc <? snd r).
Definition in_ranges (pc : N) (rs : list (N * N)) : bool := existsb (in_range pc) rs.

(* result of FatDieRef<Variable>::ranges(): the ranges of the nearest ancestor whose tag the
   scope predicate accepts, None when there is no such ancestor *)
Definition ctx : Type := option (list (N * N)).

(* the tags ranges() stops at: `die.tag() == DW_TAG_lexical_block || == DW_TAG_subprogram` *)
Definition is_scope_model (k : dkind) : bool :=
  match k with KSubprogram | KBlock => true | _ => false end.

(* DWARF: inlined subroutines are scopes with their own ranges as well *)
Definition is_scope_spec (k : dkind) : bool :=
  match k with KSubprogram | KBlock | KInlined => true | _ => false end.

(* valid_at: `.map(|ranges| pc.in_ranges(&ranges)).unwrap_or(true)` *)
Definition valid_at (c : ctx) (pc : N) : bool :=
  match c with Some rs => in_ranges pc rs | None => true end.

(* ------------------------------------------------------------------ *)
(** * Traversal (die.rs:195 for_each_children_recursive_t)              *)

(* a visited DIE together with its depth below the function DIE and what ranges() returns
   for it (computed on the way down instead of through parent_index) *)
Record vnode := mk_vnode { v_depth : nat; v_ctx : ctx; v_die : die }.

Section Traversal.
Variable sc : dkind -> bool.

Definition child_ctx (c : ctx) (d : die) : ctx :=
  if sc (d_kind d) then Some (d_ranges d) else c.

Definition child_nodes (n : vnode) : list vnode :=
  map (mk_vnode (S (v_depth n)) (child_ctx (v_ctx n) (v_die n))) (d_children (v_die n)).

(* queue = VecDeque; pop_front, visit every child in order, push_back each child.
   The result is the sequence in which the callback sees the DIEs. *)
Fixpoint bfs (fuel : nat) (queue : list vnode) : res (list vnode) :=
  match queue with
  | [] => Ok []
  | n :: q =>
      match fuel with
      | O => OutOfFuel
      | S fuel' =>
          let cs := child_nodes n in
          r <- bfs fuel' (q ++ cs) ;; Ok (cs ++ r)
      end
  end.

(* the function DIE itself has no lexical_block / subprogram ancestor *)
Definition visit (root : die) : res (list vnode) := bfs (size root) [mk_vnode O None root].
End Traversal.

Definition is_var (d : die) : bool := match d_kind d with KVar => true | _ => false end.
Definition is_param (d : die) : bool := match d_kind d with KParam => true | _ => false end.
Definition name_is (d : die) (n : N) : bool :=
  match d_name d with Some m => N.eqb m n | None => false end.

Definition listed (pc : N) (v : vnode) : bool := is_var (v_die v) && valid_at (v_ctx v) pc.
Definition candidate (pc name : N) (v : vnode) : bool :=
  is_var (v_die v) && name_is (v_die v) name && valid_at (v_ctx v) pc.

(* FatDieRef<Function>::local_variables (die_ref.rs:300): `var locals` *)
Definition local_variables (root : die) (pc : N) : res (list vnode) :=
  vs <- visit is_scope_model root ;; Ok (filter (listed pc) vs).

(* FatDieRef<Function>::local_variable (die_ref.rs:328): `var NAME`; the traversal returns
   at the first DIE for which the callback answers Some *)
(* AFTER fix_2: the whole traversal runs and the LAST candidate is kept (deepest, because the
   breadth-first order is non-decreasing in depth; the later one among equally deep ones) *)
Definition last_opt {A} (l : list A) : option A := match rev l with [] => None | x :: _ => Some x end.
Definition local_variable (root : die) (pc name : N) : res (option vnode) :=
  vs <- visit is_scope_model root ;; Ok (last_opt (filter (candidate pc name) vs)).

(* FatDieRef<Function>::parameters (die_ref.rs:345): direct children only, no pc filter *)
Definition parameters (root : die) : list die := filter is_param (d_children root).

(* ------------------------------------------------------------------ *)
(** * Location selection (location.rs:19 try_as_expression)             *)

(* AFTER fix_3: `list_entry.range.begin <= pc && pc < list_entry.range.end`; `Err(_) => true` *)
Definition lentry_match (pc : N) (e : lentry) : bool :=
  match e with LEntry b en _ => (b <=? pc) && (pc <? en) | LBad => true end.

Definition loclist_select (pc : N) (l : list lentry) : option N :=
  match find (lentry_match pc) l with
  | Some (LEntry _ _ d) => Some d
  | Some LBad => None           (* `.transpose().ok()?` *)
  | None => None
  end.

Definition loc_select (pc : N) (loc : location) : option N :=
  match loc with
  | LocExpr e => Some e
  | LocList l => loclist_select pc l
  | LocNone | LocOther => None
  end.

(* ------------------------------------------------------------------ *)
(** * Specification                                                     *)

(* [desc sc k c d v]: v is a proper descendant of d, where d sits at depth k and has scope
   context c; v carries its own depth and the ranges of its innermost enclosing scope DIE *)
Inductive desc (sc : dkind -> bool) : nat -> ctx -> die -> vnode -> Prop :=
| desc_child : forall k c d x,
    In x (d_children d) -> desc sc k c d (mk_vnode (S k) (child_ctx sc c d) x)
| desc_deep : forall k c d x v,
    In x (d_children d) -> desc sc (S k) (child_ctx sc c d) x v -> desc sc k c d v.

(* the variables in lexical scope at pc: variable DIEs below the function whose innermost
   enclosing scope DIE (subprogram, lexical block or inlined subroutine) covers pc *)
Definition in_scope (root : die) (pc : N) (v : vnode) : Prop :=
  desc is_scope_spec O None root v /\ is_var (v_die v) = true /\ valid_at (v_ctx v) pc = true.

(* a shadowed name resolves to its innermost live binding: a candidate no other candidate
   lies deeper than *)
Definition innermost (root : die) (pc name : N) (v : vnode) : Prop :=
  in_scope root pc v /\ name_is (v_die v) name = true /\
  forall v', in_scope root pc v' -> name_is (v_die v') name = true ->
             (v_depth v' <= v_depth v)%nat.

(* location lists: DWARF ranges are half-open *)
Definition lentry_in (pc : N) (e : lentry) : bool :=
  match e with LEntry b en _ => (b <=? pc) && (pc <? en) | LBad => false end.
Definition spec_loclist_select (pc : N) (l : list lentry) : option N :=
  match find (lentry_in pc) l with Some (LEntry _ _ d) => Some d | _ => None end.
Definition spec_loc_select (pc : N) (loc : location) : option N :=
  match loc with
  | LocExpr e => Some e
  | LocList l => spec_loclist_select pc l
  | LocNone | LocOther => None
  end.

(* computable counterparts for the checkers *)
Definition spec_locals (root : die) (pc : N) : res (list vnode) :=
  vs <- visit is_scope_spec root ;; Ok (filter (listed pc) vs).

(* deepest candidate, the later one among equally deep ones *)
Fixpoint deepest (best : option vnode) (l : list vnode) : option vnode :=
  match l with
  | [] => best
  | v :: t => deepest (match best with
                       | Some b => if Nat.leb (v_depth b) (v_depth v) then Some v else best
                       | None => Some v end) t
  end.
Definition spec_lookup (root : die) (pc name : N) : res (option vnode) :=
  vs <- visit is_scope_spec root ;; Ok (deepest None (filter (candidate pc name) vs)).

(* ------------------------------------------------------------------ *)
(** * Correspondence cases                                              *)

Fixpoint insertN (x : N) (l : list N) : list N :=
  match l with [] => [x] | y :: t => if x <=? y then x :: l else y :: insertN x t end.
Fixpoint sortN (l : list N) : list N := match l with [] => [] | x :: t => insertN x (sortN t) end.
Definition names_of (vs : list vnode) : list N :=
  filter_map (fun v => d_name (v_die v)) vs.
Definition same_names (a b : list N) : bool := list_eqb N.eqb (sortN a) (sortN b).

(* (1) `var locals`: function DIE tree, global pc, names listed (any order; unnamed DIEs are
       left out on both sides) *)
Record locals_case := mk_locals_case { sc_tree : die; sc_pc : N; sc_real : list N }.

Definition locals_check (c : locals_case) : N :=
  verdict (match local_variables (sc_tree c) (sc_pc c) with
           | Ok vs => same_names (names_of vs) (sc_real c) | _ => false end)
          (match spec_locals (sc_tree c) (sc_pc c) with
           | Ok vs => same_names (names_of vs) (sc_real c) | _ => false end).

(* (2) `var NAME`: tree, pc, name, and QueryResult::scope() of the variable the debugger
       picked (the ranges of its enclosing block), None if nothing was found *)
Record lookup_case := mk_lookup_case {
  lk_tree : die; lk_pc : N; lk_name : N; lk_real : option (list (N * N))
}.

Definition rng_eqb (a b : N * N) : bool := N.eqb (fst a) (fst b) && N.eqb (snd a) (snd b).
Definition scope_eqb (v : option vnode) (real : option (list (N * N))) : bool :=
  match v, real with
  | None, None => true
  | Some v, Some rs => match v_ctx v with Some c => list_eqb rng_eqb c rs | None => false end
  | _, _ => false
  end.

Definition lookup_check (c : lookup_case) : N :=
  verdict (match local_variable (lk_tree c) (lk_pc c) (lk_name c) with
           | Ok v => scope_eqb v (lk_real c) | _ => false end)
          (match spec_lookup (lk_tree c) (lk_pc c) (lk_name c) with
           | Ok v => scope_eqb v (lk_real c) | _ => false end).

(* (3) `arg all`: tree and the names listed *)
Record params_case := mk_params_case { pa_tree : die; pa_real : list N }.
Definition params_check (c : params_case) : N :=
  let ok := same_names (filter_map d_name (parameters (pa_tree c))) (pa_real c) in
  verdict ok ok.

(* (4) location selection: decoded location list, pc, number of the chosen entry's
       expression (None = no location) *)
Record loc_case := mk_loc_case { lo_loc : location; lo_pc : N; lo_real : option N }.
Definition optN_eqb (a b : option N) : bool :=
  match a, b with Some x, Some y => N.eqb x y | None, None => true | _, _ => false end.
Definition loc_check (c : loc_case) : N :=
  verdict (optN_eqb (loc_select (lo_pc c) (lo_loc c)) (lo_real c))
          (optN_eqb (spec_loc_select (lo_pc c) (lo_loc c)) (lo_real c)).
