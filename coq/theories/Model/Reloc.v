(* C18 - model of load-address handling:
     src/debugger/address.rs            GlobalAddress / RelocatedAddress conversions
     src/debugger/debugee/registry.rs   DwarfRegistry {files, ranges, mappings}
     src/debugger/debugee/mod.rs        update_debug_info_registry, trace_until_stop
     src/debugger/mod.rs:584-631        entry-point / r_brk handling
     src/debugger/breakpoint.rs:430-478 deferred breakpoints
   File paths are modelled by numbers (an injective numbering of PathBuf values).
   No proofs in this file. *)
From BS Require Import Model.Base.
Local Open Scope N_scope.

(* ------------------------------------------------------------------ *)
(** * Addresses (address.rs)                                            *)

Definition USIZE_LIMIT : N := 18446744073709551616.   (* 2^64 *)

(* error codes *)
Definition E_MAPPING_OFFSET_NOT_FOUND : N := 1.   (* Error::MappingOffsetNotFound *)
Definition E_NO_SUITABLE_PLACE : N := 2.          (* Error::NoSuitablePlace *)

(* GlobalAddress::relocate (address.rs:79): `self.0 + offset`, overflow panics in the
   debug profile (site 10) *)
Definition relocate (g off : N) : res N :=
  if g + off <? USIZE_LIMIT then Ok (g + off) else Panic 10.

(* RelocatedAddress::remove_vas_region_offset (address.rs:14): `self.0 - offset`,
   underflow panics in the debug profile (site 11) *)
Definition remove_vas_region_offset (a off : N) : res N :=
  if off <=? a then Ok (a - off) else Panic 11.

(* ------------------------------------------------------------------ *)
(** * Registry (registry.rs)                                            *)

Record rrange := mk_rrange { r_from : N; r_to : N; r_file : N }.   (* (PathBuf, RegionRange) *)

Record registry := mk_registry {
  reg_main : N;                    (* program_path *)
  reg_files : list N;              (* keys of `files` *)
  reg_ranges : list rrange;        (* `ranges`, sorted by r_from *)
  reg_mappings : list (N * N);     (* `mappings` : file -> offset *)
  reg_link : list (N * N)          (* AFTER fix_1: DebugInformation::link_base of each file of `files`
                                      (lowest PT_LOAD p_vaddr, page aligned); absent = 0 *)
}.
Definition link_base_of (lb : list (N * N)) (f : N) : N :=
  match alist_get N.eqb lb f with Some b => b | None => 0 end.

Inductive ord := OLess | OEqual | OGreater.

(* the closure of find_range (registry.rs), operators exactly as written AFTER fix_4:
   `addr >= range.from && addr < range.to` -> Equal; `range.from > addr` -> Greater; else Less *)
Definition range_cmp (addr : N) (r : rrange) : ord :=
  if (r_from r <=? addr) && (addr <? r_to r) then OEqual
  else if addr <? r_from r then OGreater
  else OLess.

(* core::slice::binary_search_by of the pinned toolchain (rust-toolchain.toml: 1.89,
   library/core/src/slice/mod.rs:2971):
     size = len; if size == 0 {Err(0)}; base = 0;
     while size > 1 { half = size/2; mid = base+half;
                      base = if f(self[mid]) == Greater {base} else {mid}; size -= half }
     if f(self[base]) == Equal {Ok(base)} else {Err(..)}
   `get_unchecked` out of range would be undefined behaviour: Panic 1 / Panic 2 here
   (proved unreachable). *)
Section BinarySearch.
Context {T : Type} (f : T -> ord).

Fixpoint bs_loop (fuel : nat) (l : list T) (base size : nat) : res nat :=
  match fuel with
  | O => if Nat.leb size 1 then Ok base else OutOfFuel
  | S fuel' =>
      if Nat.leb size 1 then Ok base
      else
        let half := Nat.div2 size in
        let mid := (base + half)%nat in
        match nth_error l mid with
        | None => Panic 1
        | Some x =>
            bs_loop fuel' l (match f x with OGreater => base | _ => mid end) (size - half)%nat
        end
  end.

(* `.ok()` already applied: Some idx for Ok(idx), None for Err(_) *)
Definition binary_search_by (l : list T) : res (option nat) :=
  match l with
  | [] => Ok None
  | _ =>
      base <- bs_loop (length l) l 0%nat (length l) ;;
      match nth_error l base with
      | None => Panic 2
      | Some x => match f x with OEqual => Ok (Some base) | _ => Ok None end
      end
  end.
End BinarySearch.

(* DwarfRegistry::find_range (registry.rs:205) *)
Definition find_range (ranges : list rrange) (addr : N) : res (option rrange) :=
  oi <- binary_search_by (range_cmp addr) ranges ;;
  match oi with
  | None => Ok None
  | Some i => match nth_error ranges i with Some r => Ok (Some r) | None => Panic 3 end
  end.

Definition mapping_get (m : list (N * N)) (file : N) : option N := alist_get N.eqb m file.

(* DwarfRegistry::find_mapping_offset (registry.rs:245) *)
Definition find_mapping_offset (rg : registry) (addr : N) : res (option N) :=
  orng <- find_range (reg_ranges rg) addr ;;
  match orng with
  | None => Ok None
  | Some r => Ok (mapping_get (reg_mappings rg) (r_file r))
  end.

(* DwarfRegistry::find_by_addr (registry.rs:225): the file whose debug info is used *)
Definition find_by_addr (rg : registry) (addr : N) : res (option N) :=
  orng <- find_range (reg_ranges rg) addr ;;
  match orng with
  | None => Ok None
  | Some r => Ok (if existsb (N.eqb (r_file r)) (reg_files rg) then Some (r_file r) else None)
  end.

(* Debugee::mapping_offset_for_pc (debugee/mod.rs:505) *)
Definition mapping_offset_for_pc (rg : registry) (addr : N) : res N :=
  oo <- find_mapping_offset rg addr ;;
  match oo with Some o => Ok o | None => Err E_MAPPING_OFFSET_NOT_FOUND end.

(* Debugee::mapping_offset_for_file (debugee/mod.rs:516) *)
Definition mapping_offset_for_file (rg : registry) (file : N) : res N :=
  match mapping_get (reg_mappings rg) file with
  | Some o => Ok o
  | None => Err E_MAPPING_OFFSET_NOT_FOUND
  end.

(* GlobalAddress::relocate_to_segment (address.rs:88) *)
Definition relocate_to_segment (rg : registry) (g file : N) : res N :=
  off <- mapping_offset_for_file rg file ;; relocate g off.

(* GlobalAddress::relocate_to_segment_by_pc (address.rs:102) *)
Definition relocate_to_segment_by_pc (rg : registry) (g pc : N) : res N :=
  off <- mapping_offset_for_pc rg pc ;; relocate g off.

(* RelocatedAddress::into_global (address.rs:18) *)
Definition into_global (rg : registry) (a : N) : res N :=
  off <- mapping_offset_for_pc rg a ;; remove_vas_region_offset a off.

(* ------------------------------------------------------------------ *)
(** * update_mappings (registry.rs:73)                                  *)

(* one line of /proc/<pid>/maps: backing file (None = anonymous / other), start, size *)
Record pmap := mk_pmap { pm_file : option N; pm_start : N; pm_size : N }.

Definition pm_of (f : N) (m : pmap) : bool :=
  match pm_file m with Some g => N.eqb g f | None => false end.

(* Iterator::min_by: the FIRST of several equal minima; Iterator::max_by: the LAST of
   several equal maxima *)
Fixpoint min_by_start (best : pmap) (l : list pmap) : pmap :=
  match l with
  | [] => best
  | m :: t => min_by_start (if pm_start m <? pm_start best then m else best) t
  end.
Fixpoint max_by_start (best : pmap) (l : list pmap) : pmap :=
  match l with
  | [] => best
  | m :: t => max_by_start (if pm_start best <=? pm_start m then m else best) t
  end.

(* sort_unstable_by(from): ranges of distinct files never share `from` in a real maps file;
   modelled by insertion sort (ties keep insertion order - unspecified in Rust) *)
Fixpoint insert_range (r : rrange) (l : list rrange) : list rrange :=
  match l with
  | [] => [r]
  | x :: t => if r_from r <? r_from x then r :: l else x :: insert_range r t
  end.
Fixpoint sort_ranges (l : list rrange) : list rrange :=
  match l with [] => [] | r :: t => insert_range r (sort_ranges t) end.

(* body of the `for_each` closure for one file: None = MappingNotFound pushed to `errors`;
   Panic 12 = `higher_sect.start() + higher_sect.size()` overflow *)
Definition file_mapping (lb : list (N * N)) (maps : list pmap) (f : N) : res (option (N * rrange)) :=
  match filter (pm_of f) maps with
  | [] => Ok None
  | m0 :: ms =>
      let lower := min_by_start m0 ms in
      let higher := max_by_start m0 ms in
      if pm_start higher + pm_size higher <? USIZE_LIMIT
      (* AFTER fix_1: `lower_sect.start().saturating_sub(dwarf.link_base())` (N subtraction saturates) *)
      then Ok (Some (pm_start lower - link_base_of lb f, mk_rrange (pm_start lower) (pm_start higher + pm_size higher) f))
      else Panic 12
  end.

(* result: (mappings, unsorted ranges, files without mapping) *)
Fixpoint collect_mappings (lb : list (N * N)) (maps : list pmap) (files : list N)
  : res (list (N * N) * list rrange * list N) :=
  match files with
  | [] => Ok ([], [], [])
  | f :: t =>
      fm <- file_mapping lb maps f ;;
      rest <- collect_mappings lb maps t ;;
      let '(ms, rs, es) := rest in
      match fm with
      | None => Ok (ms, rs, f :: es)
      | Some (off, r) => Ok ((f, off) :: ms, r :: rs, es)
      end
  end.

(* update_mappings(only_main): returns the new registry and the list of files for which
   MappingNotFound was reported *)
Definition update_mappings (rg : registry) (only_main : bool) (maps : list pmap)
  : res (registry * list N) :=
  let fs := if only_main then filter (N.eqb (reg_main rg)) (reg_files rg) else reg_files rg in
  c <- collect_mappings (reg_link rg) maps fs ;;
  let '(ms, rs, es) := c in
  Ok (mk_registry (reg_main rg) (reg_files rg) (sort_ranges rs) ms (reg_link rg), es).

(* DwarfRegistry::dump (registry.rs:281) = `sharedlib info`: every file of `files` with the
   range recorded for it (if any).  Order (main first, then by path) is not modelled: the
   result is keyed by file. *)
Definition range_of_file (rs : list rrange) (f : N) : option (N * N) :=
  match find (fun r => N.eqb (r_file r) f) rs with
  | Some r => Some (r_from r, r_to r)
  | None => None
  end.
Definition dump (rg : registry) : list (N * option (N * N)) :=
  map (fun f => (f, range_of_file (reg_ranges rg) f)) (reg_files rg).

(* ------------------------------------------------------------------ *)
(** * Library load events (debugee/mod.rs:340 update_debug_info_registry)        *)

Definition mem (x : N) (l : list N) : bool := existsb (N.eqb x) l.

Fixpoint add_new (files : list N) (target : list N) : list N :=
  match target with
  | [] => files
  | t :: ts => if mem t files then add_new files ts else add_new (files ++ [t]) ts
  end.

(* reload_plan (registry.rs:169) + remove() of to_del + parse of to_add.  [parse_ok f] is
   whether parse_dependencies_into_registry manages to read file f (external). *)
Section Reload.
Variable parse_ok : N -> bool.

Definition reload (rg : registry) (target : list N) : registry :=
  let keep f := mem f target || N.eqb f (reg_main rg) in
  mk_registry (reg_main rg)
              (add_new (filter keep (reg_files rg)) (filter parse_ok target))
              (filter (fun r => keep (r_file r)) (reg_ranges rg))
              (filter (fun p => keep (fst p)) (reg_mappings rg))
              (reg_link rg).   (* link bases of newly parsed files: supplied with the registry (static per file) *)

(* update_debug_info_registry: link-map names [libs], current /proc/pid/maps [maps] *)
Definition update_debug_info_registry (rg : registry) (libs : list N) (maps : list pmap)
  : res registry :=
  r <- update_mappings (reload rg libs) false maps ;; Ok (fst r).
End Reload.

(* ------------------------------------------------------------------ *)
(** * Deferred breakpoints (breakpoint.rs:430-478, mod.rs:584-631)              *)

(* outcome of set_breakpoint_at_fn / _at_line / _at_addr for one request against the
   current registry *)
Inductive attempt :=
| ANoPlace                               (* Err(NoSuitablePlace) *)
| AInstalled (addrs : list N)            (* Ok: breakpoints enabled at these relocated addresses *)
| AFailed (code : N).                    (* any other Err (mapping offset missing, ptrace) *)

(* what the debugger loop does at a stop that changes the set of loaded objects *)
Inductive ev_kind :=
| EvEntry       (* BrkptType::EntryPoint: registry refreshed (debugee/mod.rs:308-332; not for a
                   statically linked program, which has no link map - not modelled),
                   enable_all_breakpoints, refresh_deferred (mod.rs:593-635, AFTER fix_5;
                   before f0ae46b this arm did not retry the deferred list) *)
| EvLinkerMap.  (* BrkptType::LinkerMapFn (r_brk): registry refreshed (debugee/mod.rs:313),
                   refresh_deferred (mod.rs:636-641) *)

Definition log_entry : Type := (nat * N * list N).   (* event index, request, addresses *)

(* refresh_deferred (breakpoint.rs:453): retain the requests that did not install *)
Fixpoint refresh_deferred (try_set : N -> attempt) (idx : nat) (ds : list N)
  : list N * list log_entry * list (N * N) :=
  match ds with
  | [] => ([], [], [])
  | d :: t =>
      let '(keep, lg, errs) := refresh_deferred try_set idx t in
      match try_set d with
      | AInstalled a => (keep, (idx, d, a) :: lg, errs)
      | ANoPlace => (d :: keep, lg, errs)
      | AFailed c => (d :: keep, lg, (d, c) :: errs)
      end
  end.

(* one round = one event, already combined with the registry state it produced *)
Definition round : Type := (ev_kind * (N -> attempt)).

Fixpoint run_rounds (idx : nat) (rs : list round) (ds : list N) : list N * list log_entry :=
  match rs with
  | [] => (ds, [])
  (* AFTER fix_5 both arms call refresh_deferred *)
  | (_, ts) :: t =>
      let '(keep, lg, _) := refresh_deferred ts idx ds in
      let '(ds', lg') := run_rounds (S idx) t keep in
      (ds', lg ++ lg')
  end.

(* concrete attempt for a function/line request: search all files of the registry
   (search_functions / search_lines), NoSuitablePlace if every file yields no place, else
   relocate every place by its file's mapping offset (create_breakpoint_at_places) and enable
   it (add_breakpoints).  [resolve f d] = global addresses of request d in file f,
   [poke_ok a] = whether ptrace can plant the trap at a (both external). *)
Section Attempt.
Variable resolve : N -> N -> list N.
Variable poke_ok : N -> bool.

Fixpoint relocate_places (rg : registry) (file : N) (gs : list N) : res (list N) :=
  match gs with
  | [] => Ok []
  | g :: t => a <- relocate_to_segment rg g file ;; r <- relocate_places rg file t ;; Ok (a :: r)
  end.

Fixpoint relocate_all (rg : registry) (files : list N) (d : N) : res (list N) :=
  match files with
  | [] => Ok []
  | f :: t => a <- relocate_places rg f (resolve f d) ;; r <- relocate_all rg t d ;; Ok (a ++ r)
  end.

Definition try_set_breakpoint (rg : registry) (d : N) : attempt :=
  if forallb (fun f => match resolve f d with [] => true | _ => false end) (reg_files rg)
  then ANoPlace
  else match relocate_all rg (reg_files rg) d with
       | Ok addrs => if forallb poke_ok addrs then AInstalled addrs else AFailed 3
       | Err c => AFailed c
       | Panic s => AFailed (100 + s)
       | OutOfFuel => AFailed 99
       end.

(* events as they come from the process: kind, link-map names, /proc/pid/maps *)
Definition event : Type := (ev_kind * list N * list pmap).

Variable parse_ok : N -> bool.

Fixpoint rounds_of (rg : registry) (evs : list event) : res (list round) :=
  match evs with
  | [] => Ok []
  | (k, libs, maps) :: t =>
      rg' <- update_debug_info_registry parse_ok rg libs maps ;;
      r <- rounds_of rg' t ;;
      Ok ((k, try_set_breakpoint rg') :: r)
  end.

Definition run_events (rg : registry) (evs : list event) (ds : list N)
  : res (list N * list log_entry) :=
  rs <- rounds_of rg evs ;; Ok (run_rounds 0 rs ds).
End Attempt.

(* ------------------------------------------------------------------ *)
(** * Specification                                                     *)

(* the object whose image contains a: the unique range with from <= a < to *)
Definition in_range (a : N) (r : rrange) : bool := (r_from r <=? a) && (a <? r_to r).
Definition spec_find_range (ranges : list rrange) (a : N) : option rrange :=
  find (in_range a) ranges.

(* ranges sorted, non-empty, pairwise disjoint as half-open intervals *)
Fixpoint wf_ranges (l : list rrange) : bool :=
  match l with
  | [] => true
  | r :: t => (r_from r <? r_to r)
              && match t with [] => true | r2 :: _ => r_to r <=? r_from r2 end
              && wf_ranges t
  end.

(* An ELF image: its file and the lowest p_vaddr of its PT_LOAD segments (page aligned).
   ET_DYN objects (PIE, shared libraries) are linked at 0; ET_EXEC images at their absolute
   link base (0x400000 by default on x86-64).  The kernel / ld.so maps link address v at
   v + bias where bias = (lowest mapping start) - (lowest p_vaddr); for ET_EXEC bias = 0. *)
Record image := mk_image { im_file : N; im_min_vaddr : N }.

Definition lowest_start (maps : list pmap) (f : N) : option N :=
  match filter (pm_of f) maps with
  | [] => None
  | m0 :: ms => Some (pm_start (min_by_start m0 ms))
  end.

(* where link-time address g of image im really is in the process *)
Definition spec_runtime_addr (maps : list pmap) (im : image) (g : N) : option N :=
  match lowest_start maps (im_file im) with
  | None => None
  | Some s => if (im_min_vaddr im <=? s) && (im_min_vaddr im <=? g)
              then Some (g - im_min_vaddr im + s) else None
  end.

(* deferred requests: a request is installed at the first event whose registry makes it
   installable *)
Fixpoint first_ok (idx : nat) (rs : list round) (d : N) : option (nat * list N) :=
  match rs with
  | [] => None
  | (_, ts) :: t => match ts d with AInstalled a => Some (idx, a) | _ => first_ok (S idx) t d end
  end.

(* `sharedlib info`: a file is listed with a range iff it is mapped *)
Definition is_mapped (maps : list pmap) (f : N) : bool := existsb (pm_of f) maps.

(* ------------------------------------------------------------------ *)
(** * Correspondence cases                                              *)

(* (1) address lookup: the registry content, a query address, and what
       Debugee::mapping_offset_for_pc answered (None = Err(MappingOffsetNotFound)) *)
Record reloc_case := mk_reloc_case {
  rc_ranges : list rrange;
  rc_mappings : list (N * N);
  rc_addr : N;
  rc_real : option N
}.

Definition optN_eqb (a b : option N) : bool :=
  match a, b with Some x, Some y => N.eqb x y | None, None => true | _, _ => false end.

Definition reloc_check (c : reloc_case) : N :=
  let rg := mk_registry 0 [] (rc_ranges c) (rc_mappings c) [] in
  let model := match find_mapping_offset rg (rc_addr c) with Ok o => Some o | _ => None end in
  let spec := match spec_find_range (rc_ranges c) (rc_addr c) with
              | Some r => mapping_get (rc_mappings c) (r_file r)
              | None => None end in
  verdict (match model with Some o => optN_eqb o (rc_real c) | None => false end)
          (optN_eqb spec (rc_real c)).

(* (2) registry refresh: the files known, /proc/pid/maps, and the (file, range) list that
       dump_mapped_regions() returned (range None = not mapped) *)
Record maps_case := mk_maps_case {
  mc_main : N;
  mc_files : list N;
  mc_maps : list pmap;
  mc_real : list (N * option (N * N))
}.

Definition optNN_eqb (a b : option (N * N)) : bool :=
  match a, b with
  | Some (x1, x2), Some (y1, y2) => N.eqb x1 y1 && N.eqb x2 y2
  | None, None => true
  | _, _ => false
  end.

Definition dump_get (d : list (N * option (N * N))) (f : N) : option (option (N * N)) :=
  alist_get N.eqb d f.

Definition dump_agree (files : list N) (a b : list (N * option (N * N))) : bool :=
  Nat.eqb (length a) (length b) &&
  forallb (fun f => match dump_get a f, dump_get b f with
                    | Some x, Some y => optNN_eqb x y
                    | _, _ => false end) files.

Definition maps_check (c : maps_case) : N :=
  let rg0 := mk_registry (mc_main c) (mc_files c) [] [] [] in
  let model_ok := match update_mappings rg0 false (mc_maps c) with
                  | Ok (rg, _) => dump_agree (mc_files c) (dump rg) (mc_real c)
                  | _ => false end in
  let spec_ok :=
    Nat.eqb (length (mc_real c)) (length (mc_files c)) &&
    forallb (fun f => match dump_get (mc_real c) f with
                      | Some (Some _) => is_mapped (mc_maps c) f
                      | Some None => negb (is_mapped (mc_maps c) f)
                      | None => false end) (mc_files c) in
  verdict model_ok spec_ok.

(* (3) relocation of a link-time address: image, maps, address g, and the relocated address
       the debugger used (None = error) *)
Record relocate_case := mk_relocate_case {
  lc_image : image;
  lc_maps : list pmap;
  lc_g : N;
  lc_real : option N
}.

Definition relocate_check (c : relocate_case) : N :=
  let f := im_file (lc_image c) in
  let rg0 := mk_registry f [f] [] [] [(f, im_min_vaddr (lc_image c))] in
  let model := match update_mappings rg0 false (lc_maps c) with
               | Ok (rg, _) => match relocate_to_segment rg (lc_g c) f with
                               | Ok a => Some (Some a) | Err _ => Some None | _ => None end
               | _ => None end in
  verdict (match model with Some m => optN_eqb m (lc_real c) | None => false end)
          (optN_eqb (spec_runtime_addr (lc_maps c) (lc_image c) (lc_g c)) (lc_real c)).
