(* Model of src/debugger/debugee/dwarf/symbol.rs : SymbolTab.
   The table is a HashMap keyed by the demangled name, built by `collect()` from the ELF
   symbols in table order (a later symbol with the same demangled name overwrites an
   earlier one); `find` filters the keys with a regular expression.  The regex engine is
   not modelled: it enters as a predicate on names. *)
From BS Require Import Model.Base.

Section SymTab.
Context {V : Type}.
Variable matches : bstr -> bool.       (* regex.find(name).is_some() *)

Definition symtab := list (bstr * V).

(* HashMap::from_iter: insert in order, overwriting *)
Fixpoint st_remove (t : symtab) (k : bstr) : symtab :=
  match t with
  | [] => []
  | (k', v) :: r => if bstr_eqb k k' then st_remove r k else (k', v) :: st_remove r k
  end.
Definition st_insert (t : symtab) (kv : bstr * V) : symtab := kv :: st_remove t (fst kv).
Definition st_collect (syms : list (bstr * V)) : symtab := fold_left st_insert syms [].

(* find(): the (name, value) pairs whose key matches; HashMap iteration order is
   unspecified, so the result is meaningful as a set *)
Definition st_find (t : symtab) : list (bstr * V) := filter (fun kv => matches (fst kv)) t.

End SymTab.

(* correspondence case: (symbols as (demangled name, address), which names the regex
   matches [decided by the real regex crate], the implementation's answer) *)
Definition st_case : Type := (list (bstr * N) * list bstr * list (bstr * N))%type.
Definition in_names (l : list bstr) (n : bstr) : bool := existsb (bstr_eqb n) l.
Definition pair_eqb (a b : bstr * N) : bool := bstr_eqb (fst a) (fst b) && N.eqb (snd a) (snd b).
Definition subset_b (a b : list (bstr * N)) : bool := forallb (fun x => existsb (pair_eqb x) b) a.
Definition st_check (c : st_case) : N :=
  let '(syms, matching, ans) := c in
  let m := st_find (in_names matching) (st_collect syms) in
  let ok := subset_b m ans && subset_b ans m && Nat.eqb (length m) (length ans) in
  verdict ok ok.
