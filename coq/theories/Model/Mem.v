(* Model of word-granular access to a traced process' memory:
   src/debugger/mod.rs read_memory_by_pid / write_memory, and
   src/dap/yadap/session/data.rs write_bytes.
   Memory is a partial map from addresses to bytes (None = no mapping).  PTRACE_PEEKDATA /
   POKEDATA move 8 bytes and fail with EIO unless all 8 are mapped. *)
From BS Require Import Model.Base.
Open Scope N_scope.

Definition mem := N -> option N.
Definition EIO : N := 5.

Definition mapped (m : mem) (a : N) : bool := match m a with Some _ => true | None => false end.

Fixpoint range_from (a : N) (k : nat) : list N :=
  match k with O => [] | S k' => a :: range_from (a + 1) k' end.

Definition all_mapped (m : mem) (a : N) (k : nat) : bool := forallb (mapped m) (range_from a k).
Definition get_bytes (m : mem) (a : N) (k : nat) : list N :=
  map (fun x => match m x with Some b => b | None => 0 end) (range_from a k).

(* ptrace(PTRACE_PEEKDATA, a): the 8 bytes at a, little endian order *)
Definition peek (m : mem) (a : N) : res (list N) :=
  if all_mapped m a 8 then Ok (get_bytes m a 8) else Err EIO.

Fixpoint put_bytes (m : mem) (a : N) (bs : list N) : mem :=
  match bs with
  | [] => m
  | b :: t => let m' := put_bytes m (a + 1) t in fun x => if x =? a then Some b else m' x
  end.

(* ptrace(PTRACE_POKEDATA, a, word) *)
Definition poke (m : mem) (a : N) (w : list N) : res mem :=
  if all_mapped m a 8 then Ok (put_bytes m a (firstn 8 w)) else Err EIO.

(* read_memory_by_pid(addr, n): aligned words, the first one entered at addr % 8.
   The buffer grows as words arrive (at most 64 KiB are reserved up front), so a huge n
   is not a panic: the loop runs until a word is unmapped.  No address space holds 2^63
   contiguous mapped bytes, hence EIO for such n (the model does not unroll that loop). *)
Fixpoint read_words (m : mem) (wa : N) (k : nat) : res (list N) :=
  match k with
  | O => Ok []
  | S k' => w <- peek m wa ;; rest <- read_words m (wa + 8) k' ;; Ok (w ++ rest)
  end.

Definition words_covering (a n : N) : nat :=
  if n =? 0 then O else N.to_nat ((a + n - 1) / 8 - a / 8 + 1).

Definition read_memory (m : mem) (a n : N) : res (list N) :=
  if 2 ^ 63 <=? n then Err EIO else
  let skip := a mod 8 in
  ws <- read_words m (a - skip) (words_covering a n) ;;
  Ok (firstn (N.to_nat n) (skipn (N.to_nat skip) ws)).

(* the loop of the previous implementation: unaligned words starting at addr itself;
   kept to state what was wrong with it *)
Definition read_memory_unaligned (m : mem) (a n : N) : res (list N) :=
  ws <- read_words m a (N.to_nat ((n + 7) / 8)) ;; Ok (firstn (N.to_nat n) ws).

(* write_bytes(addr, bytes): read-modify-write of every aligned word the range touches *)
Fixpoint splice (w : list N) (off : nat) (src : list N) : list N :=
  match off, w with
  | O, _ => src ++ skipn (length src) w
  | S o, x :: t => x :: splice t o src
  | S _, [] => []
  end.

Fixpoint write_loop (m : mem) (start endp cur : N) (bytes : list N) (k : nat) : res mem :=
  match k with
  | O => Ok m
  | S k' =>
      if cur <? endp then
        let ws := cur / 8 * 8 in
        let we := ws + 8 in
        let cf := N.max cur ws in
        let ct := N.min endp we in
        existing <- read_memory m ws 8 ;;
        let chunk := firstn (N.to_nat (ct - cf)) (skipn (N.to_nat (cf - start)) bytes) in
        m' <- poke m ws (splice existing (N.to_nat (cf - ws)) chunk) ;;
        write_loop m' start endp we bytes k'
      else Ok m
  end.

(* Panic 11 = `addr + bytes.len()` overflows usize (debug profile) *)
Definition write_bytes (m : mem) (a : N) (bytes : list N) : res mem :=
  match bytes with
  | [] => Ok m
  | _ =>
      let n := N.of_nat (length bytes) in
      if 2 ^ 64 <=? a + n then Panic 11 else
      write_loop m a (a + n) a bytes (words_covering a n)
  end.

(* ---- specification ---- *)
Definition spec_read (m : mem) (a n : N) : option (list N) :=
  if all_mapped m a (N.to_nat n) then Some (get_bytes m a (N.to_nat n)) else None.

Definition spec_write (m : mem) (a : N) (bytes : list N) : mem :=
  fun x => if (a <=? x) && (x <? a + N.of_nat (length bytes))
           then Some (nth (N.to_nat (x - a)) bytes 0) else m x.

(* ---- correspondence cases ---- *)
(* a window of memory as (base, bytes with None for holes); addresses outside are unmapped *)
Definition mem_of_window (base : N) (cells : list (option N)) : mem :=
  fun x => if (base <=? x) && (x <? base + N.of_nat (length cells))
           then nth (N.to_nat (x - base)) cells None else None.

Definition opt_eqb (a b : option N) : bool :=
  match a, b with Some x, Some y => x =? y | None, None => true | _, _ => false end.
Definition window_eqb (m : mem) (base : N) (cells : list (option N)) : bool :=
  forallb (fun i => opt_eqb (m (base + N.of_nat i)) (nth i cells None)) (seq 0 (length cells)).

Inductive mem_op :=
| MRead (a n : N) (result : option (list N))           (* None = error *)
| MWrite (a : N) (bytes : list N) (ok : bool) (after : list (option N)).
Definition mem_case : Type := (N * list (option N) * mem_op)%type.

Definition mem_check (c : mem_case) : N :=
  let '(base, cells, op) := c in
  let m := mem_of_window base cells in
  match op with
  | MRead a n r =>
      let model_ok := match read_memory m a n, r with
                      | Ok bs, Some bs' => list_eqb N.eqb bs bs'
                      | Err _, None => true
                      | _, _ => false end in
      let spec_ok := match spec_read m a n, r with
                     | Some bs, Some bs' => list_eqb N.eqb bs bs'
                     | None, None => true
                     | _, _ => false end in
      verdict model_ok spec_ok
  | MWrite a bytes ok after =>
      let model_ok := match write_bytes m a bytes with
                      | Ok m' => ok && window_eqb m' base after
                      | Err _ => negb ok
                      | _ => false end in
      (* spec: success iff every target byte is mapped; then exactly [a, a+n) changes.
         On failure nothing is promised about partial progress except bytes outside the range. *)
      let n := N.of_nat (length bytes) in
      let target_mapped := all_mapped m a (length bytes) in
      let after_m := mem_of_window base after in
      let spec_ok :=
        if ok then target_mapped && window_eqb (spec_write m a bytes) base after
        else negb target_mapped
             && forallb (fun i => let x := base + N.of_nat i in
                                  ((a <=? x) && (x <? a + n)) || opt_eqb (after_m x) (m x)) (seq 0 (length cells)) in
      verdict model_ok spec_ok
  end.
