(* Model of the step commands: src/debugger/step.rs (step_in, step_over_any, step_out_frame),
   src/debugger/debugee/tracer.rs:528 single_step, src/debugger/mod.rs:543 continue_execution,
   :917 step_into, :940 stepi, :1015 step_out, :1023 step_over.  No proofs here.

   The focused thread's real execution is a trace: position k holds the program counter, the
   canonical frame address of the activation that owns it (the activation identity; the stack
   grows down, so a callee has a smaller cfa) and the number of a signal whose signal-stop the
   thread enters on arriving there (0 = none).  [None] = the process has exited.  A trace is a
   function so that it may be infinite (a self-jump never ends). *)
From BS Require Import Model.Base.
Open Scope N_scope.

Record pt := { pc : N; cfa : N; sig : N }.
Definition trace := nat -> option pt.
Definition trace_of_list (l : list pt) : trace := fun i => nth_error l i.

(* one row of the unit's line table, sorted by address (unit/mod.rs `lines`) *)
Record row := { r_addr : N; r_file : N; r_line : N; r_stmt : bool }.
(* a function DIE: range [f_lo, f_hi), prolog() = [f_lo, f_prolog_end), epilog_begin() address,
   decl_file, ranges of inlined subroutines (die_ref.rs:411, :420, :448).  One range per
   function (ranges() may return several for a split function; not modelled). *)
Record func := {
  f_lo : N; f_hi : N; f_prolog_end : N; f_epilog : option N;
  f_epilog_end : option N;   (* since the epilogue repair: address of the first row behind the epilogue_begin row that
                                belongs to another (file, line); None = no such row *)
  f_file : option N;
  f_inline : list (N * N)
}.

Definition E_EXIT : N := 50.      (* Error::ProcessExit(0): step.rs step_out_frame / step_over_any after the
                                     debugee exited during `continue` (the code went to the on_exit hook only),
                                     or a command given to a process that is already gone *)
(* Error::ProcessExit(code) with the real status: tracer.rs single_step when the stepped thread
   went through PTRACE_EVENT_EXIT (before commit c0ceee6 this was a panic, tracee_ensure_mut) *)
Definition E_EXIT_CODE (code : N) : N := 1000 + code.
Definition E_NOFUNC : N := 51.    (* Error::NoFunctionRanges *)

Inductive why := WDone | WSignal (s : N) | WBreakpoint | WExit.
Definition outcome : Type := (nat * why)%type.             (* position where the thread is left, reason *)

Definition in_rng (lo hi a : N) : bool := (lo <=? a) && (a <? hi).
Definition memN (a : N) (l : list N) : bool := existsb (N.eqb a) l.

Section Step.
  Variable tr : trace.
  Variable rows : list row.
  Variable funcs : list func.
  Variable units : list (N * N).       (* address ranges covered by units that have debug info *)
  Variable overflow_checks : bool.     (* debug profile: `p -= 1` on p = 0 panics *)
  Variable exit_code : N.              (* the status the process ends with, if the trace ends *)

  Definition in_unit (a : N) : bool := existsb (fun u => in_rng (fst u) (snd u) a) units.

  (* unit/mod.rs:445 find_place_by_pc: binary search; on a miss the row before the insertion
     point, `saturating_sub` making that row 0 for an address below the first row *)
  Fixpoint last_le (rs : list row) (a : N) (best : option row) : option row :=
    match rs with
    | [] => best
    | r :: t => if r_addr r <=? a then last_le t a (Some r) else best
    end.
  Definition find_place (a : N) : option row :=
    if in_unit a then
      match rows with
      | [] => None
      | r0 :: _ => match last_le rows a None with Some r => Some r | None => Some r0 end
      end
    else None.

  (* unit/mod.rs:483 find_exact_place_by_pc: the first row whose address is a; when that row is
     row 0 the code computes `p -= 1` on p = 0: Panic 30 with overflow checks, otherwise the
     wrapped index names no row and row 0 is returned *)
  Definition find_exact (a : N) : res (option row) :=
    if in_unit a then
      match rows with
      | [] => Ok None
      | r0 :: _ =>
          if r_addr r0 =? a then (if overflow_checks then Panic 30 else Ok (Some r0))
          else Ok (find (fun r => r_addr r =? a) rows)
      end
    else Ok None.

  Definition in_func (f : func) (a : N) : bool := in_rng (f_lo f) (f_hi f) a.
  Definition in_prolog (f : func) (a : N) : bool := in_rng (f_lo f) (f_prolog_end f) a.
  Definition find_func (a : N) : option func :=
    if in_unit a then find (fun f => in_func f a) funcs else None.

  (* ---------------------------------------------------------------- *)
  (* tracer.rs:528 single_step: PTRACE_SINGLESTEP, and again while the pc has not changed.
     Ok (j, None): the thread is at j after the step; Ok (j, Some s): signal-stop.
     The stepped instruction ends the process (tracer.rs:540-550 at /repo HEAD, commit c0ceee6):
     the tracee is gone, the rest is resumed, Err(ProcessExit(code)) with the real status;
     step.rs on_step_error then fires on_exit(code) and drops breakpoints/watchpoints. *)
  Fixpoint single_step (fuel : nat) (pc0 : N) (j : nat) : res (nat * option N) :=
    match fuel with
    | O => OutOfFuel
    | S f =>
        match tr j with
        | None => Err (E_EXIT_CODE exit_code)
        | Some p =>
            if negb (sig p =? 0) then Ok (j, Some (sig p))
            else if pc p =? pc0 then single_step f pc0 (S j)
            else Ok (j, None)
        end
    end.

  (* step.rs:188 single_step_instruction (with or without a breakpoint under the pc) *)
  Definition sstep (fuel : nat) (i : nat) : res (nat * option N) :=
    match tr i with
    | None => Err E_EXIT
    | Some p => single_step fuel (pc p) (S i)
    end.

  (* mod.rs:940 stepi *)
  Definition stepi (fuel : nat) (i : nat) : res outcome :=
    r <- sstep fuel i ;;
    match r with
    | (j, None) => Ok (j, WDone)
    | (j, Some s) => Ok (j, WSignal s)
    end.

  (* ---------------------------------------------------------------- *)
  (* step.rs:79 step_over_prolog + the loop of step_in at :154.  The nested loops are a state
     machine driven by single steps: PFunc = looking for a pc with a function,
     PProlog f = leaving f's prologue range (f is NOT recomputed while stepping). *)
  Inductive phase := PFunc | PProlog (f : func).
  Inductive settled := Return (r : row) | NeedStep (ph : phase).

  Definition settle_prolog (f : func) (a : N) : res settled :=
    if in_prolog f a then Ok (NeedStep (PProlog f))
    else e <- find_exact a ;;
         match e with Some r => Ok (Return r) | None => Ok (NeedStep PFunc) end.

  Definition settle (ph : phase) (a : N) : res settled :=
    match ph with
    | PProlog f => settle_prolog f a
    | PFunc => match find_func a with Some f => settle_prolog f a | None => Ok (NeedStep PFunc) end
    end.

  Definition accept (sfile sline scfa : N) (rw : row) (p : pt) : bool :=
    r_stmt rw && (negb (cfa p =? scfa) || negb ((r_file rw =? sfile) && (r_line rw =? sline))).

  Fixpoint step_in_loop (fuel sf : nat) (ph : phase) (sfile sline scfa : N) (j : nat) : res outcome :=
    match fuel with
    | O => OutOfFuel
    | S f =>
        r <- sstep sf j ;;
        match r with
        | (j', Some s) => Ok (j', WSignal s)
        | (j', None) =>
            match tr j' with
            | None => Err E_EXIT
            | Some p =>
                st <- settle ph (pc p) ;;
                match st with
                | NeedStep ph' => step_in_loop f sf ph' sfile sline scfa j'
                | Return rw =>
                    if accept sfile sline scfa rw p then Ok (j', WDone)
                    else step_in_loop f sf PFunc sfile sline scfa j'
                end
            end
        end
    end.

  (* step.rs:130 the start_place loop: step until the pc has a place *)
  Fixpoint find_start (fuel sf : nat) (j : nat) : res (nat * (row + N)) :=
    match fuel with
    | O => OutOfFuel
    | S f =>
        match tr j with
        | None => Err E_EXIT
        | Some p =>
            match find_place (pc p) with
            | Some rw => Ok (j, inl rw)
            | None =>
                r <- sstep sf j ;;
                match r with
                | (j', Some s) => Ok (j', inr s)
                | (j', None) => find_start f sf j'
                end
            end
        end
    end.

  (* step.rs:69 step_in *)
  Definition step_in (fuel : nat) (i : nat) : res outcome :=
    r <- find_start fuel fuel i ;;
    match r with
    | (j, inr s) => Ok (j, WSignal s)
    | (j, inl rw) =>
        match tr j with
        | None => Err E_EXIT
        | Some p => step_in_loop fuel fuel PFunc (r_file rw) (r_line rw) (cfa p) j
        end
    end.

  (* ---------------------------------------------------------------- *)
  (* mod.rs:543 continue_execution from position i with the int3 set [stops]: the thread runs
     until it ARRIVES (pc changed) at an armed address, enters a signal-stop, or exits. *)
  Fixpoint run (fuel : nat) (stops : N -> bool) (prev : N) (j : nat) : res outcome :=
    match fuel with
    | O => OutOfFuel
    | S f =>
        match tr j with
        | None => Ok (j, WExit)
        | Some p =>
            if negb (sig p =? 0) then Ok (j, WSignal (sig p))
            else if negb (pc p =? prev) && stops (pc p) then Ok (j, WBreakpoint)
            else run f stops (pc p) (S j)
        end
    end.

  (* step.rs after "fix: finish and next stopped in a deeper activation": the hit of one of the
     step's own temporaries in a frame for which [skip] holds is not a stop, the run goes on *)
  Fixpoint run_skip (fuel : nat) (stops : N -> bool) (skip : pt -> bool) (prev : N) (j : nat) : res outcome :=
    match fuel with
    | O => OutOfFuel
    | S f =>
        match tr j with
        | None => Ok (j, WExit)
        | Some p =>
            if negb (sig p =? 0) then Ok (j, WSignal (sig p))
            else if negb (pc p =? prev) && stops (pc p) && negb (skip p) then Ok (j, WBreakpoint)
            else run_skip f stops skip (pc p) (S j)
        end
    end.

  (* tracer.rs:428-449: while any temporary breakpoint exists, the hit of a breakpoint that is
     not temporary is stepped over silently ("unusual" breakpoint) *)
  Definition active (temps users : list N) : N -> bool :=
    match temps with
    | [] => fun a => memN a users
    | _ => fun a => memN a temps
    end.

  (* step.rs:273 step_out_frame (HEAD; the CFA filter is stopped_not_above(start_cfa, true), :249)
     + mod.rs step_out.  [ra] = what Debugee::return_addr gave. *)
  Definition step_out (fuel : nat) (ra : option N) (users : list N) (i : nat) : res outcome :=
    match tr i with
    | None => Err E_EXIT
    | Some p =>
        match ra with
        | None => Ok (i, WDone)
        | Some r =>
            let temps := if memN r users then [] else [r] in
            (* a hit of the temporary in a frame that is not older than the starting one: go on *)
            o <- run_skip fuel (active temps users)
                          (fun q => match temps with [] => false | _ => (pc q =? r) && (cfa q <=? cfa p) end)
                          (pc p) (S i) ;;
            match o with
            | (_, WExit) => Err E_EXIT
            | (j, WBreakpoint) => Ok (j, match temps with [] => WBreakpoint | _ => WDone end)
            | (j, w) => Ok (j, w)
            end
        end
    end.

  (* step.rs:297-350: rows visited from find_place_by_pc(range.begin) while inside the range *)
  Fixpoint suffix_from (rs : list row) (lo : N) : list row :=
    match rs with
    | [] => []
    | r :: t =>
        match t with
        | r2 :: _ => if r_addr r2 <=? lo then suffix_from t lo else rs
        | [] => rs
        end
    end.

  Definition keep_row (f : func) (users : list N) (rw : row) : bool :=
    let a := r_addr rw in
    match f_file f with Some fl => r_file rw =? fl | None => false end
    && negb (in_prolog f a)
    (* step.rs: skip places inside the epilogue, (eb, epilog_end); code laid out behind the epilogue is kept *)
    && match f_epilog f with
       | Some eb => negb ((eb <? a) && match f_epilog_end f with Some ee => a <? ee | None => true end)
       | None => true end
    && negb (existsb (fun ir => in_rng (fst ir) (snd ir) a) (f_inline f))
    && r_stmt rw
    && negb (memN a users).

  Fixpoint collect (f : func) (users : list N) (rs : list row) : list N :=
    match rs with
    | [] => []
    | rw :: t =>
        if in_func f (r_addr rw)
        then (if keep_row f users rw then [r_addr rw] else []) ++ collect f users t
        else []
    end.

  Definition temp_rows (f : func) (users : list N) : list N := collect f users (suffix_from rows (f_lo f)).

  (* step.rs:269 the loop that looks for the current function *)
  Fixpoint find_fn (fuel sf : nat) (j : nat) : res (nat * (func + N)) :=
    match fuel with
    | O => OutOfFuel
    | S f =>
        match tr j with
        | None => Err E_EXIT
        | Some p =>
            match find_func (pc p) with
            | Some fn => Ok (j, inl fn)
            | None =>
                r <- sstep sf j ;;
                match r with
                | (j', Some s) => Ok (j', inr s)
                | (j', None) => find_fn f sf j'
                end
            end
        end
    end.

  (* the temporary breakpoints of `next` *)
  Definition next_temps (fn : func) (ra : option N) (users : list N) : list N :=
    temp_rows fn users ++
    match ra with Some r => if memN r users then [] else [r] | None => [] end.

  (* step.rs:264 step_over_any + mod.rs:1023 step_over *)
  Definition step_over (fuel : nat) (ra : option N) (users : list N) (i : nat) : res outcome :=
    r <- find_fn fuel fuel i ;;
    match r with
    | (j, inr s) => Ok (j, WSignal s)
    | (j0, inl fn) =>
        match tr j0 with
        | None => Err E_EXIT
        | Some p0 =>
            match rows with
            | [] => Err E_NOFUNC
            | _ =>
                let temps := next_temps fn ra users in
                (* a hit of one of the temporaries in a deeper frame: go on *)
                o <- run_skip fuel (active temps users)
                              (fun q => memN (pc q) temps && (cfa q <? cfa p0))
                              (pc p0) (S j0) ;;
                match o with
                | (j, WSignal s) => Ok (j, WSignal s)
                | (_, WExit) => Err E_EXIT
                | (j, w) =>
                    match tr j with
                    | None => Err E_EXIT
                    | Some p =>
                        let w' := match temps with [] => WBreakpoint | _ => WDone end in
                        if match ra with Some r => pc p =? r | None => false end then
                          match find_place (pc p) with
                          | None => Err E_NOFUNC
                          | Some pl => if r_addr pl =? pc p then Ok (j, w') else step_in fuel j
                          end
                        else Ok (j, w')
                    end
                end
            end
        end
    end.

  (* mod.rs:882 execute_on_step_hook: the place shown is looked up from the pc of the thread *)
  Definition reported_place (j : nat) : option row :=
    match tr j with Some p => find_place (pc p) | None => None end.

  (* ================================================================ *)
  (* specification, over the trace only                                *)

  Definition pc_at (j : nat) (a : N) : Prop := exists p, tr j = Some p /\ pc p = a.
  Definition cfa_at (j : nat) (c : N) : Prop := exists p, tr j = Some p /\ cfa p = c.

  (* the thread arrives at position j: the pc changed *)
  Definition arrive (j : nat) : Prop :=
    exists p q, tr (pred j) = Some p /\ tr j = Some q /\ pc p <> pc q /\ (0 < j)%nat.

  (* a statement boundary: the pc is exactly the address of an is_stmt row *)
  Definition stmt_row (a : N) (rw : row) : Prop := In rw rows /\ r_addr rw = a /\ r_stmt rw = true.

  (* stepi: the next position, i.e. exactly one instruction *)
  Definition stepi_spec (i : nat) (o : outcome) : Prop := o = (S i, WDone).

  (* finish from i: the first position after i whose activation is older than i's *)
  Definition return_point (i R : nat) : Prop :=
    exists p, tr i = Some p /\ (i < R)%nat /\
      (exists q, tr R = Some q /\ cfa p < cfa q) /\
      (forall k q, (i < k < R)%nat -> tr k = Some q -> cfa q <= cfa p).
  Definition finish_spec (i : nat) (o : outcome) : Prop := return_point i (fst o).

  (* a position where `step` must have stopped at the latest: a statement boundary of a function
     with debug info, outside every prologue, on another line or in another activation *)
  Definition step_candidate (sfile sline scfa : N) (j : nat) : Prop :=
    exists q rw fn, tr j = Some q /\ arrive j /\ stmt_row (pc q) rw /\ in_unit (pc q) = true /\
      find_func (pc q) = Some fn /\
      (forall g, In g funcs -> in_prolog g (pc q) = false) /\
      (cfa q <> scfa \/ r_file rw <> sfile \/ r_line rw <> sline).

  (* a position where `next` must have stopped at the latest within the current activation:
     a statement boundary of the current function's body on another line *)
  Definition next_candidate (fn : func) (users : list N) (sline scfa : N) (j : nat) : Prop :=
    exists q rw, tr j = Some q /\ arrive j /\ cfa q = scfa /\ In rw rows /\ r_addr rw = pc q /\
      in_func fn (pc q) = true /\ keep_row fn users rw = true /\ r_line rw <> sline.

  (* next never stops inside a callee *)
  Definition not_in_callee (i : nat) (o : outcome) : Prop :=
    forall p q, tr i = Some p -> tr (fst o) = Some q -> cfa p <= cfa q.
End Step.

(* ================================================================== *)
(* correspondence cases                                                *)

Inductive step_kind := KStepi | KStep | KNext | KFinish.

(* the trace is recorded by single-stepping the program from the start position (pc and CFA of
   every stop, far enough to contain the end of the step), then the same position is reached
   again and the real command is given *)
Record step_case := {
  sc_trace : list pt;
  sc_rows : list row;
  sc_funcs : list func;
  sc_units : list (N * N);
  sc_start : nat;
  sc_kind : step_kind;
  sc_ret : option N;            (* Debugee::return_addr at the start position *)
  sc_users : list N;            (* addresses of the enabled user breakpoints *)
  sc_stop_pc : N;               (* where the real debugger left the thread *)
  sc_stop_cfa : N;
  sc_place : option (N * N)     (* (file, line) given to the on_step hook *)
}.

Definition pt_at (l : list pt) (j : nat) : pt :=
  nth j l {| pc := 0; cfa := 0; sig := 0 |}.

(* first position after i with the given pc and cfa *)
Fixpoint first_match (l : list pt) (a c : N) (j : nat) (k : nat) : option nat :=
  match k with
  | O => None
  | S k' => match nth_error l j with
            | Some p => if (pc p =? a) && (cfa p =? c) then Some j else first_match l a c (S j) k'
            | None => None
            end
  end.

Definition is_stmt_addr (rs : list row) (a : N) : bool :=
  existsb (fun r => (r_addr r =? a) && r_stmt r) rs.

Definition line_of (rs : list row) (us : list (N * N)) (a : N) : option (N * N) :=
  match find_place rs us a with Some r => Some (r_file r, r_line r) | None => None end.

Definition opt_pair_eqb (a b : option (N * N)) : bool :=
  match a, b with
  | Some (x1, y1), Some (x2, y2) => (x1 =? x2) && (y1 =? y2)
  | None, None => true
  | _, _ => false
  end.

(* decidable form of the specification on a finite trace; [s] = stop position *)
Definition spec_stop_ok (c : step_case) (s : nat) : bool :=
  let l := sc_trace c in
  let i := sc_start c in
  let p0 := pt_at l i in
  let between := seq (S i) (s - S i) in
  let arrives j := negb (pc (pt_at l j) =? pc (pt_at l (pred j))) in
  let ln := line_of (sc_rows c) (sc_units c) (pc p0) in
  match sc_kind c with
  | KStepi => Nat.eqb s (S i)
  | KFinish =>
      (cfa p0 <? cfa (pt_at l s)) && forallb (fun k => cfa (pt_at l k) <=? cfa p0) between
  | KNext =>
      (* a statement row of the body of the current function itself: same file as the function,
         outside its prologue and outside the bodies of inlined subroutines (an inlined callee is
         a callee: `next` steps over it), cf. next_candidate / keep_row *)
      let body_stmt a :=
        match find_func (sc_funcs c) (sc_units c) (pc p0) with
        | Some f => in_func f a && existsb (fun r => (r_addr r =? a) && keep_row f [] r) (sc_rows c)
        | None => is_stmt_addr (sc_rows c) a
        end in
      (cfa p0 <=? cfa (pt_at l s)) && is_stmt_addr (sc_rows c) (pc (pt_at l s)) &&
      forallb (fun j => negb (arrives j && (cfa (pt_at l j) =? cfa p0) &&
                                body_stmt (pc (pt_at l j)) &&
                                negb (opt_pair_eqb (line_of (sc_rows c) (sc_units c) (pc (pt_at l j))) ln)))
              between
  | KStep =>
      is_stmt_addr (sc_rows c) (pc (pt_at l s)) &&
      forallb (fun j => negb (arrives j && is_stmt_addr (sc_rows c) (pc (pt_at l j)) &&
                                match find_func (sc_funcs c) (sc_units c) (pc (pt_at l j)) with Some _ => true | None => false end &&
                                negb (existsb (fun g => in_prolog g (pc (pt_at l j))) (sc_funcs c)) &&
                                (negb (cfa (pt_at l j) =? cfa p0) ||
                                 negb (opt_pair_eqb (line_of (sc_rows c) (sc_units c) (pc (pt_at l j))) ln))))
              between
  end.

Definition model_outcome (c : step_case) : res outcome :=
  let t := trace_of_list (sc_trace c) in
  let fuel := S (length (sc_trace c)) in
  match sc_kind c with
  | KStepi => stepi t 0 fuel (sc_start c)
  | KStep => step_in t (sc_rows c) (sc_funcs c) (sc_units c) false 0 fuel (sc_start c)
  | KNext => step_over t (sc_rows c) (sc_funcs c) (sc_units c) false 0 fuel (sc_ret c) (sc_users c) (sc_start c)
  | KFinish => step_out t fuel (sc_ret c) (sc_users c) (sc_start c)
  end.

Definition step_check (c : step_case) : N :=
  let l := sc_trace c in
  let model_ok :=
    match model_outcome c with
    | Ok (j, _) => (pc (pt_at l j) =? sc_stop_pc c) && (cfa (pt_at l j) =? sc_stop_cfa c)
    | _ => false
    end in
  let spec_ok :=
    match first_match l (sc_stop_pc c) (sc_stop_cfa c) (S (sc_start c)) (length l) with
    | Some s => spec_stop_ok c s &&
                (* the place reported is the place of the real pc *)
                match sc_place c with
                | Some pl => opt_pair_eqb (Some pl) (line_of (sc_rows c) (sc_units c) (sc_stop_pc c))
                | None => true
                end
    | None => false
    end in
  verdict model_ok spec_ok.
