(* Model of the software-breakpoint machine of BugStalker (single-threaded view):
   src/debugger/breakpoint.rs (Breakpoint::enable/disable, BreakpointRegistry),
   src/debugger/mod.rs (continue_execution, restart_debugee, detach, Drop),
   src/debugger/step.rs (step_over_breakpoint, single_step_instruction, the temporary
   breakpoints of step_over_any / step_out_frame), src/debugger/debugee/tracer.rs
   (TRAP_BRKPT handling, single_step).

   The debuggee is an arbitrary *native trace* [tr] (addresses of the instructions it executes
   when the bytes it fetches are the original ones) over the original image [code].  Patching
   matters in one place only: fetching at pc a byte 0xCC raises a trap with pc+1 instead of
   executing.  The model CPU inspects only the FIRST byte of an instruction (assumption
   H_boundary: breakpoints are requested at instruction starts).  No proofs in this file. *)
From BS Require Import Model.Base.
Open Scope N_scope.

(* ---------- error codes / panic sites ---------- *)
Definition ESRCH : N := 3.             (* ptrace on a dead process *)
Definition EIO : N := 5.               (* PTRACE_PEEK/POKE on an unmapped word *)
Definition E_NOT_STARTED : N := 100.   (* Error::ProcessNotStarted (disable_when_not_stared!) *)
Definition E_PLACE : N := 101.         (* NoDebugInformation / PlaceNotFound *)
Definition E_PROCESS_EXIT : N := 102.  (* Error::ProcessExit(0) of step.rs:250/416 *)
Definition E_INJECTED : N := 103.      (* failure injected by the oracle of StepTemps *)
Definition E_DERAILED : N := 104.      (* model CPU left the native trace / fetched a corrupt byte *)
Definition E_EXIT : N := 105.          (* Error::ProcessExit(code) returned with no exit handling (tracer.rs:443 path) *)
Definition E_DETACHED : N := 199.      (* op after detach: outside the model *)
Definition SITE_NO_BRKPT : N := 1.     (* tracer.rs:420 debug_assert!(mb_hit_brkpt.is_some()) *)
Definition SITE_TRACEE_GONE : N := 2.  (* historical: tracee_ensure_mut(pid).unwrap() after PTRACE_EVENT_EXIT, repaired in /repo c0ceee6; no longer produced *)
Definition SITE_IMPOSSIBLE : N := 99.  (* empty word list; never produced *)

Definition INT3 : N := 204.            (* 0xCC *)

(* ---------- registry data (breakpoint.rs:482, :549, :799, :1004) ---------- *)
Inductive bty := TEntry | TUser | TTemp | TLinker.
(* WatchpointCompanion, TemporaryAsync, Transparent are not modelled (C14 / async / oracles). *)
Definition bty_eqb (x y : bty) : bool :=
  match x, y with TEntry, TEntry | TUser, TUser | TTemp, TTemp | TLinker, TLinker => true | _, _ => false end.

Record bp := mk_bp { b_addr : N; b_num : N; b_saved : N; b_en : bool; b_ty : bty }.

Inductive address := Reloc (a : N) | Glob (g : N).
Definition address_eqb (x y : address) : bool :=
  match x, y with Reloc a, Reloc b => a =? b | Glob a, Glob b => a =? b | _, _ => false end.

Record ubp := mk_ubp { u_key : address; u_num : N; u_ty : bty; u_place : bool }.

Record reg := mk_reg {
  r_bps : list bp;      (* HashMap<RelocatedAddress, Breakpoint>: at most one entry per address *)
  r_dis : list ubp;     (* HashMap<Address, UninitBreakpoint> *)
  r_next : N            (* GLOBAL_BP_COUNTER *)
}.

(* ---------- debuggee process ---------- *)
Definition mem := N -> option N.
Record proc := mk_proc {
  p_mem : mem;          (* text bytes as the process sees them; None = unmapped *)
  p_alive : bool;       (* ptrace requests succeed *)
  p_pos : nat;          (* index in [tr] of the next native instruction *)
  p_pc : N;             (* program counter register *)
  p_exec : list N       (* ghost: instructions executed so far by this process *)
}.

Inductive status := Unload | InProgress | Exited.
Definition status_eqb (x y : status) : bool :=
  match x, y with Unload, Unload | InProgress, InProgress | Exited, Exited => true | _, _ => false end.
(* what exists in the OS for the debuggee *)
Inductive fate :=
| FTraced      (* alive, ptrace-stopped under the debugger *)
| FReaped      (* dead and reaped: nothing left *)
| FReleased.   (* PTRACE_DETACH + SIGCONT: alive, running on its own *)
Definition fate_eqb (x y : fate) : bool :=
  match x, y with FTraced, FTraced | FReaped, FReaped | FReleased, FReleased => true | _, _ => false end.

Record st := mk_st {
  s_reg : reg; s_proc : proc; s_status : status;
  s_detached : bool;    (* Debugger.detached *)
  s_external : bool;    (* process.is_external() *)
  s_fate : fate
}.

Inductive stop :=
| StopBp (pc num : N)   (* hooks.on_breakpoint(pc, number, ..); StopReason::Breakpoint *)
| StopTemp (pc : N)     (* StopReason::Breakpoint at a temporary: no user hook *)
| StopExit (code : Z).  (* hooks.on_exit(code); StopReason::DebugeeExit *)

Inductive op :=
| Add (a : N)           (* break <addr>: set_breakpoint_at_addr *)
| RemoveAddr (a : N)    (* break remove <addr>: remove_breakpoint(Address::Relocated a) *)
| RemoveNum (n : N)     (* break remove <n>: remove_breakpoint_by_number *)
| Continue              (* run when Unload (start_debugee), continue otherwise (continue_debugee) *)
| StepI                 (* stepi *)
| StepTemps (ts : list N) (inject : option nat)
                        (* skeleton of step_over_any / step_out_frame: temporaries at [ts];
                           [inject = Some k]: the k-th fallible call of the sequence fails *)
| Restart               (* start_debugee_force *)
| Detach                (* Debugger::detach *)
| Quit.                 (* Drop for Debugger *)

Inductive outcome :=
| ODone
| OAdded (num : N)
| ORemoved (v : option (N * address))
| OStop (s : stop)
| OExit (code : Z)      (* the call returned Err(ProcessExit(code)) after the exit handling ran: on_exit(code) fired *)
| OErr (c : N)
| OPanic (site : N)
| OFuel.

Section Machine.
Variable code : mem.            (* on-disk image at load addresses *)
Variable tr : list N.           (* native trace of instruction-start addresses, ends with the exit *)
Variable entry rbrk off : N.    (* relocated ELF entry point, r_debug.r_brk, load bias *)
Variable has_place : N -> bool. (* find_place_from_pc succeeds (relocated address) *)
Variable exit_code : Z.         (* exit status of the native run *)

(* ---------- ptrace word access: a u64 is its little-endian byte list (head = low byte) ---------- *)
Definition word_offsets : list N := [0; 1; 2; 3; 4; 5; 6; 7].

Fixpoint read_bytes (m : mem) (a : N) (offs : list N) : option (list N) :=
  match offs with
  | [] => Some []
  | o :: t => match m (a + o), read_bytes m a t with
              | Some b, Some r => Some (b :: r)
              | _, _ => None
              end
  end.

Definition write_bytes (m : mem) (a : N) (w : list N) : mem :=
  fun x => if (a <=? x) && (x <? a + N.of_nat (length w))
           then match nth_error w (N.to_nat (x - a)) with Some b => Some b | None => m x end
           else m x.

(* sys::ptrace::read *)
Definition peek (p : proc) (a : N) : res (list N) :=
  if p_alive p then
    match read_bytes (p_mem p) a word_offsets with Some w => Ok w | None => Err EIO end
  else Err ESRCH.

Definition set_mem (p : proc) (m : mem) : proc := mk_proc m (p_alive p) (p_pos p) (p_pc p) (p_exec p).
Definition set_pc (p : proc) (pc : N) : proc := mk_proc (p_mem p) (p_alive p) (p_pos p) pc (p_exec p).

(* sys::ptrace::write *)
Definition poke (p : proc) (a : N) (w : list N) : res proc :=
  if p_alive p then
    match read_bytes (p_mem p) a word_offsets with
    | Some _ => Ok (set_mem p (write_bytes (p_mem p) a w))
    | None => Err EIO
    end
  else Err ESRCH.

Definition bp_set (b : bp) (saved : N) (en : bool) : bp := mk_bp (b_addr b) (b_num b) saved en (b_ty b).

(* Breakpoint::enable, breakpoint.rs:768 *)
Definition bp_enable (p : proc) (b : bp) : res (proc * bp) :=
  w <- peek p (b_addr b) ;;
  match w with
  | lo :: hi => p' <- poke p (b_addr b) (INT3 :: hi) ;; Ok (p', bp_set b lo true)
  | [] => Panic SITE_IMPOSSIBLE
  end.

(* Breakpoint::disable, breakpoint.rs:782 *)
Definition bp_disable (p : proc) (b : bp) : res (proc * bp) :=
  w <- peek p (b_addr b) ;;
  match w with
  | _ :: hi => p' <- poke p (b_addr b) (b_saved b :: hi) ;; Ok (p', bp_set b (b_saved b) false)
  | [] => Panic SITE_IMPOSSIBLE
  end.

(* ---------- the registry maps ---------- *)
Definition find_bp (a : N) (l : list bp) : option bp := find (fun b => b_addr b =? a) l.
Definition del_bp (a : N) (l : list bp) : list bp := filter (fun b => negb (b_addr b =? a)) l.
Definition ins_bp (b : bp) (l : list bp) : list bp := b :: del_bp (b_addr b) l.           (* HashMap::insert *)
Definition put_bp (b : bp) (l : list bp) : list bp :=                                       (* Cell mutation in place *)
  map (fun x => if b_addr x =? b_addr b then b else x) l.

Definition find_dis (k : address) (l : list ubp) : option ubp := find (fun u => address_eqb (u_key u) k) l.
Definition del_dis (k : address) (l : list ubp) : list ubp := filter (fun u => negb (address_eqb (u_key u) k)) l.
Definition add_uninit (u : ubp) (l : list ubp) : list ubp := u :: del_dis (u_key u) l.    (* breakpoint.rs:1035 *)

(* BreakpointRegistry::add_and_enable, breakpoint.rs:1015: an existing breakpoint at the same
   address is disabled first and then REPLACED (its number is lost). *)
Definition add_and_enable (bps : list bp) (p : proc) (b : bp) : res (list bp * proc) :=
  p1 <- match find_bp (b_addr b) bps with
        | Some ex => r <- bp_disable p ex ;; Ok (fst r)
        | None => Ok p
        end ;;
  r <- bp_enable p1 b ;;
  Ok (ins_bp (snd r) bps, fst r).

Definition mapped (a : N) : bool := match code a with Some _ => true | None => false end.

(* UninitBreakpoint::try_into_brkpt, breakpoint.rs:874 *)
Definition try_into_brkpt (u : ubp) : res bp :=
  a <- match u_key u with
       | Reloc a => if mapped a then Ok a else Err E_PLACE       (* into_global: mapping_offset_for_pc *)
       | Glob g => Ok (g + off)
       end ;;
  match u_ty u with
  | TUser => if u_place u || has_place a then Ok (mk_bp a (u_num u) 0 false TUser) else Err E_PLACE
  | t => Ok (mk_bp a (u_num u) 0 false t)
  end.

(* enable_all_breakpoints, breakpoint.rs:1123: conversions / enables that fail are DROPPED
   (reported as warnings).  The HashMap drain order is arbitrary; the model uses list order. *)
Fixpoint enable_all_from (l : list ubp) (bps : list bp) (p : proc) : list bp * proc :=
  match l with
  | [] => (bps, p)
  | u :: t =>
      match try_into_brkpt u with
      | Ok b => match add_and_enable bps p b with
                | Ok r => enable_all_from t (fst r) (snd r)
                | _ => enable_all_from t bps p
                end
      | _ => enable_all_from t bps p
      end
  end.

(* enable_entry_breakpoint, breakpoint.rs:1143 *)
Definition enable_entry (r : reg) (p : proc) : res (reg * proc) :=
  match find (fun u => bty_eqb (u_ty u) TEntry) (r_dis r) with
  | None => Ok (r, p)
  | Some u =>
      b <- try_into_brkpt u ;;
      x <- add_and_enable (r_bps r) p b ;;
      Ok (mk_reg (fst x) (del_dis (u_key u) (r_dis r)) (r_next r), snd x)
  end.

(* disable_all_breakpoints, breakpoint.rs:1161: disable errors are collected (ignored by every
   caller); EntryPoint and UserDefined survive as uninit breakpoints keyed by Global address with
   the same number, every other type is dropped. *)
Fixpoint disable_all_from (l : list bp) (dis : list ubp) (p : proc) : list ubp * proc :=
  match l with
  | [] => (dis, p)
  | b :: t =>
      let p' := match bp_disable p b with Ok r => fst r | _ => p end in
      let k := Glob (b_addr b - off) in
      let dis' := match b_ty b with
                  | TEntry => add_uninit (mk_ubp k 0 TEntry false) dis
                  | TUser => add_uninit (mk_ubp k (b_num b) TUser true) dis
                  | _ => dis
                  end in
      disable_all_from t dis' p'
  end.

Definition disable_all (r : reg) (p : proc) : reg * proc :=
  let x := disable_all_from (r_bps r) (r_dis r) p in
  (mk_reg [] (fst x) (r_next r), snd x).

(* remove_by_addr, breakpoint.rs:1081.  The active breakpoint is taken out of the map BEFORE it
   is disabled; the result carries the state even when disable fails. *)
Definition remove_by_addr (k : address) (r : reg) (p : proc) : reg * proc * res (option (N * address)) :=
  match find_dis k (r_dis r) with
  | Some u => (mk_reg (r_bps r) (del_dis k (r_dis r)) (r_next r), p, Ok (Some (u_num u, u_key u)))
  | None =>
      match k with
      | Reloc a =>
          match find_bp a (r_bps r) with
          | Some b =>
              let r' := mk_reg (del_bp a (r_bps r)) (r_dis r) (r_next r) in
              if b_en b then
                match bp_disable p b with
                | Ok x => (r', fst x, Ok (Some (b_num b, Reloc a)))
                | Err c => (r', p, Err c)
                | Panic s => (r', p, Panic s)
                | OutOfFuel => (r', p, OutOfFuel)
                end
              else (r', p, Ok (Some (b_num b, Reloc a)))
          | None => (r, p, Ok None)
          end
      | Glob _ => (r, p, Ok None)
      end
  end.

(* remove_by_num, breakpoint.rs:1100: uninit breakpoints first, then active ones; the FIRST match
   in iteration order (HashMap order in the code, list order here).  Internal breakpoints all
   carry number 0. *)
Definition remove_by_num (n : N) (r : reg) (p : proc) : reg * proc * res (option (N * address)) :=
  match find (fun u => u_num u =? n) (r_dis r) with
  | Some u => remove_by_addr (u_key u) r p
  | None =>
      match find (fun b => b_num b =? n) (r_bps r) with
      | Some b => remove_by_addr (Reloc (b_addr b)) r p
      | None => (r, p, Ok None)
      end
  end.

(* snapshot, breakpoint.rs:1207: user-defined only, sorted by number *)
Fixpoint insert_sorted (x : N * address) (l : list (N * address)) : list (N * address) :=
  match l with
  | [] => [x]
  | y :: t => if fst x <=? fst y then x :: l else y :: insert_sorted x t
  end.
Definition sort_views (l : list (N * address)) : list (N * address) := fold_right insert_sorted [] l.

Definition snapshot (r : reg) : list (N * address) :=
  sort_views
    (filter_map (fun b => if bty_eqb (b_ty b) TUser then Some (b_num b, Reloc (b_addr b)) else None) (r_bps r)
     ++ filter_map (fun u => if bty_eqb (u_ty u) TUser then Some (u_num u, u_key u) else None) (r_dis r)).

(* ---------- the CPU ---------- *)
Inductive cpu_ev := EvExec | EvTrap | EvExit | EvDerail | EvFuel.

Definition pc_at (i : nat) : N := nth i tr 0.
Definition opt_eqb (x y : option N) : bool :=
  match x, y with Some a, Some b => a =? b | None, None => true | _, _ => false end.

(* one instruction: executes tr[pos] if pc = tr[pos] and the byte fetched there is the original
   one; a fetched 0xCC traps with pc+1 and executes nothing. *)
Definition cpu_step (p : proc) : proc * cpu_ev :=
  match nth_error tr (p_pos p) with
  | None => (p, EvExit)
  | Some a =>
      if negb (p_pc p =? a) then (p, EvDerail) else
      match p_mem p a with
      | None => (p, EvDerail)
      | Some b =>
          if b =? INT3 then (set_pc p (a + 1), EvTrap)
          else if opt_eqb (code a) (Some b)
          then (mk_proc (p_mem p) (Nat.ltb (S (p_pos p)) (length tr)) (S (p_pos p)) (pc_at (S (p_pos p)))
                        (p_exec p ++ [a]), EvExec)
          else (p, EvDerail)
      end
  end.

(* PTRACE_CONT until the next event *)
Fixpoint run_cpu (fuel : nat) (p : proc) : proc * cpu_ev :=
  match fuel with
  | O => (p, EvFuel)
  | S f => let x := cpu_step p in
           match snd x with
           | EvExec => if p_alive (fst x) then run_cpu f (fst x) else (fst x, EvExit)
           | _ => x
           end
  end.

(* Tracer::single_step, tracer.rs:530: PTRACE_SINGLESTEP, repeated while pc == initial_pc.  When the
   stepped instruction ends the process the tracee is gone after PTRACE_EVENT_EXIT; the step lets the
   rest run (resume) and returns Err(ProcessExit(code)) with the real status (tracer.rs:541-550).
   That error is the [true] flag here (the process record is still needed by the callers); the code
   it carries is [exit_code]. *)
Fixpoint single_step (fuel : nat) (init : N) (p : proc) : res (proc * bool) :=
  match fuel with
  | O => OutOfFuel
  | S f => let x := cpu_step p in
           match snd x with
           | EvExec => if p_alive (fst x)
                       then (if p_pc (fst x) =? init then single_step f init (fst x) else Ok (fst x, false))
                       else Ok (fst x, true)
           | EvTrap => Ok (fst x, false)
           | EvExit => Err ESRCH
           | EvDerail => Err E_DERAILED
           | EvFuel => OutOfFuel
           end
  end.

Definition fuel0 : nat := S (length tr).

(* the disable / single-step / enable core of step_over_breakpoint, step.rs:230-241; flag [true]:
   the step ended the process (the breakpoint stays disabled, nothing is re-enabled) *)
Definition step_over_core (p : proc) (b : bp) : res (proc * bp * bool) :=
  r1 <- bp_disable p b ;;
  x <- single_step fuel0 (p_pc (fst r1)) (fst r1) ;;
  if snd x then Ok (fst x, snd r1, true)
  else r <- bp_enable (fst x) (snd r1) ;; Ok (fst r, snd r, false).

(* step_over_breakpoint, step.rs:222 *)
Definition step_over_breakpoint (bps : list bp) (p : proc) : res (list bp * proc * bool) :=
  match find_bp (p_pc p) bps with
  | Some b => if b_en b then r <- step_over_core p b ;; Ok (put_bp (snd (fst r)) bps, fst (fst r), snd r)
              else Ok (bps, p, false)
  | None => Ok (bps, p, false)
  end.

Definition is_temp (b : bp) : bool := bty_eqb (b_ty b) TTemp.
Definition has_tmp (bps : list bp) : bool := existsb is_temp bps.

Definition with_rp (s : st) (r : reg) (p : proc) : st :=
  mk_st r p (s_status s) (s_detached s) (s_external s) (s_fate s).
Definition with_bps (s : st) (bps : list bp) (p : proc) : st :=
  with_rp s (mk_reg bps (r_dis (s_reg s)) (r_next (s_reg s))) p.

(* what a continue / step call hands back *)
Inductive cres :=
| CStop (x : stop)   (* Ok(StopReason): the hook of [x] fired *)
| CExitErr           (* Err(ProcessExit(exit_code)) from a step over the process-ending instruction, after
                        Debugee::single_step marked the debugee Exited and on_step_error (step.rs:186) ran
                        disable_all_breakpoints and on_exit(exit_code) *)
| CExitRaw.          (* Err(ProcessExit(exit_code)) out of the tracer's own step (tracer.rs:443): the process
                        is gone but status, registry and hooks were not touched *)

(* Debugee::single_step + on_step_error: the state after a step that ended the process *)
Definition exit_by_step (s : st) (bps : list bp) (p : proc) : st :=
  let y := disable_all (mk_reg bps (r_dis (s_reg s)) (r_next (s_reg s))) p in
  mk_st (fst y) (snd y) Exited (s_detached s) (s_external s) FReaped.

(* the loop of continue_execution (mod.rs:560-693) over Tracer::resume / apply_new_status
   (tracer.rs:114, :397-466) *)
Fixpoint cont_loop (fuel : nat) (s : st) : res (st * cres) :=
  match fuel with
  | O => OutOfFuel
  | S f =>
      let x := run_cpu fuel0 (s_proc s) in
      match snd x with
      | EvExit =>
          (* WaitStatus::Exited -> DebugeeExit(code): status Exited, disable_all_breakpoints
             (every ptrace call fails with ESRCH, ignored), on_exit(code) *)
          let y := disable_all (s_reg s) (fst x) in
          Ok (mk_st (fst y) (snd y) Exited (s_detached s) (s_external s) FReaped, CStop (StopExit exit_code))
      | EvTrap =>
          let pc := p_pc (fst x) - 1 in                 (* tracer.rs:412 *)
          let p := set_pc (fst x) pc in
          let bps := r_bps (s_reg s) in
          match find_bp pc bps with
          | None => Panic SITE_NO_BRKPT                 (* tracer.rs:420 *)
          | Some b =>
              if has_tmp bps && negb (is_temp b) then
                (* tracer.rs:432-449: a non-temporary breakpoint hit while temporaries exist is
                   stepped over silently on a clone of the breakpoint *)
                if b_en b then
                  r <- step_over_core p b ;;
                  if snd r
                  then Ok (mk_st (s_reg s) (fst (fst r)) (s_status s) (s_detached s) (s_external s) FReaped, CExitRaw)
                  else cont_loop f (with_bps s bps (fst (fst r)))
                else cont_loop f (with_bps s bps p)
              else
                match b_ty b with
                | TEntry =>                             (* mod.rs:589-625 *)
                    let e := enable_all_from (r_dis (s_reg s)) bps p in
                    r1 <- add_and_enable (fst e) (snd e) (mk_bp rbrk 0 0 false TLinker) ;;
                    r2 <- step_over_breakpoint (fst r1) (snd r1) ;;
                    let s1 := with_rp s (mk_reg (fst (fst r2)) [] (r_next (s_reg s))) (snd (fst r2)) in
                    if snd r2 then Ok (exit_by_step s1 (fst (fst r2)) (snd (fst r2)), CExitErr)
                    else cont_loop f s1
                | TLinker =>                            (* mod.rs:626-631 *)
                    r2 <- step_over_breakpoint bps p ;;
                    if snd r2 then Ok (exit_by_step s (fst (fst r2)) (snd (fst r2)), CExitErr)
                    else cont_loop f (with_bps s (fst (fst r2)) (snd (fst r2)))
                | TUser => Ok (with_bps s bps p, CStop (StopBp pc (b_num b)))    (* mod.rs:632-653 *)
                | TTemp => Ok (with_bps s bps p, CStop (StopTemp pc))            (* mod.rs:657-659 *)
                end
          end
      | EvDerail => Err E_DERAILED
      | _ => OutOfFuel
      end
  end.

Definition loop_fuel : nat := S (S (length tr)).

Definition fresh_proc : proc := mk_proc code true O (pc_at O) [].

(* continue_execution, mod.rs:543 *)
Definition continue_execution (s : st) : res (st * cres) :=
  match s_status s with
  | Unload =>
      (* no breakpoint is active; PTRACE_EVENT_EXEC -> DebugeeStart -> enable_entry_breakpoint *)
      r <- enable_entry (s_reg s) fresh_proc ;;
      cont_loop loop_fuel (mk_st (fst r) (snd r) InProgress (s_detached s) (s_external s) (s_fate s))
  | InProgress =>
      r <- step_over_breakpoint (r_bps (s_reg s)) (s_proc s) ;;
      if snd r then Ok (exit_by_step s (fst (fst r)) (snd (fst r)), CExitErr)
      else cont_loop loop_fuel (with_bps s (fst (fst r)) (snd (fst r)))
  | Exited => Err E_NOT_STARTED
  end.

(* restart_debugee, mod.rs:702 *)
Definition restart_debugee (s : st) : res (st * cres) :=
  let x := match s_status s with
           | InProgress => disable_all (s_reg s) (s_proc s)
           | _ => (s_reg s, s_proc s)
           end in
  (* SIGKILL + reap the old process, install a new one, Debugee::extend: status Unload *)
  continue_execution (mk_st (fst x) fresh_proc Unload (s_detached s) false FTraced).

(* set_breakpoint_at_addr, breakpoint.rs:73 *)
Definition add_at_addr (s : st) (a : N) : st * outcome :=
  let r := s_reg s in
  match s_status s with
  | InProgress =>
      if mapped a && has_place a then
        let n := r_next r in
        let r1 := mk_reg (r_bps r) (r_dis r) (n + 1) in
        match add_and_enable (r_bps r) (s_proc s) (mk_bp a n 0 false TUser) with
        | Ok x => (with_rp s (mk_reg (fst x) (r_dis r) (n + 1)) (snd x), OAdded n)
        | Err c => (with_rp s r1 (s_proc s), OErr c)
        | Panic c => (with_rp s r1 (s_proc s), OPanic c)
        | OutOfFuel => (with_rp s r1 (s_proc s), OFuel)
        end
      else (s, OErr E_PLACE)
  | _ =>
      let n := r_next r in
      (with_rp s (mk_reg (r_bps r) (add_uninit (mk_ubp (Reloc a) n TUser false) (r_dis r)) (n + 1)) (s_proc s),
       OAdded n)
  end.

Definition res_outcome {A} (r : res A) (f : A -> outcome) : outcome :=
  match r with Ok a => f a | Err c => OErr c | Panic c => OPanic c | OutOfFuel => OFuel end.

Definition lift_stop (s : st) (r : res (st * cres)) : st * outcome :=
  match r with
  | Ok x => (fst x, match snd x with CStop y => OStop y | CExitErr => OExit exit_code | CExitRaw => OErr E_EXIT end)
  | Err c => (s, OErr c)
  | Panic c => (s, OPanic c)
  | OutOfFuel => (s, OFuel)
  end.

(* single_step_instruction, step.rs:201 *)
Definition stepi (s : st) : st * outcome :=
  match s_status s with
  | InProgress =>
      let bps := r_bps (s_reg s) in
      let p := s_proc s in
      match find_bp (p_pc p) bps with
      | Some _ => match step_over_breakpoint bps p with
                  | Ok r => if snd r then (exit_by_step s (fst (fst r)) (snd (fst r)), OExit exit_code)
                            else (with_bps s (fst (fst r)) (snd (fst r)), ODone)
                  | e => (s, res_outcome e (fun _ => ODone))
                  end
      | None => match single_step fuel0 (p_pc p) p with
                | Ok x => if snd x then (exit_by_step s bps (fst x), OExit exit_code)
                          else (with_bps s bps (fst x), ODone)
                | e => (s, res_outcome e (fun _ => ODone))
                end
      end
  | _ => (s, OErr E_NOT_STARTED)
  end.

(* installation of the temporaries, step.rs:352-374 (try_for_each with `?`) *)
Fixpoint install_temps (l : list N) (k : nat) (inject : option nat) (bps : list bp) (p : proc)
  : list bp * proc * option N :=
  match l with
  | [] => (bps, p, None)
  | a :: t =>
      if match inject with Some i => Nat.eqb i k | None => false end then (bps, p, Some E_INJECTED) else
      match add_and_enable bps p (mk_bp a 0 0 false TTemp) with
      | Ok x => install_temps t (S k) inject (fst x) (snd x)
      | Err c => (bps, p, Some c)
      | _ => (bps, p, Some SITE_IMPOSSIBLE)
      end
  end.

Fixpoint remove_temps (l : list N) (r : reg) (p : proc) : reg * proc :=
  match l with
  | [] => (r, p)
  | a :: t => let x := remove_by_addr (Reloc a) r p in remove_temps t (fst (fst x)) (snd (fst x))
  end.

(* step_over_any, step.rs:293-380 / step_out_frame, step.rs:237-247, reduced to their
   breakpoint traffic: temporaries at the addresses of [ts] that carry no breakpoint yet,
   continue_execution, removal of the installed temporaries.  Every `?` between the first
   installation and the removal returns early WITHOUT removing what was installed. *)
Definition step_temps (s : st) (ts : list N) (inject : option nat) : st * outcome :=
  match s_status s with
  | InProgress =>
      let r := s_reg s in
      let todo := filter (fun a => match find_bp a (r_bps r) with None => true | Some _ => false end) ts in
      let i := install_temps todo O inject (r_bps r) (s_proc s) in
      let s1 := with_bps s (fst (fst i)) (snd (fst i)) in
      match snd i with
      | Some c => (s1, OErr c)                             (* early return: temporaries stay *)
      | None =>
          match continue_execution s1 with
          | Ok x =>
              match snd x with
              | CExitErr => (fst x, OExit exit_code)       (* `?`: early return; the exit handling dropped the temporaries *)
              | CExitRaw => (fst x, OErr E_EXIT)           (* `?`: early return *)
              | CStop y =>
                  if match inject with Some k => Nat.eqb k (length todo) | None => false end
                  then (fst x, OErr E_INJECTED)            (* continue_execution()? failed (hook / ptrace) *)
                  else
                    let z := remove_temps todo (s_reg (fst x)) (s_proc (fst x)) in
                    let s2 := with_rp (fst x) (fst z) (snd z) in
                    match s_status s2 with
                    | Exited => (s2, OErr E_PROCESS_EXIT)  (* step.rs ProcessExit(0) *)
                    | _ => (s2, OStop y)
                    end
              end
          | Err c => (s1, OErr c)
          | Panic c => (s1, OPanic c)
          | OutOfFuel => (s1, OFuel)
          end
      end
  | _ => (s, OErr E_NOT_STARTED)
  end.

(* Debugger::detach, mod.rs:464 *)
Definition detach (s : st) : st :=
  if s_detached s then s else
  let x := disable_all (s_reg s) (s_proc s) in
  (* tracees exist unless the process has exited: PTRACE_DETACH each + SIGCONT *)
  let f := match s_status s with Exited => s_fate s | _ => FReleased end in
  mk_st (fst x) (snd x) (s_status s) true (s_external s) f.

(* Drop for Debugger, mod.rs:1229 *)
Definition drop (s : st) : st :=
  if s_detached s then s else
  if s_external s then
    let x := disable_all (s_reg s) (s_proc s) in
    let f := match s_status s with Exited => s_fate s | _ => FReleased end in
    mk_st (fst x) (snd x) (s_status s) (s_detached s) (s_external s) f
  else
    match s_status s with
    | Unload => mk_st (s_reg s) (s_proc s) Unload (s_detached s) false FReaped      (* SIGKILL, then waitpid until Exited/Signaled (repair 74c6c3e) *)
    | InProgress =>
        let x := disable_all (s_reg s) (s_proc s) in
        mk_st (fst x) (snd x) InProgress (s_detached s) false FReaped                 (* detach, SIGKILL, reap *)
    | Exited => s
    end.

Definition apply_op (s : st) (o : op) : st * outcome :=
  if s_detached s then (match o with Quit => (drop s, ODone) | Detach => (s, ODone) | _ => (s, OErr E_DETACHED) end) else
  match o with
  | Add a => add_at_addr s a
  | RemoveAddr a =>
      let x := remove_by_addr (Reloc a) (s_reg s) (s_proc s) in
      (with_rp s (fst (fst x)) (snd (fst x)), res_outcome (snd x) ORemoved)
  | RemoveNum n =>
      let x := remove_by_num n (s_reg s) (s_proc s) in
      (with_rp s (fst (fst x)) (snd (fst x)), res_outcome (snd x) ORemoved)
  | Continue =>
      match s_status s with
      | Exited => (s, OErr E_NOT_STARTED)
      | _ => lift_stop s (continue_execution s)
      end
  | StepI => stepi s
  | StepTemps ts inj => step_temps s ts inj
  | Restart =>
      match s_status s with
      | Unload => lift_stop s (continue_execution s)
      | _ => lift_stop s (restart_debugee s)
      end
  | Detach => (detach s, ODone)
  | Quit => (drop s, ODone)
  end.

Fixpoint run_ops (s : st) (ops : list op) : st * list outcome :=
  match ops with
  | [] => (s, [])
  | o :: t =>
      let x := apply_op s o in
      match snd x with
      | OPanic _ => (fst x, [snd x])       (* the debugger is gone *)
      | _ => let y := run_ops (fst x) t in (fst y, snd x :: snd y)
      end
  end.

(* Debugger::new, mod.rs:389: the entry-point breakpoint is registered uninit under its Global
   address; a launched process sits before exec, an attached one is InProgress. *)
Definition init_launched : st :=
  mk_st (mk_reg [] [mk_ubp (Glob (entry - off)) 0 TEntry false] 1) fresh_proc Unload false false FTraced.

(* attached at position [i] of the trace (the part of [tr] before [i] ran undebugged) *)
Definition init_attached (i : nat) : st :=
  mk_st (mk_reg [] [mk_ubp (Glob (entry - off)) 0 TEntry false] 1)
        (mk_proc code (Nat.ltb i (length tr)) i (pc_at i) (firstn i tr)) InProgress false true FTraced.

(* ---------- specification ---------- *)
Definition memb (a : N) (B : list N) : bool := existsb (N.eqb a) B.

(* first index >= k of [tr] whose address is in B *)
Fixpoint next_hit_from (B : list N) (l : list N) (k : nat) : option nat :=
  match l with
  | [] => None
  | a :: t => if memb a B then Some k else next_hit_from B t (S k)
  end.
Definition next_hit (B : list N) (k : nat) : option nat := next_hit_from B (skipn k tr) k.

(* all positions >= k whose address is in B, in order: the projection of the execution *)
Fixpoint hits_from (B : list N) (l : list N) (k : nat) : list nat :=
  match l with
  | [] => []
  | a :: t => if memb a B then k :: hits_from B t (S k) else hits_from B t (S k)
  end.
Definition stops (B : list N) (i : nat) : list nat := hits_from B (skipn i tr) i.

(* the user's breakpoints as the registry reports them *)
Definition user_bps (bps : list bp) : list bp := filter (fun b => bty_eqb (b_ty b) TUser) bps.
Definition user_addrs (s : st) : list N := map b_addr (user_bps (r_bps (s_reg s))).
(* addresses the uninit user breakpoints will occupy *)
Definition key_addr (k : address) : N := match k with Reloc a => a | Glob g => g + off end.
Definition pending_addrs (s : st) : list N :=
  map (fun u => key_addr (u_key u)) (filter (fun u => bty_eqb (u_ty u) TUser) (r_dis (s_reg s))).

(* what `continue` must report from a prompt at position i with user set B *)
Definition spec_continue (B : list N) (i : nat) : nat * option N :=
  match next_hit B (S i) with
  | Some j => (j, Some (pc_at j))
  | None => (length tr, None)
  end.
(* what `run` / restart must report: B is armed when the entry point is first reached *)
Definition spec_start (B : list N) : nat * option N :=
  match next_hit [entry] O with
  | Some e => spec_continue B e
  | None => (length tr, None)
  end.

Definition patched (bps : list bp) (a : N) : bool := existsb (fun b => (b_addr b =? a) && b_en b) bps.
(* memory = original image (+) 0xCC at every enabled breakpoint of the registry *)
Definition mem_is_patch (s : st) : Prop :=
  forall x, p_mem (s_proc s) x = if patched (r_bps (s_reg s)) x then Some INT3 else code x.

End Machine.

(* ---------- the ideal debugger (specification level, no memory, no patching) ---------- *)
Record abs := mk_abs {
  a_user : list (N * N);      (* (number, load address), creation order *)
  a_next : N;
  a_status : status;
  a_pos : nat
}.

Section Ideal.
Variable tr : list N.
Variable entry : N.
Variable exit_code : Z.

Definition abs_init : abs := mk_abs [] 1 Unload O.

Definition abs_stop (a : abs) (x : nat * option N) : abs * outcome :=
  match snd x with
  | Some pc =>
      let num := match find (fun u => snd u =? pc) (a_user a) with Some u => fst u | None => 0 end in
      (mk_abs (a_user a) (a_next a) InProgress (fst x), OStop (StopBp pc num))
  | None => (mk_abs (a_user a) (a_next a) Exited (fst x), OStop (StopExit exit_code))
  end.

Definition abs_op (a : abs) (o : op) : abs * outcome :=
  match o with
  | Add x =>
      (mk_abs (filter (fun u => negb (snd u =? x)) (a_user a) ++ [(a_next a, x)]) (a_next a + 1) (a_status a) (a_pos a),
       OAdded (a_next a))
  | RemoveAddr x =>
      (mk_abs (filter (fun u => negb (snd u =? x)) (a_user a)) (a_next a) (a_status a) (a_pos a), ODone)
  | RemoveNum n =>
      (mk_abs (filter (fun u => negb (fst u =? n)) (a_user a)) (a_next a) (a_status a) (a_pos a), ODone)
  | Continue =>
      match a_status a with
      | Unload => abs_stop a (spec_start tr entry (map snd (a_user a)))
      | InProgress => abs_stop a (spec_continue tr (map snd (a_user a)) (a_pos a))
      | Exited => (a, OErr E_NOT_STARTED)
      end
  | Restart => abs_stop a (spec_start tr entry (map snd (a_user a)))
  | _ => (a, ODone)
  end.

(* the stops an ideal debugger reports over a command list *)
Fixpoint abs_run (a : abs) (ops : list op) : list outcome :=
  match ops with
  | [] => []
  | o :: t => let x := abs_op a o in snd x :: abs_run (fst x) t
  end.
End Ideal.

Definition only_stops (l : list outcome) : list stop :=
  filter_map (fun o => match o with OStop s => Some s | OExit c => Some (StopExit c) | _ => None end) l.

(* ---------- correspondence cases ---------- *)
Definition stop_eqb (x y : stop) : bool :=
  match x, y with
  | StopBp a n, StopBp b m => (a =? b) && (n =? m)
  | StopTemp a, StopTemp b => a =? b
  | StopExit a, StopExit b => Z.eqb a b
  | _, _ => false
  end.
(* the spec fixes pc and order of the stops, not the breakpoint number *)
Definition stop_pc_eqb (x y : stop) : bool :=
  match x, y with
  | StopBp a _, StopBp b _ => a =? b
  | StopTemp a, StopTemp b => a =? b
  | StopExit a, StopExit b => Z.eqb a b
  | _, _ => false
  end.

Definition code_of (img : list (N * N)) : mem := fun a => alist_get N.eqb img a.

(* (b) stop level *)
Record stop_case := mk_stop_case {
  sc_trace : list N;            (* native trace (load addresses) from an independent single-stepper;
                                   iterations of one rep-prefixed instruction collapsed to one entry *)
  sc_entry : N;                 (* load address of the ELF entry point (must occur in the trace) *)
  sc_rbrk : N;                  (* load address of r_debug.r_brk (_dl_debug_state) *)
  sc_exit : Z;                  (* native exit status *)
  sc_ops : list op;             (* Add / RemoveAddr / RemoveNum / Continue / Restart only *)
  sc_stops : list stop          (* what the debugger reported: on_breakpoint(pc, num) / on_exit(code) *)
}.

(* in a stop case every trace address is mapped with a neutral byte and has a place *)
Definition sc_code (c : stop_case) : mem := fun _ => Some 144.

Definition stop_check (c : stop_case) : N :=
  let m := only_stops (snd (run_ops (sc_code c) (sc_trace c) (sc_rbrk c) 0 (fun _ => true) (sc_exit c)
                                     (init_launched (sc_code c) (sc_trace c) (sc_entry c) 0) (sc_ops c))) in
  let a := only_stops (abs_run (sc_trace c) (sc_entry c) (sc_exit c) abs_init (sc_ops c)) in
  verdict (list_eqb stop_eqb (sc_stops c) m) (list_eqb stop_pc_eqb (sc_stops c) a).

(* (a) registry level *)
Record reg_obs := mk_reg_obs {
  ro_snapshot : list (N * address);    (* breakpoints_snapshot(): (number, address) sorted by number *)
  ro_bytes : list (N * bool * N)       (* for every known address: (address, memory byte is 0xCC,
                                          original byte of the image there); [] when no process memory
                                          can be read (not started / exited) *)
}.
Record reg_case := mk_reg_case {
  rc_image : list (N * N);      (* original bytes of the image at the load addresses touched, and the 7 after *)
  rc_trace : list N;
  rc_entry : N; rc_rbrk : N; rc_off : N;
  rc_ops : list op;
  rc_obs : list reg_obs         (* one observation after each op *)
}.

Definition view_eqb (x y : N * address) : bool := (fst x =? fst y) && address_eqb (snd x) (snd y).

Fixpoint reg_run (code : mem) (tr : list N) (entry rbrk off : N) (s : st) (ops : list op) : list st :=
  match ops with
  | [] => []
  | o :: t => let s' := fst (apply_op code tr rbrk off (fun _ => true) 0%Z s o) in
              s' :: reg_run code tr entry rbrk off s' t
  end.

(* model agreement: same snapshot, and each observed byte is what the model memory holds *)
Definition obs_model_ok (s : st) (o : reg_obs) : bool :=
  list_eqb view_eqb (ro_snapshot o) (snapshot (s_reg s)) &&
  forallb (fun x => match x with (a, cc, _) =>
                      Bool.eqb cc (opt_eqb (p_mem (s_proc s) a) (Some INT3)) end) (ro_bytes o).

(* specification: numbers strictly increase along the snapshot; a byte of a live process is 0xCC
   exactly at the load address of a breakpoint the user currently has (or at the two documented
   internal ones); the original byte reported is the image byte *)
Fixpoint strictly_increasing (l : list N) : bool :=
  match l with
  | x :: ((y :: _) as t) => (x <? y) && strictly_increasing t
  | _ => true
  end.
Definition obs_spec_ok (code : mem) (entry rbrk off : N) (o : reg_obs) : bool :=
  strictly_increasing (map fst (ro_snapshot o)) &&
  forallb (fun x => match x with (a, cc, orig) =>
             opt_eqb (code a) (Some orig) &&
             Bool.eqb cc (existsb (fun v => key_addr off (snd v) =? a) (ro_snapshot o)
                          || (a =? entry) || (a =? rbrk) || (orig =? INT3)) end) (ro_bytes o).

Fixpoint forallb2 {A B} (f : A -> B -> bool) (l1 : list A) (l2 : list B) : bool :=
  match l1, l2 with
  | [], [] => true
  | x :: t1, y :: t2 => f x y && forallb2 f t1 t2
  | _, _ => false
  end.

Definition reg_check (c : reg_case) : N :=
  let code := code_of (rc_image c) in
  let sts := reg_run code (rc_trace c) (rc_entry c) (rc_rbrk c) (rc_off c)
                     (init_launched code (rc_trace c) (rc_entry c) (rc_off c)) (rc_ops c) in
  verdict (forallb2 obs_model_ok sts (rc_obs c))
          (forallb (obs_spec_ok code (rc_entry c) (rc_rbrk c) (rc_off c)) (rc_obs c)).
