(* Extension of Model/Wp.v (no fork: `wopx` embeds `wop`) with the two clauses of C14 that
   had no model: the end-of-scope (companion breakpoint) stop, and the restart of the
   debugee.  No proofs here.

   Rust sources mirrored (file:line of /repo/src/debugger):
     debugee/tracer.rs:493-498, 611-615   a trap on a WatchpointCompanion breakpoint is reported as
                                          StopReason::Watchpoint(pid, pc, EndOfScope(wps.clone()))
     watchpoint.rs:949-986                execute_on_watchpoint_hook, EndOfScope arm
     watchpoint.rs:497-512                Watchpoint::disable
     watchpoint.rs:481-489                Watchpoint::scoped
     watchpoint.rs:692-715                WatchpointRegistry::clear_local_disable_global
     watchpoint.rs:515-521, 728-743       Watchpoint::refresh, WatchpointRegistry::refresh
     breakpoint.rs:1165-1193              disable_all_breakpoints (companions are dropped)
     mod.rs:725-766                       restart_debugee_with_reason
     mod.rs:577-587, step.rs:186-195      the DebugeeExit handler
     mod.rs:598-604                       the entry-point stop of the new process (refresh)
   As in Wp.v, ptrace reads/writes of the debug registers of a live, stopped process are
   assumed to succeed; of a process that is gone they fail (ESRCH). *)
From BS Require Import Model.Base Gen.Dr Model.Dr Model.Wp Model.WpE2E Spec.DrArch.
Open Scope N_scope.

(* ---------- (a) end of scope ---------- *)

(* Watchpoint::scoped, watchpoint.rs:481 *)
Definition scoped (w : wp) : bool := match w_companion w with Some _ => true | None => false end.

(* the watchpoint numbers a companion breakpoint carries when it is hit (cloned at the hit:
   tracer.rs:497 / 613) *)
Definition companion_nums (s : st) (b : N) : option (list N) :=
  match find (fun c => comp_num c =? b) (comps s) with
  | Some (_, _, nums) => Some nums
  | None => None
  end.

(* WatchpointRegistry::get, watchpoint.rs:607 *)
Definition get_wp (s : st) (n : N) : option wp := find (fun w => w_num w =? n) (wps s).

(* watchpoint.rs:983-985: `for number in wps { self.remove_watchpoint_by_number(number)?; }` *)
Fixpoint remove_all_nums (nums : list N) (s : st) : res st :=
  match nums with
  | [] => Ok s
  | n :: t => s' <- remove_by_num s n ;; remove_all_nums t s'
  end.

(* watchpoint.rs:949-986.  Panic 5 = `debug_assert_eq!(watchpoints.len(), wps.len())` (:954,
   debug profile): a number carried by the companion that is not in the registry.  The hook
   calls (:970-981) and debug_info (:956) are assumed to succeed. *)
Definition scope_end (s : st) (nums : list N) : res st :=
  if negb (Nat.eqb (length (filter_map (get_wp s) nums)) (length nums)) then Panic 5
  else remove_all_nums nums s.

(* ---------- (b) restart ---------- *)

Definition set_reg (w : wp) (r : option N) : wp :=
  mk_wp (w_num w) (w_addr w) (w_size w) (w_cond w) r (w_companion w).
Definition set_wp_at (l : list wp) (j : nat) (w : wp) : list wp := firstn j l ++ w :: skipn (S j) l.

(* Watchpoint::disable (watchpoint.rs:497-512) applied to `self.watchpoints[j]` in place
   (:707): HardwareBreakpoint::disable sets `self.register = None` (:188) on the element
   that stays in the vector; the returned state is dropped by the caller (:707), so
   last_seen_state is not touched. *)
Definition disable_in_place (s : st) (j : nat) (w : wp) : res st :=
  r <- hw_disable s (w_reg w) ;;
  let '(s1, _) := r in
  let s2 := with_wps s1 (set_wp_at (wps s1) j (set_reg w None)) (last_seen s1) (wp_counter s1) in
  Ok (match w_companion w with Some b => decrease_rc s2 b (w_num w) | None => s2 end).

(* the vector after `self.watchpoints.remove(idx)` (:629) when the rest of `remove` fails *)
Definition drop_at (s : st) (j : nat) : st :=
  with_wps s (firstn j (wps s) ++ skipn (S j) (wps s)) (last_seen s) (wp_counter s).

(* watchpoint.rs:700-712, the loop `for _ in 0..wp_count` with its index j.
   Panic 4 = `self.watchpoints[j]` out of range.  An `Err` of remove / disable is pushed to
   the result vector and the loop goes on (:703-705, :707-709); a panic propagates. *)
Fixpoint clear_loop (fuel : nat) (j : nat) (s : st) : res st :=
  match fuel with
  | O => Ok s
  | S f =>
      match nth_error (wps s) j with
      | None => Panic 4
      | Some w =>
          if scoped w then
            match remove_at s j with
            | Ok s' => clear_loop f j s'
            | Err _ => clear_loop f j (drop_at s j)
            | Panic p => Panic p
            | OutOfFuel => OutOfFuel
            end
          else
            match disable_in_place s j w with
            | Ok s' => clear_loop f (S j) s'
            | Err _ => clear_loop f (S j) s
            | Panic p => Panic p
            | OutOfFuel => OutOfFuel
            end
      end
  end.

Definition set_last_seen (s : st) (ls : option hw) : st :=
  mk_st (threads s) (wps s) ls (wp_counter s) (bp_counter s) (comps s).

(* WatchpointRegistry::clear_local_disable_global, watchpoint.rs:692-715 *)
Definition clear_local_disable_global (s : st) : res st :=
  s' <- clear_loop (length (wps s)) 0 s ;;
  Ok (set_last_seen s' None).

(* breakpoint.rs:1165-1193 disable_all_breakpoints: every active breakpoint is taken out of
   the map; WatchpointCompanion ones are not kept as uninit breakpoints (:1189).
   mod.rs:745-764: the process is killed and a new one installed: one thread, the kernel
   gives it cleared debug registers (tracer.rs:352 adds it at PTRACE_EVENT_EXEC).  The
   process-global counters GLOBAL_WP_COUNTER / GLOBAL_BP_COUNTER go on. *)
Definition new_process (s : st) (main_tid : N) : st :=
  mk_st [(main_tid, hw_zero)] (wps s) (last_seen s) (wp_counter s) (bp_counter s) [].

(* Watchpoint::refresh (watchpoint.rs:515-521) = HardwareBreakpoint::enable on the element in
   place (`self.register = Some(free_register)`, :165); WatchpointRegistry::refresh
   (:728-743) walks the vector with iter_mut: on Ok last_seen_state := Some(state), an Err is
   collected and the element is left as it is.  (The debug_assert!(!wp.scoped()) of :733 is
   Panic 6.) *)
Fixpoint refresh_loop (todo : list wp) (j : nat) (s : st) (errs : list N) : res (st * list N) :=
  match todo with
  | [] => Ok (s, errs)
  | w :: t =>
      if scoped w then Panic 6 else
      match hw_enable s (w_addr w) (w_size w) (w_cond w) with
      | Ok (s1, h, r) =>
          refresh_loop t (S j)
            (with_wps s1 (set_wp_at (wps s1) j (set_reg w (Some r))) (Some h) (wp_counter s1)) errs
      | Err e => refresh_loop t (S j) s (errs ++ [e])
      | Panic p => Panic p
      | OutOfFuel => OutOfFuel
      end
  end.
Definition refresh (s : st) : res (st * list N) := refresh_loop (wps s) 0 s [].

(* restart_debugee_with_reason, mod.rs:725-766, execution status InProgress (:730-738),
   followed by continue_execution up to the entry point of the new process (:598-604). *)
Definition restart (s : st) (main_tid : N) : res (st * list N) :=
  s1 <- clear_local_disable_global s ;;
  refresh (new_process s1 main_tid).

(* The other way into a restart: the debugee ran to its end first.  The DebugeeExit handler
   (mod.rs:577-587, step.rs:186-195) runs clear_local_disable_global on a process that is
   gone: HardwareDebugState::current (watchpoint.rs:171) fails, so
     - a scoped watchpoint is taken out of the vector (:629) and `remove` returns the error
       before the companion reference is dropped and before last_seen_state is written,
     - a non-scoped one keeps its `register` (the `?` of :503 returns before :188).
   disable_all_breakpoints then drops the companions; restart (status Exited, :739-742)
   does nothing more before the new process is installed. *)
Fixpoint clear_loop_dead (fuel : nat) (j : nat) (s : st) : res st :=
  match fuel with
  | O => Ok s
  | S f =>
      match nth_error (wps s) j with
      | None => Panic 4
      | Some w => if scoped w then clear_loop_dead f j (drop_at s j) else clear_loop_dead f (S j) s
      end
  end.
Definition exit_then_restart (s : st) (main_tid : N) : res (st * list N) :=
  s1 <- clear_loop_dead (length (wps s)) 0 s ;;
  refresh (new_process (set_last_seen s1 None) main_tid).

(* ---------- the extended machine ---------- *)
Inductive wopx :=
| XBase (o : wop)
| XScopeEnd (bp_num : N) (hit_tid : N)      (* the companion breakpoint bp_num is hit by thread hit_tid *)
| XRestart (new_main_tid : N)               (* restart of a running debugee *)
| XExitRestart (new_main_tid : N).          (* the debugee exits, then is started again *)

(* result code: 0 ok; 1 the event cannot happen (no such companion breakpoint);
   10+e the first collected / returned error; 100+p panic site (the debugger is gone, the
   state is left as it was for the purpose of the trace) *)
Definition fin_restart (s : st) (r : res (st * list N)) : st * N :=
  match r with
  | Ok (s', []) => (s', 0)
  | Ok (s', e :: _) => (s', 10 + e)
  | Err e => (s, 10 + e)
  | Panic p => (s, 100 + p)
  | OutOfFuel => (s, 99)
  end.

Definition wstepx (s : st) (o : wopx) : st * N :=
  match o with
  | XBase o => wstep s o
  | XScopeEnd b _ =>
      match companion_nums s b with
      | None => (s, 1)
      | Some nums =>
          match scope_end s nums with
          | Ok s' => (s', 0)
          | Err e => (s, 10 + e)
          | Panic p => (s, 100 + p)
          | OutOfFuel => (s, 99)
          end
      end
  | XRestart t => fin_restart s (restart s t)
  | XExitRestart t => fin_restart s (exit_then_restart s t)
  end.

Definition wrunx (ops : list wopx) (s : st) : st := fold_left (fun s o => fst (wstepx s o)) ops s.

(* ---------- specification ---------- *)
(* what the two events must do to the set of watchpoints the user has (numbers), stated on
   the registry alone *)
Definition nums_of (l : list wp) : list N := map w_num l.
Definition bound_to (b : N) (w : wp) : bool := match w_companion w with Some b' => b' =? b | None => false end.
Definition spec_after_scope_end (b : N) (l : list wp) : list wp := filter (fun w => negb (bound_to b w)) l.
Definition spec_after_restart (l : list wp) : list wp := filter (fun w => negb (scoped w)) l.
(* same user-visible watchpoint: number, address, size, condition, companion *)
Definition same_wp (w w' : wp) : bool :=
  (w_num w =? w_num w') && (w_addr w =? w_addr w') && (w_size w =? w_size w') && (w_cond w =? w_cond w')
  && match w_companion w, w_companion w' with
     | Some a, Some b => a =? b | None, None => true | _, _ => false end.

(* ---------- end-to-end cases (extends Model/WpE2E.v) ---------- *)
Inductive evx :=
| EBase (e : ev)                                   (* any event of the existing leg *)
| EScopeEnd (pc : N) (tid : N) (code : N)          (* stop with EndOfScope at address pc in thread tid *)
| ERestart (new_tid : N) (after_exit : bool) (code : N).

Definition wpx_e2e_case : Type := (N * list evx)%type.

Definition comp_at (s : st) (pc : N) : option N :=
  match find (fun c => fst (fst c) =? pc) (comps s) with Some c => Some (comp_num c) | None => None end.

Definition step_evx (r : rstate) (e : evx) : rstate :=
  let s := r_st r in
  match e with
  | EBase e => step_ev r e
  | EScopeEnd pc tid code =>
      match comp_at s pc with
      | None => mk_r s (r_want r) false (r_sok r)      (* the model has no companion there *)
      | Some b =>
          let '(s', mcode) := wstepx s (XScopeEnd b tid) in
          let want' := filter (fun kv => match get_wp s (fst kv) with
                                         | Some w => negb (bound_to b w) | None => true end) (r_want r) in
          mk_r s' want' (r_mok r && (mcode =? code)) (r_sok r && (code =? 0))
      end
  | ERestart t after_exit code =>
      let '(s', mcode) := wstepx s (if after_exit then XExitRestart t else XRestart t) in
      let want' := filter (fun kv => match get_wp s (fst kv) with
                                     | Some w => negb (scoped w) | None => true end) (r_want r) in
      mk_r s' want' (r_mok r && (mcode =? code)) (r_sok r && (code =? 0))
  end.

Definition wpx_e2e_check (c : wpx_e2e_case) : N :=
  let '(main_tid, evs) := c in
  let r := fold_left step_evx evs (mk_r (st_init main_tid) [] true true) in
  verdict (r_mok r) (r_sok r).
