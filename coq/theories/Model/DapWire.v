(* C12 - the messaging layer of the DAP adapter (src/dap/yadap/session/mod.rs and the
   handlers of control.rs / init.rs as scripts over its primitives), the two output-forwarding
   threads, and the run loop.  Definitions only; proofs are in ProofsDapWire.v.

   Line numbers refer to /repo at commit ae66bdd (after the two repairs 90c36fc "sequence
   numbers taken under the transport lock" and ae66bdd "requests could be answered twice").
   The two repaired behaviours are parameters of the model, instantiated from the generated
   constants of BS.Gen.Dap; the old behaviour stays available (guard = false / send_block)
   for the theorems that document what was wrong.

   What is NOT modelled (assumptions, see REPORT.md):
   - transport writes succeed (write_message returns Ok) and the mutex is never poisoned;
   - server_seq is an unbounded N (the AtomicI64 wraps after 2^63 messages);
   - message payloads (JSON bodies) are abstracted to a small code + one integer. *)
From BS Require Import Model.Base.
From BS Require Import Gen.Dap.
Local Open Scope N_scope.

(* ================================================================== *)
(* 1. The wire                                                        *)
(* ================================================================== *)

(* protocol.rs:21-44.  A response echoes req.seq and req.command (mod.rs:459-469). *)
Inductive body : Type :=
| Response (request_seq : Z) (command : N) (success : bool)
| Event (ev : N) (arg : Z).

Record msg : Type := Msg { m_seq : N; m_body : body }.

(* event codes ([arg]: thread id for thread events, exit code for exited,
   0 = "new"/1 = "removed" for module and loadedSource, otherwise 0) *)
Definition EV_OUTPUT : N := 1.
Definition EV_STOPPED : N := 2.
Definition EV_CONTINUED : N := 3.
Definition EV_THREAD_STARTED : N := 4.
Definition EV_THREAD_EXITED : N := 5.
Definition EV_EXITED : N := 6.
Definition EV_TERMINATED : N := 7.
Definition EV_INITIALIZED : N := 8.
Definition EV_PROCESS : N := 9.
Definition EV_MODULE : N := 10.
Definition EV_LOADEDSOURCE : N := 11.
Definition EV_BREAKPOINT : N := 12.
Definition EV_PROGRESS_START : N := 13.
Definition EV_PROGRESS_UPDATE : N := 14.
Definition EV_PROGRESS_END : N := 15.
Definition EV_INVALIDATED : N := 16.
Definition EV_CAPABILITIES : N := 17.

Definition body_eqb (a b : body) : bool :=
  match a, b with
  | Response r1 c1 s1, Response r2 c2 s2 => Z.eqb r1 r2 && N.eqb c1 c2 && Bool.eqb s1 s2
  | Event e1 a1, Event e2 a2 => N.eqb e1 e2 && Z.eqb a1 a2
  | _, _ => false
  end.
Definition msg_eqb (a b : msg) : bool := N.eqb (m_seq a) (m_seq b) && body_eqb (m_body a) (m_body b).

Definition is_response (b : body) : bool := match b with Response _ _ _ => true | _ => false end.
Definition is_ev (code : N) (b : body) : bool := match b with Event e _ => N.eqb e code | _ => false end.

(* ================================================================== *)
(* 2. Session-thread state and primitives                             *)
(* ================================================================== *)

(* protocol.rs:46-105 *)
Inductive ievent : Type :=
| IStopped | IContinued
| IThread (exited : bool) (tid : Z)
| IBreakpoint | IModule | ILoadedSource | IProcess
| IExited (code : Z)
| ITerminated
| IOutput
| IProgressStart | IProgressUpdate | IProgressEnd | IInvalidated | ICapabilities.

(* what send_events (mod.rs:278-425) writes for one queued event; Exited and Terminated are
   skipped there (mod.rs:357-359) *)
Definition ievent_body (e : ievent) : option body :=
  match e with
  | IStopped => Some (Event EV_STOPPED 0)
  | IContinued => Some (Event EV_CONTINUED 0)
  | IThread false tid => Some (Event EV_THREAD_STARTED tid)
  | IThread true tid => Some (Event EV_THREAD_EXITED tid)
  | IBreakpoint => Some (Event EV_BREAKPOINT 0)
  | IModule => Some (Event EV_MODULE 0)
  | ILoadedSource => Some (Event EV_LOADEDSOURCE 0)
  | IProcess => Some (Event EV_PROCESS 0)
  | IExited _ => None
  | ITerminated => None
  | IOutput => Some (Event EV_OUTPUT 0)
  | IProgressStart => Some (Event EV_PROGRESS_START 0)
  | IProgressUpdate => Some (Event EV_PROGRESS_UPDATE 0)
  | IProgressEnd => Some (Event EV_PROGRESS_END 0)
  | IInvalidated => Some (Event EV_INVALIDATED 0)
  | ICapabilities => Some (Event EV_CAPABILITIES 0)
  end.

(* mod.rs:28-58, the fields the messaging layer reads or writes; [wire] is what the
   transport has received so far, oldest first. *)
Record st : Type := St {
  server_seq : N;              (* :30, AtomicI64 initialised to 1 (:101) *)
  events : list ievent;        (* :47 *)
  terminated : bool;           (* :49 *)
  exit_code : option Z;        (* :50 *)
  thread_cache : list Z;       (* :39, keys only *)
  module_info : bool;          (* :53, is_some *)
  last_responded : option Z;   (* :57 last_responded_request *)
  wire : list msg
}.

Definition init_st : st := St 1 [] false None [] false None [].

Definition set_events (ev : list ievent) (s : st) : st :=
  St (server_seq s) ev (terminated s) (exit_code s) (thread_cache s) (module_info s) (last_responded s) (wire s).
Definition set_terminated (b : bool) (s : st) : st :=
  St (server_seq s) (events s) b (exit_code s) (thread_cache s) (module_info s) (last_responded s) (wire s).
Definition set_exit_code (c : option Z) (s : st) : st :=
  St (server_seq s) (events s) (terminated s) c (thread_cache s) (module_info s) (last_responded s) (wire s).
Definition set_thread_cache (t : list Z) (s : st) : st :=
  St (server_seq s) (events s) (terminated s) (exit_code s) t (module_info s) (last_responded s) (wire s).
Definition set_module_info (b : bool) (s : st) : st :=
  St (server_seq s) (events s) (terminated s) (exit_code s) (thread_cache s) b (last_responded s) (wire s).
Definition set_last_responded (r : option Z) (s : st) : st :=
  St (server_seq s) (events s) (terminated s) (exit_code s) (thread_cache s) (module_info s) r (wire s).

(* fetch_add + write_message (:458-472 / :488-493), run by the session thread alone *)
Definition send_raw (b : body) (s : st) : st :=
  St (server_seq s + 1) (events s) (terminated s) (exit_code s) (thread_cache s) (module_info s)
     (last_responded s) (wire s ++ [Msg (server_seq s) b]).

(* send_success / send_success_body / send_err / send_cancelled -> send_response_raw
   (:427-476); :474 records the request as answered *)
Definition send_response (rseq : Z) (cmd : N) (ok : bool) (s : st) : st :=
  set_last_responded (Some rseq) (send_raw (Response rseq cmd ok) s).
(* send_event / send_event_body -> send_event_raw (:478-494) *)
Definition send_event (ev : N) (arg : Z) (s : st) : st := send_raw (Event ev arg) s.

(* enqueue_event (:140-142) *)
Definition enqueue (e : ievent) (s : st) : st := set_events (events s ++ [e]) s.

Definition is_output (e : ievent) : bool := match e with IOutput => true | _ => false end.

Definition send_one (e : ievent) (s : st) : st :=
  match ievent_body e with Some b => send_raw b s | None => s end.

(* send_events (:278-425) *)
Definition send_events (filter : ievent -> bool) (drained : list ievent) (s : st) : st :=
  fold_left (fun s e => if filter e then send_one e s else s) drained s.

(* emit_process_end (:205-224).  module_info.take(); one "thread exited" per cached thread;
   the cache itself is NOT cleared.  (HashMap key order is unspecified; the list order
   stands for it.) *)
Definition emit_process_end (s : st) : st :=
  let s1 := if module_info s
            then send_event EV_LOADEDSOURCE 1 (send_event EV_MODULE 1 (set_module_info false s))
            else s in
  fold_left (fun s tid => send_event EV_THREAD_EXITED tid s) (thread_cache s1) s1.

(* the pre-scan of drain_events (:239-251): the last Exited wins *)
Definition scan_exit (drained : list ievent) : option Z :=
  fold_left (fun acc e => match e with IExited c => Some c | _ => acc end) drained None.
Definition scan_terminated (drained : list ievent) : bool :=
  existsb (fun e => match e with ITerminated => true | _ => false end) drained.

(* drain_events (:226-276) *)
Definition drain_events (s : st) : st :=
  let drained := events s in
  let s := set_events [] s in
  if terminated s then s
  else match scan_exit drained with
       | Some code =>
           let s := send_events is_output drained s in
           let s := emit_process_end s in
           let s := set_terminated true s in
           let s := set_exit_code (Some code) s in
           let s := send_event EV_EXITED code s in
           send_event EV_TERMINATED 0 s
       | None =>
           if scan_terminated drained
           then let s := send_events is_output drained s in
                let s := emit_process_end s in
                let s := set_terminated true s in
                send_event EV_TERMINATED 0 s
           else send_events (fun _ => true) drained s
       end.

Definition mem_z (x : Z) (l : list Z) : bool := existsb (Z.eqb x) l.
Fixpoint dedup_z (l : list Z) : list Z :=
  match l with
  | [] => []
  | x :: t => if mem_z x t then dedup_z t else x :: dedup_z t
  end.

(* refresh_threads_with_events (frame.rs:204-233, unchanged) with [ids] = what thread_state() returned *)
Definition refresh_threads (ids : list Z) (s : st) : st :=
  let existing := thread_cache s in
  let new_ids := dedup_z ids in
  let started := filter (fun i => negb (mem_z i existing)) new_ids in
  let exited := filter (fun i => negb (mem_z i new_ids)) existing in
  let s := fold_left (fun s i => enqueue (IThread false i) s) started s in
  let s := fold_left (fun s i => enqueue (IThread true i) s) exited s in
  set_thread_cache new_ids s.

(* ================================================================== *)
(* 3. Handlers as scripts, the run loop                               *)
(* ================================================================== *)

Inductive prim : Type :=
| PRespond (ok : bool)              (* send_success* / send_err / send_cancelled for the current request *)
| PInitialized                      (* init.rs:74, the only event sent outside the queue by a handler *)
| PEnqueue (e : ievent)
| PDrain
| PResetLatch                       (* init.rs:216-217 / 268-269 *)
| PRefreshThreads (ids : list Z)
| PSetModule (b : bool).            (* init.rs:177 *)

(* a handler = the primitive calls it makes, then Ok(()) or Err; [s_cont] is dispatch's
   Ok(bool): false only for terminate and disconnect (mod.rs:644-654) *)
Record script : Type := Script { s_body : list prim; s_fail : bool; s_cont : bool }.

Definition run_prim (rseq : Z) (cmd : N) (p : prim) (s : st) : st :=
  match p with
  | PRespond ok => send_response rseq cmd ok s
  | PInitialized => send_event EV_INITIALIZED 0 s
  | PEnqueue e => enqueue e s
  | PDrain => drain_events s
  | PResetLatch => set_exit_code None (set_terminated false s)
  | PRefreshThreads ids => refresh_threads ids s
  | PSetModule b => set_module_info b s
  end.

Definition run_body (rseq : Z) (cmd : N) (ps : list prim) (s : st) : st :=
  fold_left (fun s p => run_prim rseq cmd p s) ps s.

(* mod.rs:678-691.  :678 clears last_responded_request before every dispatch, so the test
   of :684 means "this handler has answered".  A handler error makes the loop go on, and
   - [guard = false] (before the repair): always one more (error) response;
   - [guard = true] (now, :684): an error response unless
     last_responded_request == Some(req.seq), in which case it is only logged.
   (The field did not exist before the repair; clearing it when guard = false is invisible.) *)
Definition guard_hit (rseq : Z) (s : st) : bool :=
  match last_responded s with Some r => Z.eqb r rseq | None => false end.
Definition dispatch_one_gen (guard : bool) (rseq : Z) (cmd : N) (h : script) (s : st) : st * bool :=
  let s := set_last_responded None s in
  let s := run_body rseq cmd (s_body h) s in
  if s_fail h
  then (if guard && guard_hit rseq s then (s, true) else (send_response rseq cmd false s, true))
  else (s, s_cont h).
Definition dispatch_one : Z -> N -> script -> st -> st * bool :=
  dispatch_one_gen RUN_LOOP_SINGLE_RESPONSE_GUARD.

(* the intermediate repair (commit 4335108, superseded by ae66bdd): the guard without the
   reset of :678, i.e. a comparison with the seq of the last answered REQUEST *)
Definition dispatch_one_seqguard (rseq : Z) (cmd : N) (h : script) (s : st) : st * bool :=
  let s := run_body rseq cmd (s_body h) s in
  if s_fail h
  then (if guard_hit rseq s then (s, true) else (send_response rseq cmd false s, true))
  else (s, s_cont h).

Inductive input : Type :=
| InReq (rseq : Z) (cmd : N) (h : script)   (* a decodable request envelope and what its handler does *)
| InNotRequest                              (* type != "request": skipped (mod.rs:675-677) *)
| InBadEnvelope.                            (* serde_json::from_value fails: run returns Err (mod.rs:674) *)

(* run (mod.rs:666-697); the end of the input list is read_message failing on EOF *)
Fixpoint run_gen (guard : bool) (ins : list input) (s : st) : st :=
  let s := drain_events s in
  match ins with
  | [] => s
  | InBadEnvelope :: _ => s
  | InNotRequest :: t => run_gen guard t s
  | InReq rseq cmd h :: t =>
      let '(s', cont) := dispatch_one_gen guard rseq cmd h s in
      if cont then run_gen guard t s' else s'
  end.
Definition run : list input -> st -> st := run_gen RUN_LOOP_SINGLE_RESPONSE_GUARD.
(* the run loop of the intermediate repair *)
Fixpoint run_seqguard (ins : list input) (s : st) : st :=
  let s := drain_events s in
  match ins with
  | [] => s
  | InBadEnvelope :: _ => s
  | InNotRequest :: t => run_seqguard t s
  | InReq rseq cmd h :: t =>
      let '(s', cont) := dispatch_one_seqguard rseq cmd h s in
      if cont then run_seqguard t s' else s'
  end.

Definition bodies (s : st) : list body := map m_body (wire s).

(* ---- real handlers as scripts (line numbers: control.rs unless said otherwise) ---- *)

(* handle_continue :421-440 with self.debugger == None: since 4335108 the early check
   :422-424 answers with send_err and returns Ok *)
Definition h_continue_no_debugger : script := Script [PRespond false] false true.
(* the same request before 4335108: success response, [continued], then Err *)
Definition h_continue_no_debugger_old : script :=
  Script [PEnqueue IContinued; PRespond true; PDrain] true true.
(* handle_continue with a debugger whose continue_debugee_with_reason fails (:438,
   ProcessNotStarted before configurationDone / after exit, or a ptrace error): the success
   response of :432 and the drain of :433 are already out when :438 returns Err *)
Definition h_continue_err : script :=
  Script [PEnqueue IContinued; PRespond true; PDrain] true true.
(* handle_continue when the debuggee runs to exit: emit_stop_reason :350-354 *)
Definition h_continue_exit (code : Z) : script :=
  Script [PEnqueue IContinued; PRespond true; PDrain; PEnqueue (IExited code); PDrain] false true.
(* handle_continue, stop at a breakpoint with thread list [ids] *)
Definition h_continue_stop (ids : list Z) : script :=
  Script [PEnqueue IContinued; PRespond true; PDrain; PRefreshThreads ids; PEnqueue IStopped; PDrain] false true.
(* handle_next, ProcessExit branch :529-538 (stepIn :569-578, stepOut :609-618) *)
Definition h_next_exit (code : Z) : script :=
  Script [PEnqueue IContinued; PRespond true; PEnqueue (IExited code); PDrain] false true.
(* handle_restart :473-490 / handle_configuration_done init.rs:376-378 *)
Definition h_start_stop (ids : list Z) : script :=
  Script [PRespond true; PRefreshThreads ids; PEnqueue IStopped; PDrain] false true.
(* handle_launch init.rs:192-238 *)
Definition h_launch : script :=
  Script [PResetLatch; PEnqueue IProgressStart; PEnqueue ICapabilities; PDrain;
          PEnqueue IProcess; PSetModule true; PEnqueue IModule; PEnqueue ILoadedSource;
          PEnqueue IProgressUpdate; PEnqueue IProgressEnd; PRespond true; PDrain] false true.
(* handle_launch without arguments.program: init.rs:197-201 fails before anything is sent *)
Definition h_launch_no_program : script := Script [] true true.
(* handle_initialize init.rs:23-75 *)
Definition h_initialize : script := Script [PRespond true; PInitialized] false true.
(* handle_terminate :1035-1040, dispatch returns Ok(false) *)
Definition h_terminate : script := Script [PRespond true; PEnqueue ITerminated; PDrain] false false.
(* handle_disconnect :1042-1056 with terminateDebuggee=false and detach() failing at :1053 *)
Definition h_disconnect_detach_err : script := Script [PRespond true] true false.
(* any handler that answers once *)
Definition h_simple (ok : bool) : script := Script [PRespond ok] false true.
(* any handler that fails before answering *)
Definition h_err : script := Script [] true true.

(* ================================================================== *)
(* 4. Threads: small-step interleaving semantics                      *)
(* ================================================================== *)

Inductive action : Type :=
| AAlloc                 (* r := server_seq.fetch_add(1) *)
| ALock                  (* io.lock(); blocks while another thread holds it *)
| AWrite (b : body)      (* write_message of a message numbered r; needs the guard *)
| AUnlock.               (* guard dropped *)

Record thread : Type := Thread { t_prog : list action; t_reg : N }.

Record cstate : Type := CState {
  c_ctr : N;               (* server_seq *)
  c_lock : option nat;     (* holder of the transport mutex *)
  c_wire : list msg;
  c_threads : list thread
}.

Fixpoint upd {A} (i : nat) (x : A) (l : list A) : list A :=
  match l, i with
  | [], _ => []
  | _ :: t, O => x :: t
  | y :: t, S i' => y :: upd i' x t
  end.

Definition holds (i : nat) (c : cstate) : bool :=
  match c_lock c with Some h => Nat.eqb h i | None => false end.

(* one step of thread [i]; None = not enabled (no such thread, finished, or blocked) *)
Definition step (i : nat) (c : cstate) : option cstate :=
  match nth_error (c_threads c) i with
  | None => None
  | Some t =>
      match t_prog t with
      | [] => None
      | AAlloc :: rest =>
          Some (CState (c_ctr c + 1) (c_lock c) (c_wire c) (upd i (Thread rest (c_ctr c)) (c_threads c)))
      | ALock :: rest =>
          match c_lock c with
          | None => Some (CState (c_ctr c) (Some i) (c_wire c) (upd i (Thread rest (t_reg t)) (c_threads c)))
          | Some _ => None
          end
      | AWrite b :: rest =>
          if holds i c
          then Some (CState (c_ctr c) (c_lock c) (c_wire c ++ [Msg (t_reg t) b])
                            (upd i (Thread rest (t_reg t)) (c_threads c)))
          else None
      | AUnlock :: rest =>
          if holds i c
          then Some (CState (c_ctr c) None (c_wire c) (upd i (Thread rest (t_reg t)) (c_threads c)))
          else None
      end
  end.

(* a schedule is the list of thread indices the scheduler picks; a pick of a thread that
   is not enabled is a no-op, so every list is a schedule *)
Fixpoint run_sched (sched : list nat) (c : cstate) : cstate :=
  match sched with
  | [] => c
  | i :: t => run_sched t (match step i c with Some c' => c' | None => c end)
  end.

Definition init_c (progs : list (list action)) : cstate :=
  CState 1 None [] (map (fun p => Thread p 0) progs).

(* the code before 90c36fc: sequence number taken BEFORE the lock (session thread:
   [seq: self.next_seq()] evaluated before [self.io.lock()] in send_response_raw and
   send_event_raw; forwarders: fetch_add before the inner block that locks) *)
Definition send_block (b : body) : list action := [AAlloc; ALock; AWrite b; AUnlock].
(* the run loop holds the transport lock while it reads a request (mod.rs:670-673) *)
Definition read_block : list action := [ALock; AUnlock].
(* the code now: number taken under the lock.  send_response_raw: lock :458, fetch_add
   :460-462, write :472, drop :473; send_event_raw: lock :488, fetch_add :489-491, write :493;
   forwarders: lock :554 / :582, fetch_add :555 / :583, write, end of block *)
Definition fixed_block (b : body) : list action := [ALock; AAlloc; AWrite b; AUnlock].
(* which of the two the source uses is read off the source by the translator *)
Definition code_send_block (b : body) : list action :=
  if SEQ_ALLOC_UNDER_LOCK then fixed_block b else send_block b.

(* a thread given as its list of blocks: Some b = send b, None = read a request *)
Definition compile_real (l : list (option body)) : list action :=
  flat_map (fun o => match o with Some b => send_block b | None => read_block end) l.
Definition compile_fixed (l : list (option body)) : list action :=
  flat_map (fun o => match o with Some b => fixed_block b | None => read_block end) l.
Definition compile_code (l : list (option body)) : list action :=
  flat_map (fun o => match o with Some b => code_send_block b | None => read_block end) l.

(* the session thread's program for a given sequential run: one send block per message it
   put on the wire (its control flow never reads the shared counter or the wire) *)
Definition session_blocks (ins : list input) : list (option body) :=
  map Some (bodies (run ins init_st)).
(* a forwarder that reads [n] lines: mod.rs:545-570, :573-598 *)
Definition forwarder_blocks (n : nat) : list (option body) := repeat (Some (Event EV_OUTPUT 0)) n.

(* ================================================================== *)
(* 5. Specification: predicates on the wire log                       *)
(* ================================================================== *)

(* 5.1 sequence numbers are 1,2,3,... in wire order *)
Definition seqs_consecutive (w : list msg) : Prop :=
  forall i m, nth_error w i = Some m -> m_seq m = N.of_nat i + 1.

Fixpoint seqs_fromb (n : N) (w : list msg) : bool :=
  match w with
  | [] => true
  | m :: t => N.eqb (m_seq m) n && seqs_fromb (n + 1) t
  end.
Definition seqs_consecutiveb (w : list msg) : bool := seqs_fromb 1 w.

(* 5.2 exactly one response per request, matching request_seq and command: the responses on
   the wire, in order, are exactly the requests, in order (so repeated request seqs are
   handled too) *)
Definition resp_proj (bs : list body) : list (Z * N) :=
  filter_map (fun b => match b with Response r c _ => Some (r, c) | _ => None end) bs.
Definition one_response_per_request (reqs : list (Z * N)) (bs : list body) : Prop :=
  resp_proj bs = reqs.
Definition req_eqb (a b : Z * N) : bool := Z.eqb (fst a) (fst b) && N.eqb (snd a) (snd b).
Definition one_response_per_requestb (reqs : list (Z * N)) (bs : list body) : bool :=
  list_eqb req_eqb (resp_proj bs) reqs.

(* the requests the run loop consumes: up to a request whose dispatch says "stop"
   (terminate / disconnect that did not fail) or an undecodable envelope *)
Fixpoint processed (ins : list input) : list (Z * N) :=
  match ins with
  | [] => []
  | InBadEnvelope :: _ => []
  | InNotRequest :: t => processed t
  | InReq r c h :: t => (r, c) :: (if s_fail h || s_cont h then processed t else [])
  end.
(* how many responses one request gets: those the handler sends itself plus the run loop's
   error response if the handler fails *)
Definition count_resp (ps : list prim) : nat :=
  length (filter (fun p => match p with PRespond _ => true | _ => false end) ps).
Definition resp_count (h : script) : nat := (count_resp (s_body h) + (if s_fail h then 1 else 0))%nat.
Definition script_onceb (h : script) : bool := Nat.eqb (resp_count h) 1.
Definition input_onceb (i : input) : bool :=
  match i with InReq _ _ h => script_onceb h | _ => true end.

(* 5.3 lifecycle: [exited] and [terminated] at most once each, exited not after terminated *)
Definition count_ev (code : N) (bs : list body) : nat := length (filter (is_ev code) bs).
Definition lifecycle_once (bs : list body) : Prop :=
  (count_ev EV_EXITED bs <= 1)%nat /\ (count_ev EV_TERMINATED bs <= 1)%nat /\
  (forall a b x, bs = a ++ Event EV_TERMINATED x :: b -> count_ev EV_EXITED b = 0%nat).

(* 5.4 nothing after terminated.  The statement of the property, literally: *)
Definition nothing_after_terminated (bs : list body) : Prop :=
  forall a b x, bs = a ++ Event EV_TERMINATED x :: b -> b = [].
(* ... and the reading a DAP client relies on (responses to later requests, e.g. the
   client's own disconnect, are still due): no EVENT after terminated *)
Definition no_event_after_terminated (bs : list body) : Prop :=
  forall a b x, bs = a ++ Event EV_TERMINATED x :: b -> forallb is_response b = true.

Fixpoint nothing_after_terminatedb (bs : list body) : bool :=
  match bs with
  | [] => true
  | b :: t => if is_ev EV_TERMINATED b then (match t with [] => true | _ => false end)
              else nothing_after_terminatedb t
  end.

(* one automaton for 5.3 + 5.4(events) *)
Inductive phase : Type := Live | ExitedSeen | TermSeen.
Definition life_step (ph : phase) (b : body) : option phase :=
  match b with
  | Response _ _ _ => Some ph
  | Event e _ =>
      if N.eqb e EV_TERMINATED then (match ph with TermSeen => None | _ => Some TermSeen end)
      else if N.eqb e EV_EXITED then (match ph with Live => Some ExitedSeen | _ => None end)
      else (match ph with TermSeen => None | _ => Some ph end)
  end.
Fixpoint life_run (ph : phase) (bs : list body) : option phase :=
  match bs with
  | [] => Some ph
  | b :: t => match life_step ph b with Some ph' => life_run ph' t | None => None end
  end.
Definition lifecycle_okb (bs : list body) : bool :=
  match life_run Live bs with Some _ => true | None => false end.

(* 5.5 a failing request gets an error response (stated on one loop iteration) *)
Definition error_response_for_failing_request (rseq : Z) (cmd : N) (before after : list body) : Prop :=
  exists mid, after = before ++ mid ++ [Response rseq cmd false].

(* 5.6 thread start / exit announced once, in causal order: per thread id the events
   alternate started, exited, started, ... *)
Fixpoint remove_z (x : Z) (l : list Z) : list Z :=
  match l with
  | [] => []
  | y :: t => if Z.eqb x y then t else y :: remove_z x t
  end.
Fixpoint thread_life_run (alive : list Z) (bs : list body) : bool :=
  match bs with
  | [] => true
  | Event e tid :: t =>
      if N.eqb e EV_THREAD_STARTED
      then (if mem_z tid alive then false else thread_life_run (tid :: alive) t)
      else if N.eqb e EV_THREAD_EXITED
      then (if mem_z tid alive then thread_life_run (remove_z tid alive) t else false)
      else thread_life_run alive t
  | _ :: t => thread_life_run alive t
  end.
Definition thread_lifecycleb (bs : list body) : bool := thread_life_run [] bs.

(* ================================================================== *)
(* 6. Correspondence cases                                            *)
(* ================================================================== *)

(* (a) primitive level: calls made against a real DebugSession over an in-memory transport,
   and the wire log that transport received *)
Inductive pcall : Type :=
| CRespond (rseq : Z) (cmd : N) (ok : bool)   (* send_success / send_success_body (ok=true), send_err / send_cancelled (false) *)
| CInitialized                                (* send_event("initialized") *)
| CEnqueue (e : ievent)                       (* enqueue_event *)
| CDrain                                      (* drain_events *)
| CResetLatch                                 (* terminated = false; exit_code = None *)
| CRefreshThreads (ids : list Z)              (* thread_cache diff of refresh_threads_with_events *)
| CSetModule (b : bool).                      (* module_info = Some(..) / None *)

Definition run_call (c : pcall) (s : st) : st :=
  match c with
  | CRespond r cmd ok => send_response r cmd ok s
  | CInitialized => run_prim 0 0 PInitialized s
  | CEnqueue e => enqueue e s
  | CDrain => drain_events s
  | CResetLatch => run_prim 0 0 PResetLatch s
  | CRefreshThreads ids => refresh_threads ids s
  | CSetModule b => set_module_info b s
  end.
Definition run_calls (cs : list pcall) (s : st) : st := fold_left (fun s c => run_call c s) cs s.

(* wire logs are compared up to the order of thread events' ids (HashMap iteration order):
   position by position with thread ids erased, and as multisets *)
Definition erase_tid (m : msg) : msg :=
  match m_body m with
  | Event e a => if N.eqb e EV_THREAD_STARTED || N.eqb e EV_THREAD_EXITED
                 then Msg (m_seq m) (Event e 0) else m
  | _ => m
  end.
Definition body_count (b : body) (w : list msg) : nat :=
  length (filter (fun m => body_eqb (m_body m) b) w).
Definition wire_eqb (w1 w2 : list msg) : bool :=
  list_eqb msg_eqb (map erase_tid w1) (map erase_tid w2) &&
  forallb (fun m => Nat.eqb (body_count (m_body m) w1) (body_count (m_body m) w2)) w1.

Definition has_reset (cs : list pcall) : bool :=
  existsb (fun c => match c with CResetLatch => true | _ => false end) cs.
Definition has_initialized (cs : list pcall) : bool :=
  existsb (fun c => match c with CInitialized => true | _ => false end) cs.

Definition prim_case : Type := (list pcall * list msg)%type.
Definition prim_spec_ok (cs : list pcall) (w : list msg) : bool :=
  seqs_consecutiveb w &&
  (has_reset cs || has_initialized cs || lifecycle_okb (map m_body w)).
Definition prim_check (c : prim_case) : N :=
  let '(cs, w) := c in
  verdict (wire_eqb (wire (run_calls cs init_st)) w) (prim_spec_ok cs w).

(* (b) wire level: the requests the client sent that the adapter consumed (seq, command
   code), in order, and everything the adapter wrote, in order.  One launch per transcript. *)
Definition wire_case : Type := (list (Z * N) * list msg)%type.
(* bit 0: sequence numbers; 1: responses vs requests; 2: lifecycle / event after terminated;
   3: thread events; 4: anything at all after terminated (the literal reading; not part of
   the verdict) *)
Definition wire_diag (c : wire_case) : N :=
  let '(reqs, w) := c in
  let bs := map m_body w in
  (if seqs_consecutiveb w then 0 else 1) +
  (if one_response_per_requestb reqs bs then 0 else 2) +
  (if lifecycle_okb bs then 0 else 4) +
  (if thread_lifecycleb bs then 0 else 8) +
  (if nothing_after_terminatedb bs then 0 else 16).
Definition wire_spec_ok (c : wire_case) : bool :=
  let '(reqs, w) := c in
  let bs := map m_body w in
  seqs_consecutiveb w && one_response_per_requestb reqs bs && lifecycle_okb bs && thread_lifecycleb bs.
Definition wire_check (c : wire_case) : N := verdict true (wire_spec_ok c).
