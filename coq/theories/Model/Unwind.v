(* Model of src/debugger/debugee/dwarf/unwind.rs : DwarfUnwinder::unwind and
   restore_registers_at_frame.

   What gimli and the compiler's CFI provide enters as a Section variable
     step : R -> pc -> option (cfa * R)
   "with the callee-side registers [regs] of the frame executing at [pc], the CFA of that
   frame is [cfa] and the registers restored for its caller are [regs']" (UnwindContext::new);
   [ra regs'] is the return-address column of the restored registers. *)
From BS Require Import Model.Base Gen.Unwind.
Open Scope N_scope.

Section Unwind.
Context {R : Type}.
Variable step : R -> N -> option (N * R).
Variable ra : R -> option N.           (* UnwindContext::return_address on the restored registers *)
Variable set_sp : R -> N -> R.         (* next(): rsp := CFA of the previous frame *)

Definition key_seen (mode : guard_mode) (visited : list (N * N)) (ip cfa : N) : bool :=
  match mode with
  | GuardIp => existsb (fun k => fst k =? ip) visited
  | GuardIpCfa => existsb (fun k => (fst k =? ip) && (snd k =? cfa)) visited
  end.

(* the while loop; [ucx] = (cfa, restored registers) of the last frame pushed.
   Structural on [fuel]; MAX_UNWIND_DEPTH iterations always suffice because every
   iteration either stops or lengthens [bt]. *)
Fixpoint unwind_loop (mode : guard_mode) (fuel : nat) (ucx : N * R) (bt : list N) (visited : list (N * N)) : list N :=
  match fuel with
  | O => bt
  | S f =>
      match ra (snd ucx) with
      | None => bt
      | Some r =>
          if Nat.leb MAX_UNWIND_DEPTH (length bt) then bt
          else if key_seen mode visited r (fst ucx) then bt
          else match step (set_sp (snd ucx) (fst ucx)) r with
               | None => bt
               | Some ucx' => unwind_loop mode f ucx' (bt ++ [r]) ((r, fst ucx) :: visited)
               end
      end
  end.

(* unwind(pid): frame 0 is the thread's pc; with the ip-only guard frame 0's pc is in the
   visited set from the start *)
Definition unwind_with (mode : guard_mode) (pc0 : N) (regs0 : R) : list N :=
  match step regs0 pc0 with
  | None => [pc0]
  | Some ucx =>
      unwind_loop mode MAX_UNWIND_DEPTH ucx [pc0]
                  (match mode with GuardIp => [(pc0, 0)] | GuardIpCfa => [] end)
  end.
Definition unwind : N -> R -> list N := unwind_with UNWIND_GUARD.

(* restore_registers_at_frame(k): after the initial context, [k - start] applications of
   next(); the result is the restored registers of the last context, with the stack pointer
   set to its CFA when [sets_sp]. None = UnwindNoContext / UnwindTooDeepFrame. *)
Fixpoint ctx_at (k : nat) (ucx : N * R) : option (N * R) :=
  match k with
  | O => Some ucx
  | S k' => match ra (snd ucx) with
            | None => None
            | Some r => match step (set_sp (snd ucx) (fst ucx)) r with
                        | None => None
                        | Some ucx' => ctx_at k' ucx'
                        end
            end
  end.
Definition regs_at_frame_gen (start : nat) (sets_sp : bool) (pc0 : N) (regs0 : R) (k : nat) : option R :=
  match k with
  | O => Some regs0
  | _ => match step regs0 pc0 with
         | None => None
         | Some ucx =>
             match ctx_at (k - start) ucx with
             | None => None
             | Some u =>
                 if sets_sp then (match ra (snd u) with None => None | Some _ => Some (set_sp (snd u) (fst u)) end)
                 else Some (snd u)
             end
         end
  end.
Definition regs_at_frame : N -> R -> nat -> option R := regs_at_frame_gen RESTORE_LOOP_START RESTORE_SETS_SP.

(* the registers the unwinder itself starts from when it derives the context of frame k:
   frame 0: the thread's registers; frame k+1: the registers restored by frame k's rules with
   the stack pointer set to frame k's CFA *)
Fixpoint frame_regs (k : nat) (pc : N) (regs : R) : option R :=
  match k with
  | O => Some regs
  | S k' => match step regs pc with
            | None => None
            | Some ucx => match ra (snd ucx) with
                          | None => None
                          | Some r => frame_regs k' r (set_sp (snd ucx) (fst ucx))
                          end
            end
  end.

(* ---- specification: the real call chain, as determined by a correct [step] ---- *)
(* frames above the one whose restored context is [ucx]: (return address, cfa of callee) *)
Fixpoint chain (n : nat) (ucx : N * R) : list (N * N) :=
  match n with
  | O => []
  | S n' => match ra (snd ucx) with
            | None => []
            | Some r => (r, fst ucx) ::
                        match step (set_sp (snd ucx) (fst ucx)) r with
                        | None => []
                        | Some ucx' => chain n' ucx'
                        end
            end
  end.

(* the last frame of [chain] may be one whose own pc has no unwind information: it is known
   (its return address was read) but the unwinder does not list it; [listed] drops it *)
Fixpoint listed (n : nat) (ucx : N * R) : list (N * N) :=
  match n with
  | O => []
  | S n' => match ra (snd ucx) with
            | None => []
            | Some r => match step (set_sp (snd ucx) (fst ucx)) r with
                        | None => []
                        | Some ucx' => (r, fst ucx) :: listed n' ucx'
                        end
            end
  end.

End Unwind.

(* ---- table-driven instance for the correspondence leg ---- *)
(* the harness walks the frame-pointer chain itself: frames (ip_k, cfa_k), k = 0 is the
   stopped pc. The abstract register state is just the index of the frame being unwound. *)
Definition tbl := list (N * N).
Definition t_step (t : tbl) (k : nat) (pc : N) : option (N * nat) :=
  match nth_error t k with
  | Some (ip, cfa) => if ip =? pc then Some (cfa, S k) else None
  | None => None
  end.
Definition t_ra (t : tbl) (k : nat) : option N := option_map fst (nth_error t k).
Definition t_set_sp (k : nat) (_ : N) : nat := k.

Definition unwind_tbl (mode : guard_mode) (t : tbl) : list N :=
  match t with
  | [] => []
  | (pc0, _) :: _ => unwind_with (t_step t) (t_ra t) t_set_sp mode pc0 O
  end.

(* case: (true frames from the frame-pointer walk, backtrace ips reported by the debugger) *)
Definition unwind_case : Type := (tbl * list N)%type.
Definition unwind_check (c : unwind_case) : N :=
  let '(t, bt) := c in
  verdict (list_eqb N.eqb (unwind_tbl UNWIND_GUARD t) bt)
          (list_eqb N.eqb (firstn MAX_UNWIND_DEPTH (map fst t)) bt).
