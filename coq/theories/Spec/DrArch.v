(* Specification side of C14: how an x86-64 CPU interprets DR7 (Intel SDM vol. 3,
   17.2.4): L_i = bit 2i, G_i = bit 2i+1, R/W_i = bits 16+4i..17+4i, LEN_i = bits
   18+4i..19+4i; R/W 01 = break on data writes, 11 = data reads or writes;
   LEN 00 = 1 byte, 01 = 2, 11 = 4, 10 = 8.  These are architecture constants, written
   here independently of the source tree. *)
From BS Require Import Model.Base.
Open Scope N_scope.

Inductive access := Write | ReadWrite | Exec | IO.
Record hwbp := { hb_addr : N; hb_len : N; hb_access : access }.

Definition bit2 (x lo : N) : N := (if N.testbit x lo then 1 else 0) + (if N.testbit x (lo + 1) then 2 else 0).

Definition arch_slot (regs : list N) (d7 : N) (i : N) : option hwbp :=
  if N.testbit d7 (2 * i) || N.testbit d7 (2 * i + 1) then
    let rw := bit2 d7 (16 + 4 * i) in
    let len := bit2 d7 (18 + 4 * i) in
    Some {| hb_addr := nth (N.to_nat i) regs 0;
            hb_len := if len =? 0 then 1 else if len =? 1 then 2 else if len =? 3 then 4 else 8;
            hb_access := if rw =? 1 then Write else if rw =? 3 then ReadWrite else if rw =? 0 then Exec else IO |}
  else None.

(* what the CPU of a thread holding (regs, d7) watches: slot by slot *)
Definition arch_decode (regs : list N) (d7 : N) : list (option hwbp) :=
  map (arch_slot regs d7) [0; 1; 2; 3].
