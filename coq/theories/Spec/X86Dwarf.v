(* System V x86-64 psABI, figure 3.36 (DWARF register number mapping), written
   independently of the source tree, over the register names the translator found. *)
From BS Require Import Gen.Regs.
From Coq Require Import NArith.
Open Scope N_scope.

Definition abi_dwarf (r : reg) : option N :=
  match r with
  | R_Rax => Some 0 | R_Rdx => Some 1 | R_Rcx => Some 2 | R_Rbx => Some 3
  | R_Rsi => Some 4 | R_Rdi => Some 5 | R_Rbp => Some 6 | R_Rsp => Some 7
  | R_R8 => Some 8 | R_R9 => Some 9 | R_R10 => Some 10 | R_R11 => Some 11
  | R_R12 => Some 12 | R_R13 => Some 13 | R_R14 => Some 14 | R_R15 => Some 15
  | R_Rip => Some 16                       (* return address column *)
  | R_Eflags => Some 49
  | R_Es => Some 50 | R_Cs => Some 51 | R_Ss => Some 52 | R_Ds => Some 53 | R_Fs => Some 54 | R_Gs => Some 55
  | R_FsBase => Some 58 | R_GsBase => Some 59
  | R_OrigRax => None                      (* not an architectural register *)
  end.
