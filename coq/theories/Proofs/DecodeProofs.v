(* C06 - proofs about the byte-level decoders of Decode.v *)
From BS Require Import Model.Base.
From BS Require Import Model.Decode.
From Coq Require Import Lia.
Open Scope N_scope.
Local Ltac Zify.zify_post_hook ::= Z.to_euclidean_division_equations.

(* ========================================================================================== *)
(* 0. Utilities                                                                                *)
(* ========================================================================================== *)
Lemma seqN_length : forall n a, length (seqN a n) = n.
Proof. induction n; intros; cbn [seqN length]; [reflexivity | now rewrite IHn]. Qed.

Lemma seqN_app : forall n m a, seqN a (n + m) = seqN a n ++ seqN (a + N.of_nat n) m.
Proof.
  induction n; intros; cbn [seqN Nat.add app].
  - f_equal. lia.
  - f_equal. rewrite IHn. f_equal. f_equal. lia.
Qed.

Lemma seqN_In : forall n a x, In x (seqN a n) <-> a <= x /\ x < a + N.of_nat n.
Proof.
  induction n; intros; cbn [seqN In].
  - lia.
  - rewrite IHn. lia.
Qed.

Lemma seqN_map : forall n a b (f : N -> N),
  (forall j, j < N.of_nat n -> f (a + j) = b + j) -> map f (seqN a n) = seqN b n.
Proof.
  induction n; intros a b f H; cbn [seqN map]; [reflexivity|].
  f_equal.
  - specialize (H 0). rewrite !N.add_0_r in H. apply H. lia.
  - apply IHn. intros j Hj. replace (N.succ a + j) with (a + (j + 1)) by lia.
    rewrite H by lia. lia.
Qed.

Lemma seqN_shift : forall n a k, seqN (k + a) n = map (fun j => k + j) (seqN a n).
Proof. intros. symmetry. apply seqN_map. intros. lia. Qed.

Lemma map_ext_seqN : forall {B} n a (f g : N -> B),
  (forall x, a <= x -> x < a + N.of_nat n -> f x = g x) -> map f (seqN a n) = map g (seqN a n).
Proof. intros. apply map_ext_in. intros x Hx. apply seqN_In in Hx. apply H; lia. Qed.

Lemma filter_map_comm : forall {A B} (f : A -> B) (P : B -> bool) l,
  filter P (map f l) = map f (filter (fun x => P (f x)) l).
Proof.
  induction l; cbn [map filter]; [reflexivity|].
  destruct (P (f a)); cbn [map]; now rewrite IHl.
Qed.

Lemma filter_none : forall {A} (P : A -> bool) l, (forall x, In x l -> P x = false) -> filter P l = [].
Proof.
  induction l; intros H; cbn [filter]; [reflexivity|].
  rewrite (H a) by (left; reflexivity). apply IHl. intros; apply H; now right.
Qed.

Lemma forallb_seqN : forall (P : N -> bool) n a,
  forallb P (seqN a n) = true -> forall x, a <= x -> x < a + N.of_nat n -> P x = true.
Proof.
  intros P n a H x H1 H2. rewrite forallb_forall in H. apply H. apply seqN_In. lia.
Qed.

Lemma nth_skipn_firstn : forall {A} (l : list A) off n j d,
  (j < n)%nat -> nth j (firstn n (skipn off l)) d = nth (off + j) l d.
Proof.
  intros A l off. revert l. induction off; intros l n j d Hj.
  - cbn [skipn Nat.add]. revert l j Hj. induction n; intros l j Hj; [lia|].
    destruct l; cbn [firstn]; [now destruct j|].
    destruct j; cbn [nth]; [reflexivity|]. apply IHn. lia.
  - destruct l; cbn [skipn Nat.add].
    + rewrite firstn_nil. now destruct j.
    + cbn [nth]. now apply IHoff.
Qed.

Lemma read_bytes_ok : forall mem off n,
  off + n <= lenN mem -> read_bytes mem off n = Ok (firstn (N.to_nat n) (skipn (N.to_nat off) mem)).
Proof. intros. unfold read_bytes. destruct (N.leb_spec (off + n) (lenN mem)); [reflexivity | lia]. Qed.

(* ========================================================================================== *)
(* 1. hashbrown                                                                                *)
(* ========================================================================================== *)
Definition set_bits (m : N) : list N := filter (N.testbit m) (seqN 0 16).

(* --- the bit mask of one group: match_empty_or_deleted is _mm_movemask_epi8 ---------------- *)
Lemma shr7 : forall b, b < 256 -> N.shiftr b CTRL_SHIFT = if b <? CTRL_FULL_LIMIT then 0 else 1.
Proof.
  intros b Hb. unfold CTRL_FULL_LIMIT, CTRL_SHIFT. rewrite N.shiftr_div_pow2.
  change (2 ^ 7) with 128. destruct (N.ltb_spec b 128); lia.
Qed.

Lemma testbit_bit_shift : forall (s : bool) i j,
  N.testbit (N.shiftl (if s then 0 else 1) i) j = negb s && (i =? j).
Proof.
  intros [] i j.
  - rewrite N.shiftl_0_l, N.bits_0. reflexivity.
  - rewrite N.shiftl_1_l, N.pow2_bits_eqb. reflexivity.
Qed.

Definition byte_full (b : N) : bool := b <? CTRL_FULL_LIMIT.

Lemma med_loop_testbit : forall g i r j,
  Forall (fun b => b < 256) g ->
  N.testbit (med_loop i g r) j =
  N.testbit r j || ((i <=? j) && (j <? i + lenN g) && negb (byte_full (nth (N.to_nat (j - i)) g 255))).
Proof.
  induction g as [|b t IH]; intros i r j HF; cbn [med_loop].
  - unfold lenN. cbn [length]. destruct (N.leb_spec i j), (N.ltb_spec j (i + N.of_nat 0)); try lia;
      cbn [andb]; now rewrite orb_false_r.
  - inversion HF as [|? ? Hb HF']; subst. rewrite IH by assumption.
    rewrite N.lor_spec, (shr7 b Hb), testbit_bit_shift.
    unfold lenN. cbn [length]. fold (byte_full b).
    destruct (N.eqb_spec i j) as [->|Hne].
    + replace (j - j) with 0 by lia. cbn [N.to_nat nth].
      destruct (N.leb_spec (j + 1) j); [lia|].
      destruct (N.leb_spec j j); [|lia].
      destruct (N.ltb_spec j (j + N.of_nat (S (length t)))); [|lia].
      cbn [andb]. rewrite andb_true_r, orb_false_r. reflexivity.
    + rewrite andb_false_r, orb_false_r.
      destruct (N.leb_spec (i + 1) j) as [Hle|Hgt].
      * destruct (N.leb_spec i j); [|lia].
        replace (N.to_nat (j - i)) with (S (N.to_nat (j - (i + 1)))) by lia. cbn [nth].
        destruct (N.ltb_spec j (i + 1 + N.of_nat (length t))), (N.ltb_spec j (i + N.of_nat (S (length t))));
          try lia; reflexivity.
      * destruct (N.leb_spec i j); [lia|]. reflexivity.
Qed.

Lemma lt_pow2_of_bits : forall m k, (forall j, k <= j -> N.testbit m j = false) -> m < 2 ^ k.
Proof.
  intros m k H. destruct (N.eq_dec m 0) as [->|Hm].
  - apply N.neq_0_lt_0. apply N.pow_nonzero. lia.
  - apply N.log2_lt_pow2; [lia|].
    destruct (N.lt_ge_cases (N.log2 m) k) as [|Hge]; [assumption|].
    specialize (H _ Hge). rewrite N.bit_log2 in H by assumption. discriminate.
Qed.

Lemma full_mask_testbit : forall g j,
  Forall (fun b => b < 256) g -> length g = 16%nat ->
  N.testbit (full_mask g) j = (j <? 16) && byte_full (nth (N.to_nat j) g 255).
Proof.
  intros g j HF Hl. unfold full_mask, bm_invert, match_empty_or_deleted, BITMASK_ALL.
  rewrite N.lxor_spec, med_loop_testbit by assumption. rewrite N.bits_0. cbn [orb].
  unfold lenN. rewrite Hl. rewrite N.sub_0_r. change (0 + N.of_nat 16) with 16.
  change 65535 with (N.ones 16).
  destruct (N.ltb_spec j 16).
  - rewrite N.ones_spec_low by assumption. destruct (N.leb_spec 0 j); [|lia]. cbn [andb].
    now destruct (byte_full _).
  - rewrite N.ones_spec_high by assumption. rewrite andb_false_r. reflexivity.
Qed.

Lemma full_mask_bound : forall g,
  Forall (fun b => b < 256) g -> length g = 16%nat -> full_mask g < 65536.
Proof.
  intros g HF Hl. change 65536 with (2 ^ 16). apply lt_pow2_of_bits. intros j Hj.
  rewrite full_mask_testbit by assumption. destruct (N.ltb_spec j 16); [lia | reflexivity].
Qed.

(* the model of match_empty_or_deleted agrees with the SSE2 movemask it replaces
   (the unit test test_group_match_empty_or_deleted, for all inputs) *)
Theorem match_empty_or_deleted_is_movemask : forall g j,
  Forall (fun b => b < 256) g -> length g = 16%nat ->
  N.testbit (match_empty_or_deleted g) j = (j <? 16) && (128 <=? nth (N.to_nat j) g 255).
Proof.
  intros g j HF Hl. unfold match_empty_or_deleted.
  rewrite med_loop_testbit by assumption. rewrite N.bits_0. cbn [orb].
  unfold lenN. rewrite Hl, N.sub_0_r. change (0 + N.of_nat 16) with 16.
  destruct (N.leb_spec 0 j); [|lia]. cbn [andb]. f_equal.
  unfold byte_full, CTRL_FULL_LIMIT, CTRL_SHIFT. change (2 ^ 7) with 128.
  destruct (N.ltb_spec (nth (N.to_nat j) g 255) 128), (N.leb_spec 128 (nth (N.to_nat j) g 255)); try lia; reflexivity.
Qed.

(* --- draining one mask: complete check of the 2^16 masks ---------------------------------- *)
Definition drain_okb (m : N) : bool :=
  match lowest_set_bit m with
  | None => match set_bits m with [] => true | _ => false end
  | Some b => list_eqb N.eqb (set_bits m) (b :: set_bits (remove_lowest_bit m))
              && (remove_lowest_bit m <? m)
  end.

Lemma drain_all : forallb drain_okb (seqN 0 (N.to_nat 65536)) = true.
Proof. vm_compute. reflexivity. Qed.

Lemma list_eqb_N_eq : forall l1 l2, list_eqb N.eqb l1 l2 = true -> l1 = l2.
Proof.
  induction l1; destruct l2; cbn [list_eqb]; intros H; try discriminate; [reflexivity|].
  apply andb_true_iff in H as [H1 H2]. apply N.eqb_eq in H1. subst. f_equal. now apply IHl1.
Qed.

Lemma drain_fact : forall m, m < 65536 ->
  match lowest_set_bit m with
  | None => set_bits m = []
  | Some b => set_bits m = b :: set_bits (remove_lowest_bit m) /\ remove_lowest_bit m < m
  end.
Proof.
  intros m Hm.
  assert (H : drain_okb m = true).
  { apply (forallb_seqN _ _ _ drain_all); [lia|]. rewrite N2Nat.id. lia. }
  unfold drain_okb in H. destruct (lowest_set_bit m).
  - apply andb_true_iff in H as [H1 H2]. split; [now apply list_eqb_N_eq | now apply N.ltb_lt].
  - destruct (set_bits m); [reflexivity | discriminate].
Qed.

Lemma hb_run_S : forall f ctrl size end_ data cur next_ctrl acc,
  hb_run (S f) ctrl size end_ data cur next_ctrl acc =
  match lowest_set_bit cur with
  | Some index =>
      hb_run f ctrl size end_ data (remove_lowest_bit cur) next_ctrl
             (acc ++ [(data - Z.of_N (index * size) - Z.of_N size)%Z])
  | None =>
      if end_ <=? next_ctrl then Ok acc
      else
        g <- load_group ctrl next_ctrl ;;
        hb_run f ctrl size end_ (data - Z.of_N (GROUP_WIDTH * size))%Z (full_mask g)
               (next_ctrl + GROUP_WIDTH) acc
  end.
Proof. reflexivity. Qed.

Definition yield_loc (size : N) (data : Z) (b : N) : Z := (data - Z.of_N (b * size) - Z.of_N size)%Z.

Lemma hb_drain : forall m, m < 65536 ->
  forall fuel ctrl size end_ data next_ctrl acc,
  hb_run (length (set_bits m) + fuel) ctrl size end_ data m next_ctrl acc =
  hb_run fuel ctrl size end_ data 0 next_ctrl (acc ++ map (yield_loc size data) (set_bits m)).
Proof.
  intros m. induction m as [m IH] using (well_founded_induction N.lt_wf_0).
  intros Hm fuel ctrl size end_ data next_ctrl acc.
  pose proof (drain_fact m Hm) as Hd.
  destruct (lowest_set_bit m) as [b|] eqn:Hl.
  - destruct Hd as [Hs Hlt]. rewrite Hs. cbn [length Nat.add map].
    rewrite hb_run_S, Hl. rewrite IH by lia. unfold yield_loc at 2.
    rewrite <- app_assoc. reflexivity.
  - rewrite Hd. cbn [length Nat.add map]. rewrite app_nil_r.
    unfold lowest_set_bit in Hl. destruct (N.eqb_spec m 0); [subst; reflexivity | discriminate].
Qed.

(* --- one group: the positions of the drained mask are the full buckets of the group -------- *)
Lemma skipn_In' : forall {A} n (l : list A) x, In x (skipn n l) -> In x l.
Proof.
  induction n; intros l x H; [exact H|]. destruct l; [exact H|]. right. now apply IHn.
Qed.

Lemma firstn_In' : forall {A} n (l : list A) x, In x (firstn n l) -> In x l.
Proof.
  induction n; intros l x H; [destruct H|]. destruct l; [exact H|].
  destruct H as [H|H]; [now left | right; now apply IHn].
Qed.

Lemma load_group_ok : forall ctrl off,
  off + 16 <= lenN ctrl ->
  load_group ctrl off = Ok (firstn 16 (skipn (N.to_nat off) ctrl)).
Proof. intros. unfold load_group, GROUP_WIDTH. now rewrite read_bytes_ok. Qed.

Lemma group_props : forall ctrl off,
  Forall (fun b => b < 256) ctrl -> off + 16 <= lenN ctrl ->
  let grp := firstn 16 (skipn (N.to_nat off) ctrl) in
  Forall (fun b => b < 256) grp /\ length grp = 16%nat /\
  forall j, j < 16 -> nth (N.to_nat j) grp 255 = ctrl_at ctrl (off + j).
Proof.
  intros ctrl off HF Hlen grp. unfold lenN in Hlen. split; [|split].
  - apply Forall_forall. intros x Hx. rewrite Forall_forall in HF. apply HF.
    apply firstn_In' in Hx. now apply skipn_In' in Hx.
  - unfold grp. rewrite firstn_length, skipn_length. lia.
  - intros j Hj. unfold grp, ctrl_at. rewrite nth_skipn_firstn by lia. f_equal. lia.
Qed.

Lemma group_positions : forall ctrl size g,
  Forall (fun b => b < 256) ctrl -> 16 * g + 16 <= lenN ctrl ->
  let grp := firstn 16 (skipn (N.to_nat (16 * g)) ctrl) in
  map (yield_loc size (- Z.of_N (16 * g * size))%Z) (set_bits (full_mask grp)) =
  map (bucket_loc size) (filter (is_full ctrl) (seqN (16 * g) 16)).
Proof.
  intros ctrl size g HF Hlen grp.
  destruct (group_props ctrl (16 * g) HF Hlen) as (HFg & Hlg & Hnth). fold grp in HFg, Hlg, Hnth.
  replace (seqN (16 * g) 16) with (seqN (16 * g + 0) 16) by (f_equal; lia).
  rewrite seqN_shift, filter_map_comm, map_map. unfold set_bits.
  assert (Hf : filter (N.testbit (full_mask grp)) (seqN 0 16) =
               filter (fun x => is_full ctrl (16 * g + x)) (seqN 0 16)).
  { apply filter_ext_in. intros j Hj. apply seqN_In in Hj.
    rewrite full_mask_testbit by assumption.
    destruct (N.ltb_spec j 16); [|lia]. cbn [andb].
    rewrite Hnth by lia. reflexivity. }
  rewrite Hf. apply map_ext. intros b. unfold yield_loc, bucket_loc. lia.
Qed.

(* --- all groups: induction on the number of groups still to load ---------------------------- *)
Lemma lowest_set_bit_0 : lowest_set_bit 0 = None.
Proof. reflexivity. Qed.

Lemma hb_groups : forall (n : nat) g ctrl size end_ acc extra data next grp,
  Forall (fun b => b < 256) ctrl ->
  16 * (g + N.of_nat n) + 16 <= lenN ctrl ->
  16 * (g + N.of_nat n) < end_ -> end_ <= 16 * (g + N.of_nat n) + 16 ->
  data = (- Z.of_N (16 * g * size))%Z -> next = 16 * g + 16 ->
  grp = firstn 16 (skipn (N.to_nat (16 * g)) ctrl) ->
  let pos := filter (is_full ctrl) (seqN (16 * g) (16 + 16 * n)) in
  hb_run (length pos + S n + extra) ctrl size end_ data (full_mask grp) next acc
  = Ok (acc ++ map (bucket_loc size) pos).
Proof.
  induction n as [|n IH]; intros g ctrl size end_ acc extra data next grp HF Hlen Hlo Hhi -> -> -> pos.
  - (* last group *)
    assert (Hlen' : 16 * g + 16 <= lenN ctrl) by lia.
    pose proof (group_positions ctrl size g HF Hlen') as Hgp. cbn zeta in Hgp.
    destruct (group_props ctrl (16 * g) HF Hlen') as (HFg & Hlg & _).
    subst pos. change (16 + 16 * 0)%nat with 16%nat.
    assert (Hl : length (filter (is_full ctrl) (seqN (16 * g) 16)) =
                 length (set_bits (full_mask (firstn 16 (skipn (N.to_nat (16 * g)) ctrl))))).
    { apply (f_equal (@length Z)) in Hgp. now rewrite !map_length in Hgp. }
    rewrite Hl, <- Nat.add_assoc, hb_drain by (now apply full_mask_bound).
    cbn [Nat.add]. rewrite hb_run_S, lowest_set_bit_0.
    destruct (N.leb_spec end_ (16 * g + 16)); [|lia].
    now rewrite Hgp.
  - (* drain this group, load the next *)
    assert (Hlen' : 16 * g + 16 <= lenN ctrl) by lia.
    pose proof (group_positions ctrl size g HF Hlen') as Hgp. cbn zeta in Hgp.
    destruct (group_props ctrl (16 * g) HF Hlen') as (HFg & Hlg & _).
    subst pos. replace (16 + 16 * S n)%nat with (16 + (16 + 16 * n))%nat by lia.
    rewrite seqN_app, filter_app, app_length, map_app.
    change (N.of_nat 16) with 16.
    set (p1 := filter (is_full ctrl) (seqN (16 * g) 16)) in *.
    set (p2 := filter (is_full ctrl) (seqN (16 * g + 16) (16 + 16 * n))).
    assert (Hl : length p1 = length (set_bits (full_mask (firstn 16 (skipn (N.to_nat (16 * g)) ctrl))))).
    { apply (f_equal (@length Z)) in Hgp. now rewrite !map_length in Hgp. }
    replace (length p1 + length p2 + S (S n) + extra)%nat
      with (length p1 + S (length p2 + S n + extra))%nat by lia.
    rewrite Hl, hb_drain by (now apply full_mask_bound).
    rewrite hb_run_S, lowest_set_bit_0.
    destruct (N.leb_spec end_ (16 * g + 16)); [lia|].
    rewrite load_group_ok by lia. cbn [bind].
    rewrite Hgp, app_assoc.
    subst p2. replace (16 * g + 16) with (16 * (g + 1)) by lia.
    apply IH; try assumption; try lia.
    + unfold GROUP_WIDTH. lia.
    + unfold GROUP_WIDTH. lia.
    + reflexivity.
Qed.

Lemma filter_length_le' : forall {A} (P : A -> bool) l, (length (filter P l) <= length l)%nat.
Proof. induction l; cbn [filter length]; [lia|]. destruct (P a); cbn [length]; lia. Qed.

Lemma padded_eq : forall b, 1 <= b -> padded b = 16 * ((b - 1) / 16) + 16.
Proof. intros. unfold padded, GROUP_WIDTH. lia. Qed.

(* hashbrown: with the layout invariant of the control bytes every full bucket is yielded exactly
   once, in ascending order, and nothing else - for any number of groups, including tables with
   fewer buckets than a group. *)
Theorem hb_iter_exact : forall ctrl mask size fuel,
  mask < USIZE_MAX -> hb_layout ctrl (mask + 1) -> (hb_fuel mask <= fuel)%nat ->
  hb_collect fuel ctrl mask size = Ok (hb_spec ctrl mask size).
Proof.
  intros ctrl mask size fuel Hm (HF & Hlen & Hpad) Hfuel.
  set (b := mask + 1) in *. assert (Hb : 1 <= b) by lia.
  rewrite padded_eq in Hlen, Hpad by assumption.
  set (n := N.to_nat ((b - 1) / 16)).
  assert (Hn : N.of_nat n = (b - 1) / 16) by (subst n; lia).
  unfold hb_collect. rewrite load_group_ok by lia. cbn [bind].
  destruct (N.eqb_spec mask USIZE_MAX); [lia|]. fold b.
  set (pos := filter (is_full ctrl) (seqN (16 * 0) (16 + 16 * n))).
  assert (Hcost : (length pos + S n <= hb_fuel mask)%nat).
  { pose proof (filter_length_le' (is_full ctrl) (seqN (16 * 0) (16 + 16 * n))) as Hle.
    fold pos in Hle. rewrite seqN_length in Hle. unfold hb_fuel, GROUP_WIDTH. fold b. lia. }
  replace fuel with (length pos + S n + (fuel - (length pos + S n)))%nat by lia.
  subst pos. rewrite (hb_groups n 0 ctrl size b [] _ 0%Z GROUP_WIDTH (firstn 16 (skipn (N.to_nat 0) ctrl)));
    try assumption; try lia; try reflexivity.
  - cbn [app]. unfold hb_spec, full_buckets. fold b. f_equal. f_equal.
    change (16 * 0) with 0.
    replace (16 + 16 * n)%nat with (N.to_nat b + N.to_nat (16 * ((b - 1) / 16) + 16 - b))%nat by lia.
    rewrite seqN_app, filter_app.
    rewrite (filter_none _ (seqN (0 + N.of_nat (N.to_nat b)) _)); [now rewrite app_nil_r|].
    intros x Hx. apply seqN_In in Hx. apply Hpad; lia.
Qed.

Lemma hb_layoutb_sound : forall ctrl b, hb_layoutb ctrl b = true -> hb_layout ctrl b.
Proof.
  intros ctrl b H. unfold hb_layoutb in H.
  apply andb_true_iff in H as [H H3]. apply andb_true_iff in H as [H1 H2].
  split; [|split].
  - apply Forall_forall. intros x Hx. rewrite forallb_forall in H1. apply H1 in Hx. now apply N.ltb_lt.
  - now apply N.leb_le.
  - intros i Hi1 Hi2.
    assert (Hx := forallb_seqN _ _ _ H3 i Hi1). rewrite N2Nat.id in Hx.
    apply negb_true_iff. apply Hx. lia.
Qed.

(* set view of the specification: membership and no duplicates *)
Lemma full_buckets_In : forall ctrl b i,
  In i (full_buckets ctrl b) <-> i < b /\ ctrl_at ctrl i < CTRL_FULL_LIMIT.
Proof.
  intros. unfold full_buckets. rewrite filter_In, seqN_In. unfold is_full. rewrite N.ltb_lt. lia.
Qed.

Lemma seqN_NoDup : forall n a, NoDup (seqN a n).
Proof.
  induction n; intros; cbn [seqN]; constructor; [|apply IHn].
  rewrite seqN_In. lia.
Qed.

Lemma full_buckets_NoDup : forall ctrl b, NoDup (full_buckets ctrl b).
Proof. intros. apply NoDup_filter, seqN_NoDup. Qed.

Lemma NoDup_map_inj : forall {A B} (f : A -> B) l,
  (forall x y, In x l -> In y l -> f x = f y -> x = y) -> NoDup l -> NoDup (map f l).
Proof.
  induction l as [|a t IH]; intros Hinj Hnd; cbn [map]; [constructor|].
  inversion Hnd as [|? ? Hna Hnt]; subst. constructor.
  - intros Hin. apply in_map_iff in Hin as (y & Hy & Hyin).
    assert (y = a) by (apply Hinj; [now right | now left | assumption]). subst. contradiction.
  - apply IH; [|assumption]. intros x y Hx Hy. apply Hinj; now right.
Qed.

Lemma hb_spec_NoDup : forall ctrl mask size, 0 < size -> NoDup (hb_spec ctrl mask size).
Proof.
  intros ctrl mask size Hs. unfold hb_spec.
  apply NoDup_map_inj; [|apply full_buckets_NoDup].
  intros x y _ _ Hxy. unfold bucket_loc in Hxy. nia.
Qed.

(* the padding hypothesis is necessary: the scan does not compare bit positions with `buckets` *)
Theorem hb_iter_without_padding_refuted :
  exists ctrl mask size,
    Forall (fun b => b < 256) ctrl /\ padded (mask + 1) <= lenN ctrl /\
    hb_collect (hb_fuel mask) ctrl mask size = Ok [(-48)%Z] /\ hb_spec ctrl mask size = [].
Proof.
  exists ([255;255;255;255; 255;0;255;255; 255;255;255;255; 255;255;255;255] ++ [255;255;255;255]), 3, 8.
  split; [|split; [|split]].
  - repeat constructor.
  - vm_compute. discriminate.
  - vm_compute. reflexivity.
  - vm_compute. reflexivity.
Qed.

Example hb_layout_example :
  hb_layoutb ([0;255;128;1] ++ repeat 255 12 ++ [0;255;128;1]) 4 = true.
Proof. vm_compute. reflexivity. Qed.

(* ========================================================================================== *)
(* 2. VecDeque and Vec                                                                         *)
(* ========================================================================================== *)
Lemma guard_len_id : forall x, x <= LEN_GUARD -> guard_len x = x.
Proof.
  intros x H. unfold guard_len. destruct (N.ltb_spec LEN_GUARD x); [lia|]. now rewrite andb_false_r.
Qed.
Lemma guard_cap_id : forall x, x <= CAP_GUARD -> guard_cap x = x.
Proof.
  intros x H. unfold guard_cap. destruct (N.ltb_spec CAP_GUARD x); [lia|]. now rewrite andb_false_r.
Qed.

Lemma elem_at_firstn : forall buf el i n,
  (i + 1) * el <= n -> elem_at (firstn (N.to_nat n) buf) el i = elem_at buf el i.
Proof.
  intros buf el i n H. unfold elem_at.
  rewrite skipn_firstn_comm, firstn_firstn. f_equal. lia.
Qed.

Lemma ring_indices : forall len cap head,
  len <= cap -> (head < cap \/ (cap = 0 /\ head = 0)) ->
  (let ws := if cap =? 0 then 0 else head mod cap in
   let head_len := cap - ws in
   if len <=? head_len then range_list ws (ws + len)
   else range_list ws cap ++ range_list 0 (len - head_len))
  = vd_spec_indices len cap head.
Proof.
  intros len cap head Hlen Hhead. cbn zeta. unfold vd_spec_indices, range_list.
  destruct (N.eqb_spec cap 0) as [->|Hc].
  - assert (len = 0) by lia. subst. reflexivity.
  - destruct Hhead as [Hhead|[? _]]; [|lia].
    rewrite N.mod_small by assumption.
    destruct (N.leb_spec len (cap - head)) as [HA|HB].
    + replace (N.to_nat (head + len - head)) with (N.to_nat len) by lia.
      symmetry. apply seqN_map. intros j Hj. rewrite N.mod_small; lia.
    + rewrite N.sub_0_r.
      replace (N.to_nat len) with (N.to_nat (cap - head) + N.to_nat (len - (cap - head)))%nat by lia.
      rewrite seqN_app, map_app. f_equal; symmetry; apply seqN_map; intros j Hj.
      * rewrite N.mod_small; lia.
      * replace (head + (0 + N.of_nat (N.to_nat (cap - head)) + j)) with (j + 1 * cap) by lia.
        rewrite N.mod_add by assumption. rewrite N.mod_small; lia.
Qed.

Lemma vd_validb_sound : forall len cap head el, vd_validb len cap head el = true -> vd_valid len cap head el.
Proof.
  intros len cap head el H. unfold vd_validb in H. unfold vd_valid.
  apply andb_true_iff in H as [H H3]. apply andb_true_iff in H as [H1 H2].
  apply N.leb_le in H1, H3. split; [assumption|]. split; [|assumption].
  apply orb_true_iff in H2 as [H2|H2]; [left; now apply N.ltb_lt|].
  apply andb_true_iff in H2 as [Ha Hb]. apply N.eqb_eq in Ha, Hb. now right.
Qed.

Lemma guard_len_le : forall x, x < 2 ^ 63 -> guard_len x <= LEN_GUARD.
Proof.
  intros x H. unfold guard_len. destruct (N.ltb_spec x (2 ^ 63)); [|lia].
  destruct (N.ltb_spec LEN_GUARD x); cbn [andb]; lia.
Qed.

(* the shape of the two ranges, for ANY header values *)
Lemma vd_ranges_facts : forall len cap head el a b c d,
  vd_ranges len cap head el = ((a, b), (c, d)) ->
  a <= b /\ c <= d /\ b <= vd_cap cap el /\ d <= guard_len len /\ c = 0 /\
  (b - a) + (d - c) = guard_len len.
Proof.
  intros len cap head el a b c d H. unfold vd_ranges in H.
  set (C := vd_cap cap el) in *. set (G := guard_len len) in *.
  assert (Hws : (if C =? 0 then 0 else head mod C) <= C).
  { destruct (N.eqb_spec C 0); [lia|]. pose proof (N.mod_lt head C ltac:(assumption)). lia. }
  set (ws := if C =? 0 then 0 else head mod C) in *.
  destruct (N.leb_spec G (C - ws)); inversion H; subst; lia.
Qed.

Lemma vd_indices_length : forall len cap head el,
  length (vd_indices len cap head el) = N.to_nat (guard_len len).
Proof.
  intros. unfold vd_indices. destruct (vd_ranges len cap head el) as [[a b] [c d]] eqn:E.
  apply vd_ranges_facts in E. unfold range_list. rewrite app_length, !seqN_length. lia.
Qed.

Lemma skipn_skipn' : forall {A} x y (l : list A), skipn x (skipn y l) = skipn (y + x) l.
Proof.
  intros A x y. induction y; intros l; cbn [skipn Nat.add]; [reflexivity|].
  destruct l; [now rewrite skipn_nil | apply IHy].
Qed.

Lemma elem_at_window : forall buf el a j n,
  (j + 1) * el <= n ->
  elem_at (firstn (N.to_nat n) (skipn (N.to_nat (a * el)) buf)) el j = elem_at buf el (a + j).
Proof.
  intros buf el a j n H. unfold elem_at.
  rewrite skipn_firstn_comm, firstn_firstn, skipn_skipn'. rewrite N.mul_add_distr_r.
  f_equal; [lia|]. f_equal. lia.
Qed.

Lemma vd_read_range_cases : forall dp buf el a b,
  a <= b -> dp + b * el < 2 ^ 63 ->
  vd_read_range dp buf el (a, b) =
  if b * el <=? lenN buf
  then Ok (firstn (N.to_nat ((b - a) * el)) (skipn (N.to_nat (a * el)) buf))
  else Err EIO.
Proof.
  intros dp buf el a b Hab Hov. unfold vd_read_range.
  assert (H1 : a * el <= b * el) by (now apply N.mul_le_mono_r).
  assert (H2 : (b - a) * el = b * el - a * el) by apply N.mul_sub_distr_r.
  rewrite H2. set (pa := a * el) in *. set (pb := b * el) in *.
  destruct (N.leb_spec (2 ^ 64) pa); [lia|].
  destruct (N.leb_spec (2 ^ 64) (dp + pa)); [lia|].
  destruct (N.leb_spec (2 ^ 64) (pb - pa)); [lia|].
  destruct (N.leb_spec (2 ^ 63) (pb - pa)); [lia|].
  unfold read_bytes.
  destruct (N.leb_spec (pa + (pb - pa)) (lenN buf)), (N.leb_spec pb (lenN buf)); try lia; reflexivity.
Qed.

Lemma vd_range_map : forall buf el a b,
  a <= b ->
  map (fun i => (i, elem_at (firstn (N.to_nat ((b - a) * el)) (skipn (N.to_nat (a * el)) buf)) el (i - a)))
      (range_list a b)
  = map (fun i => (i, elem_at buf el i)) (range_list a b).
Proof.
  intros buf el a b Hab. unfold range_list. apply map_ext_seqN. intros x Hx1 Hx2.
  f_equal. rewrite elem_at_window.
  - f_equal. lia.
  - apply N.mul_le_mono_r. lia.
Qed.

(* What is shown, for ANY header values (len > cap, cap = 0, head >= cap, ...): if the two ranges are
   readable the slots [vd_indices] with whatever the memory holds there; else the read error.
   [data_ptr + (cap + len) * el < 2^63] keeps the usize arithmetic of read_range from overflowing. *)
Theorem vecdeque_total : forall dp len cap head el buf,
  dp + (vd_cap cap el + guard_len len) * el < 2 ^ 63 ->
  vecdeque_decode_at dp len cap head el buf = Err EIO \/
  vecdeque_decode_at dp len cap head el buf =
    Ok (map (fun i => (i, elem_at buf el i)) (vd_indices len cap head el)).
Proof.
  intros dp len cap head el buf Hov. unfold vecdeque_decode_at, vd_indices.
  destruct (vd_ranges len cap head el) as [[a b] [c d]] eqn:E.
  destruct (vd_ranges_facts _ _ _ _ _ _ _ _ E) as (Hab & Hcd & Hb & Hd & Hc & Hsum).
  assert (Hbe : b * el <= (vd_cap cap el + guard_len len) * el) by (apply N.mul_le_mono_r; lia).
  assert (Hde : d * el <= (vd_cap cap el + guard_len len) * el) by (apply N.mul_le_mono_r; lia).
  rewrite !vd_read_range_cases by (assumption || lia).
  destruct (b * el <=? lenN buf); cbn [bind]; [|now left].
  destruct (d * el <=? lenN buf); cbn [bind]; [|now left].
  right. rewrite !vd_range_map by assumption. now rewrite map_app.
Qed.

(* in particular never a panic and never more than LEN_GUARD items when the len field is below 2^63 *)
Corollary vecdeque_no_panic : forall dp len cap head el buf,
  len < 2 ^ 63 -> dp + (vd_cap cap el + LEN_GUARD) * el < 2 ^ 63 ->
  vecdeque_decode_at dp len cap head el buf = Err EIO \/
  exists items, vecdeque_decode_at dp len cap head el buf = Ok items /\
                map fst items = vd_indices len cap head el /\ lenN items = guard_len len /\
                lenN items <= LEN_GUARD.
Proof.
  intros dp len cap head el buf Hl Hov. pose proof (guard_len_le len Hl) as Hg.
  destruct (vecdeque_total dp len cap head el buf) as [H|H].
  - assert ((vd_cap cap el + guard_len len) * el <= (vd_cap cap el + LEN_GUARD) * el)
      by (apply N.mul_le_mono_r; lia). lia.
  - now left.
  - right. eexists. split; [exact H|]. split; [|split].
    + rewrite map_map. cbn [fst]. apply map_id.
    + unfold lenN. rewrite map_length, vd_indices_length. lia.
    + unfold lenN. rewrite map_length, vd_indices_length. lia.
Qed.

Lemma vd_indices_eq : forall len cap_raw head el,
  len <= LEN_GUARD -> vd_valid len cap_raw head el ->
  vd_indices len cap_raw head el = vd_spec_indices len (vd_logical_cap cap_raw el) head.
Proof.
  intros len cap_raw head el Hg (Hv1 & Hv2 & _).
  pose proof (ring_indices len (vd_logical_cap cap_raw el) head Hv1 Hv2) as R. cbn zeta in R.
  unfold vd_indices, vd_ranges. rewrite guard_len_id by assumption.
  change (vd_cap cap_raw el) with (vd_logical_cap cap_raw el).
  destruct (len <=? _); [|exact R].
  rewrite <- R. change (range_list 0 0) with (@nil N). now rewrite app_nil_r.
Qed.

(* Full statement (false, see vecdeque_len_guard_refuted):
     forall len cap head el buf, vd_valid len cap head el -> cap * el <= lenN buf ->
       vecdeque_decode len cap head el buf = Ok (vecdeque_spec len cap head el buf).
   Proved for ANY capacity under the extra hypothesis len <= LEN_GUARD (decidable by N.leb). *)
Theorem vecdeque_exact_partial : forall dp len cap_raw head el buf,
  len <= LEN_GUARD -> vd_valid len cap_raw head el ->
  cap_raw * el <= lenN buf -> dp + (cap_raw + LEN_GUARD) * el < 2 ^ 63 ->
  vecdeque_decode_at dp len cap_raw head el buf = Ok (vecdeque_spec len cap_raw head el buf).
Proof.
  intros dp len cap_raw head el buf Hg Hv Hbuf Hov.
  unfold vecdeque_spec. rewrite <- vd_indices_eq by assumption.
  unfold vecdeque_decode_at, vd_indices.
  destruct (vd_ranges len cap_raw head el) as [[a b] [c d]] eqn:E.
  destruct (vd_ranges_facts _ _ _ _ _ _ _ _ E) as (Hab & Hcd & Hb & Hd & Hc & Hsum).
  rewrite guard_len_id in Hd, Hsum by assumption.
  destruct Hv as (Hv1 & _ & _).
  assert (Hce : vd_cap cap_raw el * el = cap_raw * el).
  { unfold vd_cap. destruct (N.eqb_spec el 0); [subst; lia | reflexivity]. }
  assert (Hdc : d <= vd_cap cap_raw el) by (unfold vd_logical_cap, vd_cap in *; lia).
  assert (Hbe : b * el <= cap_raw * el) by (rewrite <- Hce; now apply N.mul_le_mono_r).
  assert (Hde : d * el <= cap_raw * el) by (rewrite <- Hce; now apply N.mul_le_mono_r).
  assert (Hx : cap_raw * el <= (cap_raw + LEN_GUARD) * el) by (apply N.mul_le_mono_r; lia).
  rewrite !vd_read_range_cases by (assumption || lia).
  destruct (N.leb_spec (b * el) (lenN buf)); [|lia]. cbn [bind].
  destruct (N.leb_spec (d * el) (lenN buf)); [|lia]. cbn [bind].
  rewrite !vd_range_map by assumption. now rewrite map_app.
Qed.

Example vecdeque_partial_applies :
  (3 <=? LEN_GUARD) = true /\ vd_validb 3 4 2 1 = true /\
  vecdeque_decode 3 4 2 1 [10; 11; 12; 13] = Ok [(2, [12]); (3, [13]); (0, [10])].
Proof. vm_compute. auto. Qed.

(* vecdeque_cap_guard_refuted_old (true of the source before 1a591ca, witness len 1, cap 10001, head 10000:
   slot 0 shown instead of slot 10000) no longer holds: the same header is now decoded exactly *)
Example vecdeque_cap_above_guard_fixed :
  vd_valid 1 10001 10000 1 /\
  vecdeque_decode 1 10001 10000 1 (repeat 0 (N.to_nat 10000) ++ [7]) = Ok [(10000, [7])] /\
  vecdeque_spec 1 10001 10000 1 (repeat 0 (N.to_nat 10000) ++ [7]) = [(10000, [7])].
Proof.
  split; [apply vd_validb_sound; vm_compute; reflexivity|]. split; vm_compute; reflexivity.
Qed.

(* length above LEN_GUARD: silently truncated (still the case) *)
Theorem vecdeque_len_guard_refuted :
  exists len cap head el buf,
    vd_valid len cap head el /\ cap * el = lenN buf /\
    exists items, vecdeque_decode len cap head el buf = Ok items /\
      lenN items = LEN_GUARD /\ lenN (vecdeque_spec len cap head el buf) = LEN_GUARD + 1.
Proof.
  exists 10001, 0, 0, 0, [].
  split; [apply vd_validb_sound; vm_compute; reflexivity|].
  split; [reflexivity|].
  eexists. split; [vm_compute; reflexivity|]. split; vm_compute; reflexivity.
Qed.

(* vecdeque_len_gt_cap_refuted_old (before 1a591ca: Panic SITE_VD_SLICE for len 3, cap 1 and len 1, cap 0).
   Header fields no VecDeque has are now decoded without a panic (vecdeque_total); what is shown: *)
Example vecdeque_len_gt_cap_shown :
  vecdeque_decode 2 1 0 1 [5] = Ok [(0, [5]); (0, [5])] /\          (* slot 0 twice *)
  vecdeque_decode 3 1 0 1 [5; 6] = Ok [(0, [5]); (0, [5]); (1, [6])] /\   (* memory behind the buffer *)
  vecdeque_decode 3 1 0 1 [5] = Err EIO /\                           (* ... if it is readable *)
  vecdeque_decode 1 0 0 1 [] = Err EIO.
Proof. repeat split; vm_compute; reflexivity. Qed.

(* "no panic for ANY header values" is false of the debug profile: the overflow hypothesis of
   vecdeque_total is needed.  A capacity field of 2^62 (garbage) with 8-byte elements overflows
   range.start * el_type_size; a len field with the top bit set is not guarded (negative i64) and
   overflows range.len() * el_type_size. *)
Theorem vecdeque_overflow_refuted :
  vecdeque_decode 1 (2 ^ 62) (2 ^ 62 - 1) 8 [] = Panic SITE_VD_MUL /\
  vecdeque_decode (2 ^ 63) 1 0 8 [1; 2; 3; 4; 5; 6; 7; 8] = Panic SITE_VD_MUL /\
  vecdeque_decode (2 ^ 63 + 1) 1 0 1 [1] = Panic SITE_VD_ALLOC.
Proof. repeat split; vm_compute; reflexivity. Qed.

(* Vec: full statement (false): forall len, vec_decode len el buf = Ok (vec_spec len el buf) *)
Theorem vec_exact_partial : forall len el buf,
  len <= LEN_GUARD -> len * el < 2 ^ 64 -> len * el <= lenN buf ->
  vec_decode len el buf = Ok (vec_spec len el buf).
Proof.
  intros len el buf Hg Hovf Hbuf. unfold vec_decode, vec_spec. rewrite guard_len_id by assumption.
  destruct (N.leb_spec (2 ^ 64) (len * el)); [lia|].
  rewrite read_bytes_ok by lia. cbn [bind skipn N.to_nat]. f_equal.
  apply map_ext_seqN. intros i Hi1 Hi2. f_equal. apply elem_at_firstn.
  apply N.mul_le_mono_r. lia.
Qed.

Theorem vec_len_guard_refuted :
  exists len el buf, len * el <= lenN buf /\
    exists items, vec_decode len el buf = Ok items /\ lenN items = LEN_GUARD /\ lenN (vec_spec len el buf) = len
                  /\ len = LEN_GUARD + 1.
Proof.
  exists 10001, 0, []. split; [vm_compute; discriminate|].
  eexists. split; [vm_compute; reflexivity|]. repeat split; vm_compute; reflexivity.
Qed.

(* ========================================================================================== *)
(* 3. B-tree                                                                                   *)
(* ========================================================================================== *)
Section BT.
Variable heap : bheap.
Variables ks vs : N.

Definition exit_run (f : nat) (p : N) (h : nat) (pidx : N) (acc : list (N * N)) : res (list (N * N)) :=
  if p =? 0 then Ok acc else bt_run f heap ks vs p h pidx acc.

Lemma bt_run_S : forall f ptr h idx acc,
  bt_run (S f) heap ks vs ptr h idx acc =
  (n <- make_node heap ptr ;;
   if idx <? eff_len n then
     if kv_slices_ok ks vs idx then
       match h with
       | O => bt_run f heap ks vs ptr O (idx + 1) (acc ++ [(ptr, idx)])
       | S h' =>
           e <- edge n (idx + 1) ;;
           l <- first_leaf heap h' e ;;
           bt_run f heap ks vs l O 0 (acc ++ [(ptr, idx)])
       end
     else Panic SITE_BT_SLICE
   else if bn_parent n =? 0 then Ok acc
   else bt_run f heap ks vs (bn_parent n) (S h) (bn_parent_idx n) acc).
Proof. reflexivity. Qed.

Lemma make_node_ok : forall a n, alist_get N.eqb heap a = Some n -> make_node heap a = Ok n.
Proof. intros a n H. unfold make_node. now rewrite H. Qed.

Lemma kv_slices_ok_true : forall idx, idx + 1 <= BTREE_CAPACITY -> kv_slices_ok ks vs idx = true.
Proof.
  intros idx H. unfold kv_slices_ok. apply andb_true_iff. split; apply N.leb_le; now apply N.mul_le_mono_l.
Qed.

Lemma edge_ok : forall n i e,
  N.of_nat i < BTREE_EDGES -> nth_error (bn_edges n) i = Some e -> edge n (N.of_nat i) = Ok e.
Proof.
  intros n i e Hi He. unfold edge. destruct (N.ltb_spec (N.of_nat i) BTREE_EDGES); [|lia].
  rewrite Nat2N.id, He. reflexivity.
Qed.

Lemma eff_len_exit : forall n, bn_len n <? eff_len n = false.
Proof. intros n. unfold eff_len. apply N.ltb_ge. apply N.le_min_l. Qed.
Lemma eff_len_cap : forall n, bn_len n <= BTREE_CAPACITY -> eff_len n = bn_len n.
Proof. intros n H. unfold eff_len. apply N.min_l. exact H. Qed.

(* leaving a node whose keys are exhausted: ascend, or stop at the root *)
Lemma bt_exit : forall a n p pidx h f acc,
  alist_get N.eqb heap a = Some n -> bn_parent n = p -> (p <> 0 -> bn_parent_idx n = pidx) ->
  bt_run (S f) heap ks vs a h (bn_len n) acc = exit_run f p (S h) pidx acc.
Proof.
  intros a n p pidx h f acc Hn Hp Hpi. rewrite bt_run_S, (make_node_ok _ _ Hn). cbn [bind].
  rewrite eff_len_exit. unfold exit_run. rewrite Hp.
  destruct (N.eqb_spec p 0); [reflexivity|]. now rewrite Hpi.
Qed.

Lemma first_leaf_repr : forall h t p pidx,
  repr heap h t p pidx -> first_leaf heap h (taddr t) = Ok (leftmost t).
Proof.
  induction h as [|h IH]; intros t p pidx Hr; destruct t as [a len | a k0 rest]; cbn [repr] in Hr;
    try contradiction.
  - destruct Hr as (n & Hn & _). cbn [first_leaf taddr leftmost]. now rewrite (make_node_ok _ _ Hn).
  - destruct Hr as (n & Hn & Ha & Hp & Hpi & Hlen & Hcap & Hkids).
    cbn [first_leaf taddr leftmost]. rewrite (make_node_ok _ _ Hn). cbn [bind].
    destruct (Hkids O k0 eq_refl) as [He Hr0].
    change 0 with (N.of_nat 0). rewrite (edge_ok n 0 _ ltac:(vm_compute; reflexivity) He). cbn [bind].
    eapply IH; eassumption.
Qed.

Lemma bt_leaf : forall a n p pidx,
  alist_get N.eqb heap a = Some n -> bn_parent n = p -> (p <> 0 -> bn_parent_idx n = pidx) ->
  bn_len n <= BTREE_CAPACITY ->
  forall k i f acc, N.of_nat (i + k) = bn_len n ->
  bt_run (S k + f) heap ks vs a O (N.of_nat i) acc =
  exit_run f p 1 pidx (acc ++ map (fun j => (a, j)) (seqN (N.of_nat i) k)).
Proof.
  intros a n p pidx Hn Hp Hpi Hcap. induction k as [|k IH]; intros i f acc Hik.
  - cbn [seqN map Nat.add]. rewrite app_nil_r. replace (N.of_nat i) with (bn_len n) by lia.
    now apply bt_exit.
  - cbn [Nat.add]. rewrite bt_run_S, (make_node_ok _ _ Hn). cbn [bind]. rewrite (eff_len_cap n Hcap).
    destruct (N.ltb_spec (N.of_nat i) (bn_len n)); [|lia].
    rewrite kv_slices_ok_true by lia.
    replace (N.of_nat i + 1) with (N.of_nat (S i)) by lia.
    change (S (k + f)) with (S k + f)%nat. rewrite IH by lia.
    cbn [seqN map]. rewrite <- app_assoc. cbn [app].
    replace (N.succ (N.of_nat i)) with (N.of_nat (S i)) by lia. reflexivity.
Qed.

Lemma bt_sub : forall h t p pidx,
  repr heap h t p pidx ->
  forall f acc,
  bt_run (tree_size t + f) heap ks vs (leftmost t) O 0 acc = exit_run f p (S h) pidx (acc ++ flatten t).
Proof.
  induction h as [|h IH]; intros t p pidx Hr f acc; destruct t as [a len | a k0 rest]; cbn [repr] in Hr;
    try contradiction.
  - destruct Hr as (n & Hn & Hp & Hpi & Hlen & Hcap).
    cbn [tree_size leftmost flatten]. change 0 with (N.of_nat 0) at 1 2.
    apply (bt_leaf a n p pidx Hn Hp Hpi Hcap len 0 f acc). lia.
  - destruct Hr as (n & Hn & Ha & Hp & Hpi & Hlen & Hcap & Hkids).
    cbn [tree_size leftmost flatten].
    destruct (Hkids O k0 eq_refl) as [_ Hr0].
    replace (S (tree_size k0 + size_rest tree_size rest) + f)%nat
      with (tree_size k0 + S (size_rest tree_size rest + f))%nat by lia.
    rewrite (IH k0 a (N.of_nat 0) Hr0). unfold exit_run at 1.
    destruct (N.eqb_spec a 0); [contradiction|].
    rewrite app_assoc.
    (* the remaining children, from key index ni on *)
    assert (Hrest : forall suffix ni acc',
      N.of_nat (ni + length suffix) = bn_len n ->
      (forall j k, nth_error suffix j = Some k ->
         nth_error (bn_edges n) (S (ni + j)) = Some (taddr k) /\ repr heap h k a (N.of_nat (S (ni + j)))) ->
      bt_run (S (size_rest tree_size suffix + f)) heap ks vs a (S h) (N.of_nat ni) acc' =
      exit_run f p (S (S h)) pidx (acc' ++ flat_rest flatten a (N.of_nat ni) suffix)).
    { induction suffix as [|k suffix IHs]; intros ni acc' Hni Hsuf.
      - cbn [flat_rest size_rest Nat.add]. rewrite app_nil_r.
        cbn [length] in Hni. replace (N.of_nat ni) with (bn_len n) by lia.
        now apply bt_exit.
      - cbn [length] in Hni. rewrite bt_run_S, (make_node_ok _ _ Hn). cbn [bind]. rewrite (eff_len_cap n Hcap).
        destruct (N.ltb_spec (N.of_nat ni) (bn_len n)); [|lia].
        rewrite kv_slices_ok_true by lia.
        destruct (Hsuf O k eq_refl) as [He Hrk]. rewrite Nat.add_0_r in He, Hrk.
        replace (N.of_nat ni + 1) with (N.of_nat (S ni)) by lia.
        rewrite (edge_ok n (S ni) _) by (try exact He; unfold BTREE_EDGES, BTREE_CAPACITY, BTREE_B in *; lia).
        cbn [bind]. rewrite (first_leaf_repr _ _ _ _ Hrk). cbn [bind size_rest].
        replace (S (tree_size k + size_rest tree_size suffix) + f)%nat
          with (tree_size k + S (size_rest tree_size suffix + f))%nat by lia.
        rewrite (IH k a (N.of_nat (S ni)) Hrk). unfold exit_run at 1.
        destruct (N.eqb_spec a 0); [contradiction|].
        rewrite IHs.
        + cbn [flat_rest]. replace (N.of_nat ni + 1) with (N.of_nat (S ni)) by lia.
          f_equal. rewrite <- !app_assoc. cbn [app]. reflexivity.
        + lia.
        + intros j k' Hj. specialize (Hsuf (S j) k' Hj).
          replace (S (ni + S j)) with (S (S ni + j)) in Hsuf by lia. exact Hsuf. }
    apply (Hrest rest O).
    + cbn [Nat.add]. lia.
    + intros j k Hj. cbn [Nat.add]. apply (Hkids (S j) k). exact Hj.
Qed.

(* B-tree: for a well-formed node heap of any height the iterator yields exactly the in-order
   slot list, with fuel = number of pairs + number of nodes. *)
Theorem bt_iter_exact : forall h t fuel,
  repr heap h t 0 0 -> (tree_size t <= fuel)%nat ->
  bt_collect fuel heap ks vs (taddr t) h = Ok (flatten t).
Proof.
  intros h t fuel Hr Hf. unfold bt_collect. rewrite (first_leaf_repr _ _ _ _ Hr). cbn [bind].
  replace fuel with (tree_size t + (fuel - tree_size t))%nat by lia.
  rewrite (bt_sub _ _ _ _ Hr). reflexivity.
Qed.
End BT.

(* cyclic parent pointer: the `loop` of KVIterator::next never leaves; no recursion, the height
   counter just grows *)
Definition heap_cyc : bheap := [(8, mkNode 8 1 1 (repeat 0 12) [42])].

Lemma bt_cyc_spin : forall fuel h acc, bt_run fuel heap_cyc 8 8 8 h 1 acc = OutOfFuel.
Proof.
  induction fuel as [|f IH]; intros h acc; [reflexivity|].
  transitivity (bt_run f heap_cyc 8 8 8 (S h) 1 acc); [reflexivity | apply IH].
Qed.

Theorem bt_cyclic_parent_out_of_fuel_refuted :
  forall fuel, bt_collect fuel heap_cyc 8 8 8 0 = OutOfFuel.
Proof.
  intros [|f]; [reflexivity|].
  transitivity (bt_run f heap_cyc 8 8 8 0 1 ([] ++ [(8, 0)])); [reflexivity | apply bt_cyc_spin].
Qed.

(* a len field above CAPACITY (memory that is not a node): before the repair the key slice was out of range
   (Panic SITE_BT_SLICE); now the node is read as a full one *)
Theorem bt_len_above_capacity_clamped :
  bt_collect 100 [(8, mkNode 0 0 12 [] [])] 8 8 8 0 = Ok (map (fun i => (8, i)) (seqN 0 11)).
Proof. vm_compute. reflexivity. Qed.



Example bt_example :
  let heap := [(100, mkNode 0 0 2 [200;300;400;0;0;0;0;0;0;0;0;0] [20;40]);
               (200, mkNode 100 0 2 [] [1;2]); (300, mkNode 100 1 1 [] [30]); (400, mkNode 100 2 3 [] [50;60;70])] in
  bt_collect 12 heap 8 8 100 1 = Ok (flatten (TInt 100 (TLeaf 200 2) [TLeaf 300 1; TLeaf 400 3])).
Proof. vm_compute. reflexivity. Qed.

(* ========================================================================================== *)
(* 4. Integers                                                                                 *)
(* ========================================================================================== *)
Lemma le_encode_length : forall w v, length (le_encode w v) = w.
Proof. induction w; intros; cbn [le_encode length]; [reflexivity | now rewrite IHw]. Qed.

Lemma pow8_succ : forall w, 2 ^ (8 * N.of_nat (S w)) = 256 * 2 ^ (8 * N.of_nat w).
Proof.
  intros. replace (8 * N.of_nat (S w)) with (8 + 8 * N.of_nat w) by lia.
  rewrite N.pow_add_r. reflexivity.
Qed.

Lemma le_decode_encode : forall w v, le_decode (le_encode w v) = v mod 2 ^ (8 * N.of_nat w).
Proof.
  induction w; intros v; cbn [le_encode le_decode].
  - change (8 * N.of_nat 0) with 0. rewrite N.pow_0_r, N.mod_1_r. reflexivity.
  - rewrite IHw, pow8_succ. rewrite N.mod_mul_r; [reflexivity | lia | apply N.pow_nonzero; lia].
Qed.

Lemma scalar_unsigned_encode : forall w v rest,
  scalar_unsigned w (le_encode w v ++ rest) = Ok (v mod 2 ^ (8 * N.of_nat w)).
Proof.
  intros w v rest. unfold scalar_unsigned. rewrite app_length, le_encode_length.
  destruct (Nat.ltb_spec (w + length rest) w); [lia|].
  rewrite firstn_app, le_encode_length, Nat.sub_diag. cbn [firstn]. rewrite app_nil_r.
  rewrite firstn_all2 by (rewrite le_encode_length; lia). now rewrite le_decode_encode.
Qed.

(* unsigned integers of every width: decode (to_le_bytes v) = v *)
Theorem int_unsigned_roundtrip : forall w v rest,
  v < 2 ^ (8 * N.of_nat w) -> scalar_unsigned w (to_le_bytes_u w v ++ rest) = Ok v.
Proof.
  intros w v rest Hv. unfold to_le_bytes_u. rewrite scalar_unsigned_encode, N.mod_small by assumption.
  reflexivity.
Qed.

(* signed integers of every width *)
Theorem int_signed_roundtrip : forall w z rest,
  (0 < w)%nat ->
  (- Z.of_N (2 ^ (8 * N.of_nat w - 1)) <= z < Z.of_N (2 ^ (8 * N.of_nat w - 1)))%Z ->
  scalar_signed w (to_le_bytes_s w z ++ rest) = Ok z.
Proof.
  intros w z rest Hw Hz. unfold scalar_signed, to_le_bytes_s. rewrite scalar_unsigned_encode. cbn [bind].
  f_equal. unfold to_signed.
  set (H := 2 ^ (8 * N.of_nat w - 1)) in *.
  assert (HM : 2 ^ (8 * N.of_nat w) = 2 * H).
  { subst H. replace (8 * N.of_nat w) with (N.succ (8 * N.of_nat w - 1)) at 1 by lia.
    now rewrite N.pow_succ_r'. }
  rewrite HM.
  assert (HH : 0 < H) by (subst H; apply N.neq_0_lt_0, N.pow_nonzero; lia).
  destruct (Z.neg_nonneg_cases z) as [Hneg|Hpos].
  - assert (Hm : (z mod Z.of_N (2 * H) = z + Z.of_N (2 * H))%Z).
    { symmetry. apply (Z.mod_unique _ _ (-1)); lia. }
    rewrite Hm. rewrite N.mod_small by lia.
    destruct (N.ltb_spec (Z.to_N (z + Z.of_N (2 * H))) H); lia.
  - assert (Hm : (z mod Z.of_N (2 * H) = z)%Z) by (apply Z.mod_small; lia).
    rewrite Hm. rewrite N.mod_small by lia.
    destruct (N.ltb_spec (Z.to_N z) H); lia.
Qed.

(* the widths parse_scalar dispatches on: 1, 2, 4, 8 and 16 bytes, both signs *)
Theorem parse_int_exact : forall (signed : bool) sz z rest,
  int_width_ok sz = true ->
  (if signed return Prop
   then (- Z.of_N (2 ^ (8 * sz - 1)) <= z < Z.of_N (2 ^ (8 * sz - 1)))%Z
   else (0 <= z < Z.of_N (2 ^ (8 * sz)))%Z) ->
  parse_int signed sz
    ((if signed then to_le_bytes_s (N.to_nat sz) z else to_le_bytes_u (N.to_nat sz) (Z.to_N z)) ++ rest)
  = Ok (SvInt z).
Proof.
  intros signed sz z rest Hw Hz. unfold parse_int.
  assert (Hsz : sz <> 0).
  { intros ->. discriminate Hw. }
  destruct (N.eqb_spec sz 0); [contradiction|]. rewrite Hw.
  destruct signed.
  - rewrite int_signed_roundtrip; [reflexivity | lia | rewrite N2Nat.id; exact Hz].
  - rewrite int_unsigned_roundtrip; [cbn [bind]; do 2 f_equal; lia | rewrite N2Nat.id; lia].
Qed.

Example int_examples :
  parse_int true 2 [254; 255] = Ok (SvInt (-2)) /\
  parse_int false 16 (repeat 255 16) = Ok (SvInt 340282366920938463463374607431768211455) /\
  parse_int true 16 (repeat 0 15 ++ [128]) = Ok (SvInt (-170141183460469231731687303715884105728)).
Proof. repeat split; vm_compute; reflexivity. Qed.

(* ========================================================================================== *)
(* 5. Enum variant selection                                                                   *)
(* ========================================================================================== *)
Lemma okey_eqb_eq : forall a b, okey_eqb a b = true <-> a = b.
Proof.
  intros [x|] [y|]; cbn [okey_eqb]; split; intros H; try discriminate; try reflexivity.
  - apply Z.eqb_eq in H. now subst.
  - inversion H. apply Z.eqb_refl.
Qed.

Lemma hm_get_in : forall k l x, hm_get k l = Some x -> In k (map fst l).
Proof.
  induction l as [|[k' v] t IH]; intros x H; cbn [hm_get] in H; [discriminate|].
  cbn [map fst In]. destruct (hm_get k t) eqn:Ht.
  - right. eapply IH. reflexivity.
  - destruct (okey_eqb k k') eqn:He; [|discriminate]. left. symmetry. now apply okey_eqb_eq.
Qed.

Lemma hm_get_notin : forall k l, ~ In k (map fst l) -> hm_get k l = None.
Proof.
  intros k l H. destruct (hm_get k l) eqn:He; [|reflexivity]. apply hm_get_in in He. contradiction.
Qed.

Definition keys_faithful (signed : bool) (sz : N) (vs : list variant_die) : Prop :=
  Forall (fun v => enum_key signed sz v = option_map wrap_i64 (intended_value signed v)) vs.

Lemma enum_find : forall signed sz tag vs,
  NoDup (map fst (enum_table signed sz vs)) -> keys_faithful signed sz vs ->
  (forall v d, In v vs -> intended_value signed v = Some d -> wrap_i64 d = wrap_i64 tag -> d = tag) ->
  hm_get (Some (wrap_i64 tag)) (enum_table signed sz vs) = spec_find tag (intended_table signed vs) /\
  hm_get None (enum_table signed sz vs) = spec_default (intended_table signed vs).
Proof.
  intros signed sz tag. induction vs as [|v t IH]; intros Hnd Hf Hinj; [split; reflexivity|].
  cbn [enum_table intended_table map fst] in *.
  fold (enum_table signed sz t) in *. fold (intended_table signed t) in *.
  inversion Hnd as [|? ? Hni Hnd']; subst. inversion Hf as [|? ? Hfv Hf']; subst.
  destruct (IH Hnd' Hf' (fun v' d Hin => Hinj v' d (or_intror Hin))) as [IH1 IH2].
  cbn [hm_get spec_find spec_default]. rewrite Hfv in *.
  destruct (intended_value signed v) as [d|] eqn:Hiv; cbn [option_map okey_eqb] in *.
  - split.
    + destruct (Z.eqb_spec d tag) as [->|Hne].
      * rewrite (hm_get_notin _ _ Hni). now rewrite Z.eqb_refl.
      * destruct (Z.eqb_spec (wrap_i64 tag) (wrap_i64 d)) as [He|_].
        { exfalso. apply Hne. apply (Hinj v d); [now left | assumption | now symmetry]. }
        rewrite IH1. now destruct (spec_find tag (intended_table signed t)).
    + rewrite IH2. now destruct (spec_default (intended_table signed t)).
  - split.
    + rewrite IH1. now destruct (spec_find tag (intended_table signed t)).
    + now rewrite (hm_get_notin _ _ Hni).
Qed.

(* selection is right whenever the keys of the table are the intended discriminants; the
   hypotheses are discharged for the current source in enum_select_exact *)
Lemma enum_select_faithful : forall signed sz vs tag,
  NoDup (map fst (enum_table signed sz vs)) -> keys_faithful signed sz vs ->
  (forall v d, In v vs -> intended_value signed v = Some d -> wrap_i64 d = wrap_i64 tag -> d = tag) ->
  select_variant (enum_table signed sz vs) (Some (wrap_i64 tag)) = spec_variant (intended_table signed vs) tag.
Proof.
  intros signed sz vs tag Hnd Hf Hinj. destruct (enum_find signed sz tag vs Hnd Hf Hinj) as [H1 H2].
  unfold select_variant, spec_variant. rewrite H1, H2. reflexivity.
Qed.

(* `as i64` is injective on the range of each integer type of at most 8 bytes *)
Lemma wrap_i64_inj : forall a b,
  ((0 <= a < 2 ^ 64 /\ 0 <= b < 2 ^ 64) \/ (- 2 ^ 63 <= a < 2 ^ 63 /\ - 2 ^ 63 <= b < 2 ^ 63))%Z ->
  wrap_i64 a = wrap_i64 b -> a = b.
Proof.
  intros a b H. unfold wrap_i64.
  destruct (Z.ltb_spec (a mod 2 ^ 64) (2 ^ 63)), (Z.ltb_spec (b mod 2 ^ 64) (2 ^ 63)); lia.
Qed.

Lemma wrap_i64_small : forall z, (- 2 ^ 63 <= z < 2 ^ 63)%Z -> wrap_i64 z = z.
Proof. intros z H. unfold wrap_i64. destruct (Z.ltb_spec (z mod 2 ^ 64) (2 ^ 63)); lia. Qed.

(* the value range of a tag type *)
Definition in_tag_range (signed : bool) (sz : N) (d : Z) : Prop :=
  if signed then (- Z.of_N (2 ^ (8 * sz - 1)) <= d < Z.of_N (2 ^ (8 * sz - 1)))%Z
  else (0 <= d < Z.of_N (2 ^ (8 * sz)))%Z.
Definition in_tag_rangeb (signed : bool) (sz : N) (d : Z) : bool :=
  if signed then (- Z.of_N (2 ^ (8 * sz - 1)) <=? d)%Z && (d <? Z.of_N (2 ^ (8 * sz - 1)))%Z
  else (0 <=? d)%Z && (d <? Z.of_N (2 ^ (8 * sz)))%Z.
Definition tag_size_ok (sz : N) : Prop := sz = 1 \/ sz = 2 \/ sz = 4 \/ sz = 8.

Ltac eval_pows :=
  repeat match goal with
  | |- context [N.pow 2 ?e] => let v := eval vm_compute in (N.pow 2 e) in change (N.pow 2 e) with v
  | H : context [N.pow 2 ?e] |- _ => let v := eval vm_compute in (N.pow 2 e) in change (N.pow 2 e) with v in H
  | |- context [Z.of_N (Npos ?p)] => let v := eval vm_compute in (Z.of_N (Npos p)) in change (Z.of_N (Npos p)) with v
  | H : context [Z.of_N (Npos ?p)] |- _ => let v := eval vm_compute in (Z.of_N (Npos p)) in change (Z.of_N (Npos p)) with v in H
  end.

Lemma in_tag_range_i64 : forall signed sz d,
  tag_size_ok sz -> in_tag_range signed sz d ->
  if signed return Prop then (- 2 ^ 63 <= d < 2 ^ 63)%Z else (0 <= d < 2 ^ 64)%Z.
Proof.
  intros signed sz d Hsz H. unfold in_tag_range in H.
  destruct Hsz as [-> | [-> | [-> | ->]]]; destruct signed; eval_pows; lia.
Qed.

(* discr_value_in_tag_range leaves a value of the tag type alone *)
Lemma discr_in_tag_range_id : forall signed sz d,
  tag_size_ok sz -> in_tag_range signed sz d -> discr_in_tag_range signed sz d = d.
Proof.
  intros signed sz d Hsz H. unfold in_tag_range in H. unfold discr_in_tag_range.
  destruct Hsz as [-> | [-> | [-> | ->]]]; destruct signed;
    match goal with
    | |- context [(?a =? 0) || (8 <=? ?a)] =>
        let v := eval vm_compute in ((a =? 0) || (8 <=? a)) in change ((a =? 0) || (8 <=? a)) with v
    end; cbn iota zeta; try reflexivity;
    unfold to_signed; cbn [N.to_nat Pos.to_nat Pos.iter_op Nat.add]; eval_pows;
    try match goal with |- context [N.ltb ?a ?b] => destruct (N.ltb_spec a b) end; lia.
Qed.

(* the key of a variant in the table built by parse_struct_enum is its discriminant, for every form
   (data1/2/4/8, sdata, udata) and both signednesses of the tag *)
Lemma enum_key_exact : forall signed sz f raw id d,
  tag_size_ok sz ->
  intended_value signed (Some (f, raw), id) = Some d -> in_tag_range signed sz d ->
  enum_key signed sz (Some (f, raw), id) = Some (wrap_i64 d).
Proof.
  intros signed sz f raw id d Hsz Hi Hr. unfold enum_key, intended_value in *. cbn [fst] in *.
  pose proof (in_tag_range_i64 _ _ _ Hsz Hr) as H64.
  destruct signed.
  - (* signed tag: the constant sign-extended by the form *)
    unfold discr_attr_value. rewrite Hi. cbn [option_map].
    rewrite discr_in_tag_range_id by assumption. now rewrite wrap_i64_small.
  - (* unsigned tag: the zero-extended bits *)
    inversion Hi; subst d. cbn iota in H64.
    assert (Hv : discr_attr_value false f raw = Some (wrap_i64 raw)).
    { unfold discr_attr_value, udata_value. destruct f; try reflexivity.
      destruct (Z.ltb_spec raw 0); [lia | reflexivity]. }
    rewrite Hv. cbn [option_map]. f_equal.
    destruct Hsz as [-> | [-> | [-> | ->]]]; try reflexivity;
      (rewrite wrap_i64_small by (unfold in_tag_range in Hr; eval_pows; lia);
       apply discr_in_tag_range_id; [unfold tag_size_ok; tauto | exact Hr]).
Qed.

(* every variant with a DW_AT_discr_value has a discriminant of the tag type *)
Definition variants_in_range (signed : bool) (sz : N) (vs : list variant_die) : Prop :=
  Forall (fun v => match fst v with
                   | None => True
                   | Some _ => exists d, intended_value signed v = Some d /\ in_tag_range signed sz d
                   end) vs.
Definition variants_in_rangeb (signed : bool) (sz : N) (vs : list variant_die) : bool :=
  forallb (fun v => match fst v with
                    | None => true
                    | Some _ => match intended_value signed v with
                                | Some d => in_tag_rangeb signed sz d
                                | None => false
                                end
                    end) vs.

Lemma keys_faithful_holds : forall signed sz vs,
  tag_size_ok sz -> variants_in_range signed sz vs -> keys_faithful signed sz vs.
Proof.
  intros signed sz vs Hsz H. unfold keys_faithful, variants_in_range in *.
  eapply Forall_impl; [|exact H]. intros [[[f raw]|] id] Hv; cbn [fst] in Hv.
  - destruct Hv as (d & Hd & Hr). rewrite Hd. cbn [option_map]. eapply enum_key_exact; eassumption.
  - reflexivity.
Qed.

Lemma intended_in_range : forall signed sz vs v d,
  variants_in_range signed sz vs -> In v vs -> intended_value signed v = Some d -> in_tag_range signed sz d.
Proof.
  intros signed sz vs v d H Hin Hd. unfold variants_in_range in H. rewrite Forall_forall in H.
  specialize (H v Hin). destruct v as [[a|] id]; cbn [fst] in H.
  - destruct H as (d' & Hd' & Hr). rewrite Hd in Hd'. now inversion Hd'.
  - unfold intended_value in Hd. cbn [fst] in Hd. discriminate.
Qed.

Lemma range_inj : forall signed sz a b,
  tag_size_ok sz -> in_tag_range signed sz a -> in_tag_range signed sz b ->
  wrap_i64 a = wrap_i64 b -> a = b.
Proof.
  intros signed sz a b Hsz Ha Hb. apply wrap_i64_inj.
  pose proof (in_tag_range_i64 _ _ _ Hsz Ha). pose proof (in_tag_range_i64 _ _ _ Hsz Hb).
  destruct signed; [right | left]; tauto.
Qed.

Lemma keys_nodup : forall signed sz vs,
  tag_size_ok sz -> variants_in_range signed sz vs ->
  NoDup (map fst (intended_table signed vs)) -> NoDup (map fst (enum_table signed sz vs)).
Proof.
  intros signed sz vs Hsz Hr Hnd.
  pose proof (keys_faithful_holds signed sz vs Hsz Hr) as Hf. unfold keys_faithful in Hf.
  rewrite Forall_forall in Hf.
  unfold enum_table, intended_table in *. rewrite map_map in *. cbn [fst] in *.
  rewrite (map_ext_in _ (fun v => option_map wrap_i64 (intended_value signed v))) by exact Hf.
  rewrite <- (map_map (intended_value signed) (option_map wrap_i64)).
  apply NoDup_map_inj; [|exact Hnd].
  intros x y Hx Hy Hxy. apply in_map_iff in Hx as (vx & <- & Hvx). apply in_map_iff in Hy as (vy & <- & Hvy).
  destruct (intended_value signed vx) as [a|] eqn:Ea, (intended_value signed vy) as [b|] eqn:Eb;
    cbn [option_map] in Hxy; try discriminate; [|reflexivity].
  inversion Hxy as [Hw]. f_equal.
  exact (range_inj signed sz a b Hsz (intended_in_range signed sz vs vx a Hr Hvx Ea)
           (intended_in_range signed sz vs vy b Hr Hvy Eb) Hw).
Qed.

(* Enum variant selection at HEAD (17dfded): for a tag of 1, 2, 4 or 8 bytes of either signedness and
   discriminant constants in ANY form, the variant selected for a tag value is the variant whose
   discriminant equals it, the default (niche / dataful) variant otherwise.  Remaining hypotheses:
   the discriminants are values of the tag type and pairwise different (at most one default). *)
Theorem enum_select_exact : forall signed sz vs tag,
  tag_size_ok sz -> variants_in_range signed sz vs ->
  NoDup (map fst (intended_table signed vs)) -> in_tag_range signed sz tag ->
  select_variant (enum_table signed sz vs) (Some (wrap_i64 tag)) = spec_variant (intended_table signed vs) tag.
Proof.
  intros signed sz vs tag Hsz Hr Hnd Ht. apply enum_select_faithful.
  - now apply keys_nodup.
  - now apply keys_faithful_holds.
  - intros v d Hin Hd. exact (range_inj signed sz d tag Hsz (intended_in_range signed sz vs v d Hr Hin Hd) Ht).
Qed.

(* the tag as the debugger reads it: width and signedness of the tag type *)
Lemma read_discr_exact : forall (signed : bool) sz tag rest,
  tag_size_ok sz -> in_tag_range signed sz tag ->
  read_discr signed sz
    ((if signed then to_le_bytes_s (N.to_nat sz) tag else to_le_bytes_u (N.to_nat sz) (Z.to_N tag)) ++ rest)
  = Ok (Some (wrap_i64 tag)).
Proof.
  intros signed sz tag rest Hsz Ht. unfold read_discr.
  assert (Hw : int_width_ok sz = true) by (destruct Hsz as [-> | [-> | [-> | ->]]]; reflexivity).
  rewrite (parse_int_exact signed sz tag rest Hw).
  - cbn [bind try_as_number]. destruct (N.eqb_spec sz 16); [|reflexivity].
    destruct Hsz as [? | [? | [? | ?]]]; lia.
  - unfold in_tag_range in Ht. destruct signed; exact Ht.
Qed.

Theorem enum_decode_exact : forall (signed : bool) sz vs tag rest,
  tag_size_ok sz -> variants_in_range signed sz vs ->
  NoDup (map fst (intended_table signed vs)) -> in_tag_range signed sz tag ->
  enum_decode signed sz vs
    ((if signed then to_le_bytes_s (N.to_nat sz) tag else to_le_bytes_u (N.to_nat sz) (Z.to_N tag)) ++ rest)
  = Ok (spec_variant (intended_table signed vs) tag).
Proof.
  intros signed sz vs tag rest Hsz Hr Hnd Ht. unfold enum_decode.
  rewrite read_discr_exact by assumption. cbn [bind]. f_equal. now apply enum_select_exact.
Qed.

Lemma variants_in_rangeb_sound : forall signed sz vs,
  variants_in_rangeb signed sz vs = true -> variants_in_range signed sz vs.
Proof.
  intros signed sz vs H. apply Forall_forall. intros v Hv. unfold variants_in_rangeb in H.
  rewrite forallb_forall in H. specialize (H v Hv). destruct (fst v); [|exact I].
  destruct (intended_value signed v) as [d|]; [|discriminate]. exists d. split; [reflexivity|].
  unfold in_tag_rangeb in H. unfold in_tag_range. destruct signed; apply andb_true_iff in H as [H1 H2];
    apply Z.leb_le in H1; apply Z.ltb_lt in H2; lia.
Qed.

(* The three earlier versions of the source, all refuted on concrete DWARF and on the real debugger:
   - enum_unsigned_high_discr_refuted_old (before 163122d): u8 tag, DW_FORM_data1 0xc8, tag byte 200:
     sdata_value gives -56, the default variant (or none) was shown.
   - enum_unsigned_narrow_form_refuted_old (163122d): u16/u32/u64 tag, data1 0x96: -106 reduced to the
     tag width is 65430, never equal to the tag 150.
   - enum_signed_narrow_form_refuted_old (0670875, zero-extension for every tag): i16/i32/i64/isize tag,
     -56 = data1 0xc8 read as 200.
   The same inputs through the current model: *)
Example enum_former_witnesses_fixed :
  enum_decode false 1 [(Some (FData1, 200%Z), 1); (None, 0)] [200] = Ok (Some 1) /\
  enum_decode false 2 [(Some (FData1, 150%Z), 1); (Some (FData1, 5%Z), 0)] [150; 0] = Ok (Some 1) /\
  enum_decode false 4 [(Some (FData2, 40000%Z), 1); (Some (FData4, 70000%Z), 0)] [64; 156; 0; 0] = Ok (Some 1) /\
  enum_decode false 8 [(Some (FData1, 150%Z), 1); (Some (FData1, 5%Z), 0)] [150; 0; 0; 0; 0; 0; 0; 0] = Ok (Some 1) /\
  enum_decode true 2 [(Some (FData1, 200%Z), 1); (Some (FData2, 65236%Z), 2)] [200; 255] = Ok (Some 1) /\
  enum_decode true 2 [(Some (FData1, 200%Z), 1); (Some (FData2, 65236%Z), 2)] [212; 254] = Ok (Some 2) /\
  enum_decode true 8 [(Some (FData1, 200%Z), 1); (Some (FData1, 5%Z), 0)] (200 :: repeat 255 7) = Ok (Some 1) /\
  variants_in_rangeb true 2 [(Some (FData1, 200%Z), 1); (Some (FData2, 65236%Z), 2)] = true.
Proof. repeat split; vm_compute; reflexivity. Qed.

(* a 16-byte tag (u128/i128 discriminant or niche): try_as_number gives None, no variant at all
   (still the case; `let x: Option<u128> = Some(u128::MAX)` shows `Option<u128>(unknown)`) *)
Theorem enum_128bit_tag_refuted :
  exists vs bytes, enum_decode false 16 vs bytes = Ok None /\
                   spec_variant (intended_table false vs) 0 = Some 1.
Proof.
  exists [(Some (FData1, 0%Z), 1); (None, 0)], (repeat 0 16).
  split; vm_compute; reflexivity.
Qed.


(* ------------------------------------------------------------------------------------------ *)
(* since the len clamp: for every heap (any memory contents), sizes, fuel and start handle the B-tree walk never
   reaches the slice panic of Handle::data; the only panic site left is the edges array of a node that claims to
   be internal although its edge words are missing in the model's heap (unreachable with real reads: the array
   is part of the node) *)
Lemma edge_panic_site : forall n i s, edge n i = Panic s -> s = SITE_BT_EDGE.
Proof.
  intros n i s. unfold edge. destruct (i <? BTREE_EDGES); [ destruct (nth_error (bn_edges n) (N.to_nat i)) | ];
    intros H; inversion H; reflexivity.
Qed.

Lemma make_node_no_panic : forall heap p s, make_node heap p <> Panic s.
Proof. intros heap p s. unfold make_node. destruct (alist_get N.eqb heap p); discriminate. Qed.

Lemma first_leaf_panic_site : forall heap h e s, first_leaf heap h e = Panic s -> s = SITE_BT_EDGE.
Proof.
  intros heap h. induction h as [|h IH]; intros e s; cbn [first_leaf];
    destruct (make_node heap e) as [n | c | s0 | ] eqn:Hm; cbn [bind]; try discriminate;
    try (intros H; inversion H; subst; exfalso; eapply make_node_no_panic; eassumption).
  destruct (edge n 0) as [e0 | c | s0 | ] eqn:He; cbn [bind]; try discriminate.
  - apply IH.
  - intros H. inversion H. subst. eapply edge_panic_site. eassumption.
Qed.

Theorem bt_run_panic_site : forall fuel heap ks vs ptr h idx acc s,
  bt_run fuel heap ks vs ptr h idx acc = Panic s -> s = SITE_BT_EDGE.
Proof.
  induction fuel as [|f IH]; intros heap ks vs ptr h idx acc s; [ discriminate | ].
  cbn [bt_run]. destruct (make_node heap ptr) as [n | c | s0 | ] eqn:Hm; cbn [bind]; try discriminate.
  - destruct (N.ltb_spec idx (eff_len n)) as [Hlt | Hge].
    + assert (Hk : kv_slices_ok ks vs idx = true).
      { unfold kv_slices_ok. apply andb_true_iff. unfold eff_len in Hlt.
        split; apply N.leb_le; apply N.mul_le_mono_l; lia. }
      rewrite Hk. destruct h as [|h'].
      * apply IH.
      * destruct (edge n (idx + 1)) as [e | c | s0 | ] eqn:He; cbn [bind]; try discriminate.
        -- destruct (first_leaf heap h' e) as [l | c | s0 | ] eqn:Hl; cbn [bind]; try discriminate.
           ++ apply IH.
           ++ intros H. inversion H. subst. eapply first_leaf_panic_site. eassumption.
        -- intros H. inversion H. subst. eapply edge_panic_site. eassumption.
    + destruct (bn_parent n =? 0); [ discriminate | apply IH ].
  - intros H. inversion H. subst. exfalso. eapply make_node_no_panic. eassumption.
Qed.

Corollary bt_collect_no_slice_panic : forall fuel heap ks vs root h,
  bt_collect fuel heap ks vs root h <> Panic SITE_BT_SLICE.
Proof.
  intros fuel heap ks vs root h H. unfold bt_collect in H.
  destruct (first_leaf heap h root) as [l | c | s0 | ] eqn:Hl; cbn [bind] in H; try discriminate.
  - apply bt_run_panic_site in H. discriminate.
  - inversion H. subst. apply first_leaf_panic_site in Hl. discriminate.
Qed.
