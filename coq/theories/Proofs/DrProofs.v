From BS Require Import Model.Base Gen.Dr Model.Dr Model.Wp Spec.DrArch.
From Coq Require Import Lia.
Open Scope N_scope.

Ltac ground_tb :=
  repeat match goal with
  | |- context [N.testbit N0 ?k] => change (N.testbit N0 k) with false
  | |- context [N.testbit (Npos ?p) ?k] =>
      let b := eval vm_compute in (N.testbit (Npos p) k) in change (N.testbit (Npos p) k) with b
  end.
Ltac bits := cbv - [N.testbit N.setbit N.clearbit]; ground_tb;
  repeat (progress (rewrite ?N.setbit_eqb, ?N.clearbit_eqb; cbv - [N.testbit N.setbit N.clearbit]; ground_tb));
  rewrite ?andb_true_r, ?orb_false_r, ?andb_false_r, ?orb_true_r.
Ltac use_hyps := repeat match goal with H : N.testbit ?d ?k = _ |- context [N.testbit ?d ?k] => rewrite H end.
Ltac split_bits :=
  repeat (match goal with |- context [N.testbit ?d ?k] => is_var d; destruct (N.testbit d k) eqn:? end;
          bits; use_hyps; bits); try reflexivity.

Definition valid_r (r : N) := r = 0 \/ r = 1 \/ r = 2 \/ r = 3.
Definition valid_cond (c : N) := c = COND_DataWrites \/ c = COND_DataReadsWrites.
Definition valid_size (s : N) := s = SIZE_Bytes1 \/ s = SIZE_Bytes2 \/ s = SIZE_Bytes4 \/ s = SIZE_Bytes8.

Ltac regs4 regs :=
  destruct regs as [|?r0 [|?r1 [|?r2 [|?r3 [|? ?]]]]]; try discriminate.
Ltac cases_r H := destruct H as [->|[->|[->| ->]]].
Ltac cases_c H := destruct H as [->| ->].

Lemma enable_view_same regs d6 d7 r a c sz :
  valid_r r -> valid_cond c -> valid_size sz -> length regs = 4%nat ->
  slot_view (mk_hw (set_nth regs (N.to_nat r) a) d6 (set_dr (configure_bp d7 r c sz) r false true)) r = Some (a, c, sz).
Proof.
  intros Hr Hc Hs Hl. regs4 regs. cases_r Hr; cases_c Hc; cases_r Hs.
  all: bits; try reflexivity. all: split_bits.
Qed.

Lemma enable_view_other regs d6 d7 r r' a c sz :
  valid_r r -> valid_r r' -> r <> r' -> valid_cond c -> valid_size sz -> length regs = 4%nat ->
  slot_view (mk_hw (set_nth regs (N.to_nat r) a) d6 (set_dr (configure_bp d7 r c sz) r false true)) r'
  = slot_view (mk_hw regs d6 d7) r'.
Proof.
  intros Hr Hr' Hne Hc Hs Hl. regs4 regs. cases_r Hr; cases_r Hr'; try congruence; cases_c Hc; cases_r Hs.
  all: bits; try reflexivity. all: split_bits.
Qed.

Definition disabled_d7 (d7 r : N) : N := configure_bp (set_dr d7 r false false) r COND_DataWrites SIZE_Bytes1.

Lemma disable_view_same regs d6 d7 r :
  valid_r r -> slot_view (mk_hw (set_nth regs (N.to_nat r) 0) d6 (disabled_d7 d7 r)) r = None.
Proof.
  intros Hr. cases_r Hr. all: unfold disabled_d7; bits; try reflexivity. all: split_bits.
Qed.

Lemma disable_view_other regs d6 d7 r r' :
  valid_r r -> valid_r r' -> r <> r' -> length regs = 4%nat ->
  slot_view (mk_hw (set_nth regs (N.to_nat r) 0) d6 (disabled_d7 d7 r)) r' = slot_view (mk_hw regs d6 d7) r'.
Proof.
  intros Hr Hr' Hne Hl. regs4 regs. cases_r Hr; cases_r Hr'; try congruence.
  all: unfold disabled_d7; bits; try reflexivity. all: split_bits.
Qed.

(* the global-enable bits are never touched *)
Definition gbit (d7 r : N) : bool := N.testbit d7 (2 * r + 1).
Lemma enable_gbit d7 r r' c sz :
  valid_r r -> valid_r r' -> valid_cond c -> valid_size sz ->
  gbit (set_dr (configure_bp d7 r c sz) r false true) r' = gbit d7 r'.
Proof.
  intros Hr Hr' Hc Hs. cases_r Hr; cases_r Hr'; cases_c Hc; cases_r Hs.
  all: unfold gbit; bits; try reflexivity. all: split_bits.
Qed.
Lemma disable_gbit d7 r r' :
  valid_r r -> valid_r r' -> gbit (disabled_d7 d7 r) r' = gbit d7 r'.
Proof.
  intros Hr Hr'. cases_r Hr; cases_r Hr'.
  all: unfold gbit, disabled_d7; bits; try reflexivity. all: split_bits.
Qed.

(* the LE ("exact") bit is set exactly when some local enable bit is *)
Definition le_bit (d7 : N) : bool := N.testbit d7 LOCAL_EXACT_BIT.
Definition any_local (d7 : N) : bool := existsb (fun r => dr_enabled d7 r false) [0; 1; 2; 3].
Lemma enable_le d7 r c sz :
  valid_r r -> valid_cond c -> valid_size sz ->
  le_bit (set_dr (configure_bp d7 r c sz) r false true) = true
  /\ any_local (set_dr (configure_bp d7 r c sz) r false true) = true.
Proof.
  intros Hr Hc Hs. cases_r Hr; cases_c Hc; cases_r Hs.
  all: unfold le_bit, any_local; split; bits; try reflexivity. all: split_bits.
Qed.
Lemma disable_le d7 r :
  valid_r r -> le_bit d7 = any_local d7 ->
  le_bit (disabled_d7 d7 r) = any_local (disabled_d7 d7 r).
Proof.
  intros Hr. cases_r Hr.
  all: unfold le_bit, any_local, disabled_d7; bits; try reflexivity. all: split_bits; try discriminate; auto.
Qed.

Lemma free_register_spec d7 r :
  free_register d7 = Some r -> valid_r r /\ dr_enabled d7 r false = false.
Proof.
  unfold free_register. intros H. apply find_some in H. destruct H as [Hin Hb].
  split; [|apply negb_true_iff in Hb; exact Hb].
  cbn in Hin. unfold valid_r. intuition.
Qed.

Lemma free_register_none d7 :
  free_register d7 = None -> forall r, valid_r r -> dr_enabled d7 r false = true.
Proof.
  unfold free_register. intros H r Hr.
  pose proof (find_none _ _ H r) as Hn. cbv beta in Hn.
  assert (In r [0; 1; 2; 3]) as Hin by (cases_r Hr; cbn; auto).
  apply Hn in Hin. apply negb_false_iff in Hin. exact Hin.
Qed.

(* ---- tie between the debugger's own reading of an image and the CPU's ---- *)
Definition len_dec (s : N) : N := if s =? 0 then 1 else if s =? 1 then 2 else if s =? 3 then 4 else 8.
Definition acc_dec (c : N) : access := if c =? 1 then Write else if c =? 3 then ReadWrite else if c =? 0 then Exec else IO.
Definition hwbp_of (v : N * N * N) : hwbp :=
  let '(a, c, s) := v in {| hb_addr := a; hb_len := len_dec s; hb_access := acc_dec c |}.

Lemma arch_slot_view regs d6 d7 r :
  valid_r r -> gbit d7 r = false ->
  arch_slot regs d7 r = option_map hwbp_of (slot_view (mk_hw regs d6 d7) r).
Proof.
  intros Hr. cases_r Hr.
  all: unfold gbit, arch_slot, slot_view, hwbp_of, len_dec, acc_dec; bits; intros Hg; rewrite Hg.
  all: split_bits.
Qed.

(* the encodings read from the source are the architecture's *)
Lemma encodings_are_arch :
  len_dec SIZE_Bytes1 = 1 /\ len_dec SIZE_Bytes2 = 2 /\ len_dec SIZE_Bytes4 = 4 /\ len_dec SIZE_Bytes8 = 8 /\
  acc_dec COND_DataWrites = Write /\ acc_dec COND_DataReadsWrites = ReadWrite /\
  size_of_len 1 = Some SIZE_Bytes1 /\ size_of_len 2 = Some SIZE_Bytes2 /\
  size_of_len 4 = Some SIZE_Bytes4 /\ size_of_len 8 = Some SIZE_Bytes8.
Proof. vm_compute. repeat split; reflexivity. Qed.

(* DR6: the flag found is the lowest one set, and only that flag is cleared *)
Lemma detect_and_flush_spec d6 :
  d6 < 2 ^ 64 ->
  match detect_and_flush d6 with
  | (Some i, d6') => N.testbit d6 i = true /\ (forall j, j < i -> N.testbit d6 j = false) /\ i < 4
                     /\ forall k, N.testbit d6' k = N.testbit d6 k && negb (k =? i)
  | (None, d6') => d6' = d6 /\ forall j, j < 4 -> N.testbit d6 j = false
  end.
Proof.
  intros Hlt.
  assert (Hbit : forall t i, t = 2 ^ i -> ((N.land d6 t =? t) = N.testbit d6 i)).
  { intros t i ->. apply eq_true_iff_eq. rewrite N.eqb_eq. split.
    - intros H. assert (N.testbit (N.land d6 (2 ^ i)) i = true) as Hx by (rewrite H; apply N.pow2_bits_true).
      rewrite N.land_spec, N.pow2_bits_true, andb_true_r in Hx. exact Hx.
    - intros H. apply N.bits_inj. intros k. rewrite N.land_spec.
      destruct (N.eq_dec i k) as [->|Hne]; [rewrite H, N.pow2_bits_true; reflexivity|].
      rewrite N.pow2_bits_false by exact Hne. apply andb_false_r. }
  assert (Hclr : forall i k, i < 64 -> N.testbit (N.land d6 (N.lnot (2 ^ i) 64)) k = N.testbit d6 k && negb (k =? i)).
  { intros i k Hi. rewrite N.land_spec.
    destruct (N.ltb_spec k 64) as [Hk|Hk].
    - rewrite N.lnot_spec_low by exact Hk.
      destruct (N.eqb_spec k i) as [->|Hne]; [rewrite N.pow2_bits_true; reflexivity|].
      rewrite N.pow2_bits_false by congruence. reflexivity.
    - assert (N.testbit d6 k = false) as ->.
      { destruct (N.eq_dec d6 0) as [->|Hnz]; [apply N.bits_0|].
        apply N.bits_above_log2. apply N.log2_lt_pow2 in Hlt; lia. }
      reflexivity. }
  unfold detect_and_flush, TRAPS. cbn [detect_loop].
  rewrite (Hbit 1 0), (Hbit 2 1), (Hbit 4 2), (Hbit 8 3) by reflexivity.
  destruct (N.testbit d6 0) eqn:E0.
  { split; [exact E0|]. split; [intros j Hj; lia|]. split; [lia|]. intros k. apply (Hclr 0); lia. }
  destruct (N.testbit d6 1) eqn:E1.
  { cbn. split; [exact E1|]. split; [intros j Hj; assert (j = 0) as -> by lia; exact E0|]. split; [lia|]. intros k. apply (Hclr 1); lia. }
  destruct (N.testbit d6 2) eqn:E2.
  { cbn. split; [exact E2|]. split; [intros j Hj; assert (j = 0 \/ j = 1) as [-> | ->] by lia; assumption|]. split; [lia|]. intros k. apply (Hclr 2); lia. }
  destruct (N.testbit d6 3) eqn:E3.
  { cbn. split; [exact E3|]. split; [intros j Hj; assert (j = 0 \/ j = 1 \/ j = 2) as [-> | [-> | ->]] by lia; assumption|]. split; [lia|]. intros k. apply (Hclr 3); lia. }
  split; [reflexivity|]. intros j Hj. assert (j = 0 \/ j = 1 \/ j = 2 \/ j = 3) as [-> | [-> | [-> | ->]]] by lia; assumption.
Qed.
