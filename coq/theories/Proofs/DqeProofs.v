(* Proofs about the DQE model (Dqe.v).  Labels: plain = proved in full, _partial = under a stated
   hypothesis (with a boolean decision procedure), _refuted = the full statement is false of the model,
   with a concrete witness that is a candidate defect of the real debugger (see REPORT.md). *)
From BS Require Import Model.Base.
From BS Require Import Model.Dqe.
From Coq Require Import Lia.
Open Scope N_scope.

(* ================================================================================================ *)
(** * 1. Numeric conversions: exact panic-free domain *)

Theorem conv_num_arg_ok : forall k n, n < num_arg_bound k -> conv_num_arg k n = Ok n.
Proof.
  intros k n H. unfold conv_num_arg, conv_bits.
  destruct (n <? num_arg_bound k) eqn:E; [reflexivity|]. apply N.ltb_ge in E. lia.
Qed.

Theorem conv_num_arg_panics : forall k n, num_arg_bound k <= n -> conv_num_arg k n = Panic (num_arg_site k).
Proof.
  intros k n H. unfold conv_num_arg, conv_bits.
  destruct (n <? num_arg_bound k) eqn:E; [|reflexivity]. apply N.ltb_lt in E. lia.
Qed.

(* full statement "no numeric argument panics" is false; the smallest witness is the bound itself *)
Theorem conv_num_arg_no_panic_refuted : forall k,
  exists n, conv_num_arg k n = Panic (num_arg_site k) /\ n = num_arg_bound k /\
            forall m, m < n -> conv_num_arg k m = Ok m.
Proof.
  intros k. exists (num_arg_bound k). split; [apply conv_num_arg_panics; lia|].
  split; [reflexivity|]. intros m Hm. apply conv_num_arg_ok; exact Hm.
Qed.

Lemma conv_u64_ok : forall s n, n < P64 -> conv_u64 s n = Ok n.
Proof. intros s n H. unfold conv_u64, conv_bits. destruct (n <? P64) eqn:E; [reflexivity|]. apply N.ltb_ge in E. lia. Qed.
Lemma conv_u64_panics : forall s n, P64 <= n -> conv_u64 s n = Panic s.
Proof. intros s n H. unfold conv_u64, conv_bits. destruct (n <? P64) eqn:E; [|reflexivity]. apply N.ltb_lt in E. lia. Qed.

(* a non-negative literal below 2^63 and a negative one above -2^63 mean what they say *)
Theorem int_literal_pos : forall n, n < P63 -> int_literal false n = Ok (Z.of_N n).
Proof.
  intros n H. unfold int_literal. rewrite conv_u64_ok by (unfold P63, P64 in *; lia).
  cbn [bind]. unfold as_i64. destruct (n <? P63) eqn:E; [reflexivity|]. apply N.ltb_ge in E. lia.
Qed.
Theorem int_literal_neg : forall n, n < P63 -> int_literal true n = Ok (- Z.of_N n)%Z.
Proof.
  intros n H. unfold int_literal. rewrite conv_u64_ok by (unfold P63, P64 in *; lia).
  cbn [bind]. unfold as_i64. destruct (n <? P63) eqn:E; [|apply N.ltb_ge in E; lia].
  unfold neg_i64. destruct (Z.of_N n =? - Z.of_N P63)%Z eqn:E2; [|reflexivity].
  apply Z.eqb_eq in E2. unfold P63 in *. lia.
Qed.

(* exact panic domain of the `int` alternative *)
Theorem int_literal_panics_iff : forall neg n,
  is_panic (int_literal neg n) = true <-> (P64 <= n \/ (neg = true /\ n = P63)).
Proof.
  intros neg n. unfold int_literal. destruct (N.lt_ge_cases n P64) as [Hlt|Hge].
  - rewrite conv_u64_ok by exact Hlt. cbn [bind]. destruct neg.
    + unfold neg_i64, as_i64. destruct (n <? P63) eqn:E.
      * apply N.ltb_lt in E. destruct (Z.of_N n =? - Z.of_N P63)%Z eqn:E2.
        { apply Z.eqb_eq in E2. unfold P63 in *. lia. }
        cbn. split; [discriminate|]. intros [H|[_ H]]; unfold P63, P64 in *; lia.
      * apply N.ltb_ge in E. destruct (Z.of_N n - Z.of_N P64 =? - Z.of_N P63)%Z eqn:E2.
        { apply Z.eqb_eq in E2. cbn. split; [intros _|reflexivity]. right. split; [reflexivity|].
          unfold P63, P64 in *. lia. }
        apply Z.eqb_neq in E2. cbn. split; [discriminate|].
        intros [H|[_ H]]; [lia|]. subst n. exfalso. apply E2. reflexivity.
    + cbn. split; [discriminate|]. intros [H|[H _]]; [lia|discriminate].
  - rewrite conv_u64_panics by exact Hge. cbn. split; [intros _; left; exact Hge|reflexivity].
Qed.

(* "the integer typed is the integer meant" fails from 2^63 on: 18446744073709551615 means -1 *)
Theorem int_literal_value_refuted :
  exists n, n < P64 /\ int_literal false n = Ok (-1)%Z /\ Z.of_N n <> (-1)%Z.
Proof. exists 18446744073709551615. split; [reflexivity|]. split; [vm_compute; reflexivity|discriminate]. Qed.

(* i64::MIN cannot be written with a minus sign: smallest |n| on which "-n" panics *)
Theorem int_literal_neg_no_panic_refuted :
  int_literal true P63 = Panic SITE_EXPR_NEG /\ forall n, n < P63 -> is_panic (int_literal true n) = false.
Proof.
  split; [vm_compute; reflexivity|]. intros n H. rewrite int_literal_neg by exact H. reflexivity.
Qed.

(* ================================================================================================ *)
(** * 2. Slices *)

Lemma nth_error_skipn' : forall {A} (l : list A) a i, nth_error (skipn a l) i = nth_error l (a + i)%nat.
Proof.
  induction l as [|x l IH]; intros a i.
  - destruct a; destruct i; reflexivity.
  - destruct a; [reflexivity|]. cbn [skipn]. rewrite IH. reflexivity.
Qed.
Lemma nth_error_firstn' : forall {A} (l : list A) k i, (i < k)%nat -> nth_error (firstn k l) i = nth_error l i.
Proof.
  induction l as [|x l IH]; intros k i H.
  - rewrite firstn_nil. reflexivity.
  - destruct k; [lia|]. destruct i; [reflexivity|]. cbn [firstn nth_error]. apply IH. lia.
Qed.

Lemma slice_core : forall (items : list vtree) l r,
  l <= N.of_nat (length items) -> l <= r ->
  (if r - l <? N.of_nat (length (skipn (N.to_nat l) items))
   then firstn (N.to_nat (r - l)) (skipn (N.to_nat l) items) else skipn (N.to_nat l) items)
  = spec_slice items l r.
Proof.
  intros items l r Hl Hr. unfold spec_slice. rewrite skipn_length.
  destruct (N.of_nat (length items) <=? l) eqn:E.
  - apply N.leb_le in E. assert (l = N.of_nat (length items)) by lia. subst l.
    rewrite Nat2N.id. rewrite skipn_all. rewrite firstn_nil. destruct (_ <? _); reflexivity.
  - apply N.leb_gt in E. destruct (r - l <? N.of_nat (length items - N.to_nat l)) eqn:E2.
    + apply N.ltb_lt in E2. f_equal. lia.
    + apply N.ltb_ge in E2. symmetry. apply firstn_all2. rewrite skipn_length. lia.
Qed.

(* a[l..r] is elements l .. r-1 (clamped at the end) whenever l <= len and l <= r; absent bounds are 0 / len *)
Theorem array_slice_spec : forall items left right,
  let l := match left with Some l => l | None => 0 end in
  let r := match right with Some r => r | None => N.of_nat (length items) end in
  l <= N.of_nat (length items) -> l <= r ->
  array_slice items left right = spec_slice_opt items left right.
Proof.
  intros items left right l r Hl Hr. unfold array_slice, spec_slice_opt. fold l. fold r.
  assert (Hi : match left with
               | Some l0 => if l0 <=? N.of_nat (length items) then Ok (skipn (N.to_nat l0) items) else Panic SITE_DRAIN
               | None => Ok items end = Ok (skipn (N.to_nat l) items)).
  { subst l. destruct left as [l0|]; [|reflexivity].
    destruct (l0 <=? N.of_nat (length items)) eqn:E; [reflexivity|]. apply N.leb_gt in E. lia. }
  rewrite Hi. cbn [bind]. destruct right as [r0|].
  - subst r. destruct (r0 <? l) eqn:E; [apply N.ltb_lt in E; lia|].
    rewrite <- (slice_core items l r0 Hl Hr).
    destruct (r0 - l <? N.of_nat (length (skipn (N.to_nat l) items))); reflexivity.
  - subst r. rewrite <- (slice_core items l _ Hl Hr). rewrite skipn_length.
    destruct (_ <? _) eqn:E; [|reflexivity]. apply N.ltb_lt in E. lia.
Qed.

(* exact panic domain of ArrayValue::slice *)
Theorem array_slice_panics_iff : forall items left right,
  let l := match left with Some l => l | None => 0 end in
  is_panic (array_slice items left right) = true <->
  (N.of_nat (length items) < l \/ exists r, right = Some r /\ r < l).
Proof.
  intros items left right l. unfold array_slice. fold l.
  destruct left as [l0|]; cbn [bind].
  - subst l. destruct (l0 <=? N.of_nat (length items)) eqn:E.
    + apply N.leb_le in E. cbn [bind]. destruct right as [r0|].
      * destruct (r0 <? l0) eqn:E2.
        { apply N.ltb_lt in E2. cbn. split; [intros _; right; eauto|reflexivity]. }
        apply N.ltb_ge in E2. destruct (r0 - l0 <? N.of_nat (length (skipn (N.to_nat l0) items))); cbn; (split; [discriminate|]);
          (intros [H|[r [H1 H2]]]; [lia|injection H1 as H1; lia]).
      * cbn. split; [discriminate|]. intros [H|[r [H1 _]]]; [lia|discriminate].
    + apply N.leb_gt in E. cbn. split; [intros _; left; exact E|reflexivity].
  - subst l. destruct right as [r0|].
    + destruct (r0 <? 0) eqn:E2; [apply N.ltb_lt in E2; lia|].
      destruct (r0 - 0 <? N.of_nat (length items)); cbn;
        (split; [discriminate|]); intros [H|[r [H1 H2]]]; lia.
    + cbn. split; [discriminate|]. intros [H|[r [H1 _]]]; [lia|discriminate].
Qed.

(* "a slice never panics" is false: smallest witnesses, one per site *)
Theorem array_slice_no_panic_refuted :
  (exists items l r, array_slice items (Some l) (Some r) = Panic SITE_DRAIN) /\
  (exists items l r, l <= N.of_nat (length items) /\ array_slice items (Some l) (Some r) = Panic SITE_SLICE_SUB).
Proof.
  split.
  - exists [VScalar no_meta None; VScalar no_meta None; VScalar no_meta None], 5, 2. reflexivity.
  - exists [VScalar no_meta None; VScalar no_meta None; VScalar no_meta None], 2, 1. split; [cbn; lia|reflexivity].
Qed.

Lemma spec_slice_length : forall items l r,
  l <= r -> r <= N.of_nat (length items) -> length (spec_slice items l r) = N.to_nat (r - l).
Proof.
  intros items l r H1 H2. unfold spec_slice. destruct (_ <=? l) eqn:E.
  - apply N.leb_le in E. cbn. lia.
  - apply N.leb_gt in E. rewrite firstn_length, skipn_length. lia.
Qed.

Lemma spec_slice_nth : forall items l r i,
  l <= r -> r <= N.of_nat (length items) -> i < r - l ->
  nth_error (spec_slice items l r) (N.to_nat i) = nth_error items (N.to_nat (l + i)).
Proof.
  intros items l r i H1 H2 H3. unfold spec_slice. destruct (_ <=? l) eqn:E.
  - apply N.leb_le in E. lia.
  - rewrite nth_error_firstn' by lia. rewrite nth_error_skipn'. f_equal. lia.
Qed.

Section WithEnv.
Variable mem : N -> N -> option vtree.
Variable mem_items : N -> N -> N -> option (list vtree).
Variable ty_size : N -> option N.
Variable ptr_type : list token -> option (option N).
Variable float_eq : bool -> N -> list N -> N -> bool.

Notation EVAL := (eval mem mem_items ty_size ptr_type float_eq).
Notation VINDEX := (v_index float_eq).
Notation MATCH := (match_lit float_eq).
Notation VSLICE := (v_slice mem_items ty_size array_slice).

(* a[l..r][i] = a[l+i] on arrays, for l <= r <= len and i < r - l *)
Theorem index_of_slice : forall m items l r i,
  l <= r -> r <= N.of_nat (length items) -> i < r - l ->
  exists v', VSLICE (VArray m (Some items)) (Some l) (Some r) = Ok (Some v') /\
             VINDEX v' (LInt (Z.of_N i)) = VINDEX (VArray m (Some items)) (LInt (Z.of_N (l + i))) /\
             VINDEX v' (LInt (Z.of_N i)) = nth_error items (N.to_nat (l + i)).
Proof.
  intros m items l r i H1 H2 H3. cbn [v_slice].
  rewrite (array_slice_spec items (Some l) (Some r)) by (cbn; lia).
  unfold spec_slice_opt. cbn [bind]. eexists. split; [reflexivity|].
  cbn [v_index]. rewrite spec_slice_length by assumption.
  assert (Ha : ((0 <=? Z.of_N i) && (Z.of_N i <? Z.of_nat (N.to_nat (r - l))))%Z = true).
  { apply andb_true_iff. split; [apply Z.leb_le; lia|apply Z.ltb_lt; lia]. }
  assert (Hb : ((0 <=? Z.of_N (l + i)) && (Z.of_N (l + i) <? Z.of_nat (length items)))%Z = true).
  { apply andb_true_iff. split; [apply Z.leb_le; lia|apply Z.ltb_lt; lia]. }
  rewrite Ha, Hb.
  assert (Hz : forall n, Z.to_nat (Z.of_N n) = N.to_nat n) by (intros; lia).
  rewrite !Hz. rewrite spec_slice_nth by assumption. split; reflexivity.
Qed.

End WithEnv.

(* ================================================================================================ *)
(** * 3. Operators on values *)

Definition field_kind (v : vtree) : bool :=
  match v with VStruct _ _ | VRustEnum _ (Some _) | VMap _ _ _ | VVec _ _ _ => true | _ => false end.
Definition index_kind (v : vtree) : bool :=
  match v with VArray _ (Some _) | VRustEnum _ (Some _) | VVec _ _ _ | VMap _ _ _ | VSet _ _ _ => true | _ => false end.
Definition slice_kind (v : vtree) : bool :=
  match v with VArray _ _ | VPointer _ (Some _) (Some _) | VVec _ _ _ => true | _ => false end.
Definition deref_kind (v : vtree) : bool :=
  match v with VPointer _ (Some _) (Some _) | VRustEnum _ (Some _) => true | _ => false end.

Lemma find_member_sound : forall (ms : members vtree) n v,
  find_member ms n = Some v -> exists n', In (Some n', v) ms /\ bstr_eqb n' n = true.
Proof.
  induction ms as [|[[n'|] x] r IH]; intros n v H; cbn [find_member] in H.
  - discriminate.
  - destruct (bstr_eqb n' n) eqn:E.
    + injection H as H. subst x. exists n'. split; [left; reflexivity|exact E].
    + destruct (IH _ _ H) as [n2 [Hin He]]. exists n2. split; [right; exact Hin|exact He].
  - destruct (IH _ _ H) as [n2 [Hin He]]. exists n2. split; [right; exact Hin|exact He].
Qed.

Section WithEnv2.
Variable mem : N -> N -> option vtree.
Variable mem_items : N -> N -> N -> option (list vtree).
Variable ty_size : N -> option N.
Variable ptr_type : list token -> option (option N).
Variable float_eq : bool -> N -> list N -> N -> bool.

Notation EVAL := (eval mem mem_items ty_size ptr_type float_eq).
Notation SPEC_EVAL := (spec_eval mem mem_items ty_size ptr_type float_eq).
Notation VINDEX := (v_index float_eq).
Notation MATCH := (match_lit float_eq).
Notation VSLICE := (v_slice mem_items ty_size array_slice).
Notation VDEREF := (v_deref mem).

(* an operator applied to a value kind it does not apply to yields no result *)
Theorem field_wrong_kind : forall v n, field_kind v = false -> v_field v n = None.
Proof. intros v n H. destruct v as [| | | |? [[? ?]|]| | | | | | |]; try discriminate H; reflexivity. Qed.
Theorem index_wrong_kind : forall v l, index_kind v = false -> VINDEX v l = None.
Proof. intros v l H. destruct v as [| |? [?|]| |? [[? ?]|]| | | | | | |]; try discriminate H; reflexivity. Qed.
Theorem slice_wrong_kind : forall v a b, slice_kind v = false -> VSLICE v a b = Ok None.
Proof.
  intros v a b H. destruct v as [| | | | |? [?|] [?|]| | | | | |]; try discriminate H; reflexivity.
Qed.
Theorem deref_wrong_kind : forall v, deref_kind v = false -> VDEREF v = None.
Proof.
  intros v H. destruct v as [| | | |? [[? ?]|]|? [?|] [?|]| | | | | |]; try discriminate H; reflexivity.
Qed.

(* what a result is when there is one *)
Theorem struct_field_sound : forall m ms n v,
  v_field (VStruct m ms) n = Some v -> exists n', In (Some n', v) ms /\ bstr_eqb n' n = true.
Proof. intros m ms n v H. exact (find_member_sound ms n v H). Qed.

Theorem array_index_sound : forall m items l v,
  VINDEX (VArray m (Some items)) l = Some v ->
  exists z, l = LInt z /\ (0 <= z < Z.of_nat (length items))%Z /\ nth_error items (Z.to_nat z) = Some v.
Proof.
  intros m items l v H. cbn [v_index] in H. destruct l; try discriminate H.
  destruct ((0 <=? z)%Z && (z <? Z.of_nat (length items))%Z) eqn:E; [|discriminate H].
  apply andb_true_iff in E. destruct E as [E1 E2]. apply Z.leb_le in E1. apply Z.ltb_lt in E2.
  exists z. split; [reflexivity|]. split; [lia|exact H].
Qed.

Theorem array_index_in_range : forall m items i,
  (i < length items)%nat -> VINDEX (VArray m (Some items)) (LInt (Z.of_nat i)) = nth_error items i.
Proof.
  intros m items i H. cbn [v_index].
  assert (E : ((0 <=? Z.of_nat i)%Z && (Z.of_nat i <? Z.of_nat (length items))%Z) = true).
  { apply andb_true_iff. split; [apply Z.leb_le; lia|apply Z.ltb_lt; lia]. }
  rewrite E. rewrite Nat2Z.id. reflexivity.
Qed.

Theorem array_index_out_of_range : forall m items z,
  (z < 0 \/ Z.of_nat (length items) <= z)%Z -> VINDEX (VArray m (Some items)) (LInt z) = None.
Proof.
  intros m items z H. cbn [v_index].
  destruct ((0 <=? z)%Z && (z <? Z.of_nat (length items))%Z) eqn:E; [|reflexivity].
  apply andb_true_iff in E. destruct E as [E1 E2]. apply Z.leb_le in E1. apply Z.ltb_lt in E2. lia.
Qed.

(* a[key] on a map: the value under the FIRST key that matches the literal; None iff no key matches *)
Theorem map_index_spec : forall m kvs o l,
  VINDEX (VMap m kvs o) l = option_map snd (find (fun kv => MATCH (fst kv) l) kvs).
Proof. reflexivity. Qed.

Theorem map_index_some : forall m kvs o l v,
  VINDEX (VMap m kvs o) l = Some v -> exists k, In (k, v) kvs /\ MATCH k l = true.
Proof.
  intros m kvs o l v H. rewrite map_index_spec in H.
  destruct (find _ kvs) as [[k x]|] eqn:E; [|discriminate H]. injection H as H. subst x.
  apply find_some in E. destruct E as [Hin Hm]. exists k. split; [exact Hin|exact Hm].
Qed.

Theorem map_index_none : forall m kvs o l,
  VINDEX (VMap m kvs o) l = None <-> forall k v, In (k, v) kvs -> MATCH k l = false.
Proof.
  intros m kvs o l. rewrite map_index_spec. split.
  - intros H k v Hin. destruct (find _ kvs) as [kv|] eqn:E; [discriminate H|].
    exact (find_none _ _ E (k, v) Hin).
  - intros H. destruct (find _ kvs) as [[k x]|] eqn:E; [|reflexivity].
    apply find_some in E. destruct E as [Hin Hm]. cbn [fst] in Hm. rewrite (H k x Hin) in Hm. discriminate Hm.
Qed.

Theorem map_index_first : forall m pre k v post o l,
  (forall k' v', In (k', v') pre -> MATCH k' l = false) -> MATCH k l = true ->
  VINDEX (VMap m (pre ++ (k, v) :: post) o) l = Some v.
Proof.
  intros m pre k v post o l Hpre Hk. rewrite map_index_spec.
  induction pre as [|[k' v'] pre IH]; cbn [app find fst].
  - rewrite Hk. reflexivity.
  - rewrite (Hpre k' v') by (left; reflexivity). apply IH. intros k2 v2 Hin. apply (Hpre k2 v2). right. exact Hin.
Qed.

(* integer keys are compared as integers *)
Theorem match_int_key : forall m z z', MATCH (VScalar m (Some (SInt z))) (LInt z') = (z =? z')%Z.
Proof. reflexivity. Qed.

(* a[l..r] at the level of expressions *)
Theorem eval_slice_spec : forall e root m items left right,
  let l := match left with Some l => l | None => 0 end in
  let r := match right with Some r => r | None => N.of_nat (length items) end in
  EVAL e root = Ok (Some (VArray m (Some items))) ->
  l <= N.of_nat (length items) -> l <= r ->
  EVAL (Slice e left right) root = Ok (Some (VArray m (Some (spec_slice items l r)))).
Proof.
  intros e root m items left right l r He Hl Hr. unfold eval in *. cbn [eval_gen]. rewrite He.
  cbn [bind v_slice]. rewrite (array_slice_spec items left right Hl Hr). reflexivity.
Qed.

Theorem eval_index_of_slice : forall e root m items l r i,
  EVAL e root = Ok (Some (VArray m (Some items))) ->
  l <= r -> r <= N.of_nat (length items) -> i < r - l ->
  EVAL (Index (Slice e (Some l) (Some r)) (LInt (Z.of_N i))) root = EVAL (Index e (LInt (Z.of_N (l + i)))) root.
Proof.
  intros e root m items l r i He H1 H2 H3.
  destruct (index_of_slice mem_items ty_size float_eq m items l r i H1 H2 H3) as [v' [Hs [Hi _]]].
  unfold eval in *. cbn [eval_gen]. rewrite He. cbn [bind]. rewrite Hs. cbn [bind omap]. rewrite Hi. reflexivity.
Qed.

(* *&x = x provided x has an address and a type and memory at that address, read with that type, holds x *)
Theorem deref_address : forall e root x a t,
  EVAL e root = Ok (Some x) ->
  m_addr (vmeta x) = Some a -> m_ty (vmeta x) = Some t -> mem a t = Some x ->
  EVAL (Deref (Address e)) root = Ok (Some x).
Proof.
  intros e root x a t He Ha Ht Hm. unfold eval in *. cbn [eval_gen]. rewrite He.
  cbn [bind omap]. unfold v_address. rewrite Ha, Ht. cbn [omap v_deref]. rewrite Hm. reflexivity.
Qed.

(* a value without an address has no `&`, hence no `*&` *)
Theorem address_needs_location : forall e root x,
  EVAL e root = Ok (Some x) -> m_addr (vmeta x) = None -> EVAL (Address e) root = Ok None.
Proof.
  intros e root x He Ha. unfold eval in *. cbn [eval_gen]. rewrite He. cbn [bind omap].
  unfold v_address. rewrite Ha. reflexivity.
Qed.

(* (~v).f reads field f of the underlying structure of a specialised value *)
Theorem canonic_field : forall e root m buf orig n,
  EVAL e root = Ok (Some (VVec m buf orig)) ->
  EVAL (Field (Canonic e) (FName n)) root = Ok (find_member orig n).
Proof.
  intros e root m buf orig n He. unfold eval in *. cbn [eval_gen]. rewrite He. reflexivity.
Qed.

End WithEnv2.

(* Without the memory-coherence hypothesis the law fails even when memory is coherent for the variable
   itself: a slice keeps the address and type of the WHOLE array, so `*&arr[1..3]` is all of arr. *)
Definition w_s (z : Z) : vtree := VScalar (mk_meta None (Some 1)) (Some (SInt z)).
Definition w_arr : vtree := VArray (mk_meta (Some 100) (Some 7)) (Some [w_s 10; w_s 11; w_s 12; w_s 13]).
Definition w_mem (a t : N) : option vtree := if (a =? 100) && (t =? 7) then Some w_arr else None.
Definition w_no_items (a t n : N) : option (list vtree) := None.
Definition w_no_size (t : N) : option N := None.
Definition w_no_ptr (ty : list token) : option (option N) := None.
Definition w_no_feq (neg : bool) (ip : N) (fd : list N) (b : N) : bool := false.
Definition w_eval := eval w_mem w_no_items w_no_size w_no_ptr w_no_feq.
Definition w_spec_eval := spec_eval w_mem w_no_items w_no_size w_no_ptr w_no_feq.
Definition w_var : dqe := Var (false, [[97; 114; 114]]).   (* arr *)

Theorem deref_address_refuted :
  exists e x a t,
    w_mem 100 7 = Some w_arr /\ vmeta w_arr = mk_meta (Some 100) (Some 7) /\
    w_eval e w_arr = Ok (Some x) /\ m_addr (vmeta x) = Some a /\ m_ty (vmeta x) = Some t /\
    w_eval (Deref (Address e)) w_arr = Ok (Some w_arr) /\ x <> w_arr.
Proof.
  exists (Slice w_var (Some 1) (Some 3)), (VArray (mk_meta (Some 100) (Some 7)) (Some [w_s 11; w_s 12])), 100, 7.
  repeat split; try (vm_compute; reflexivity). intros H. discriminate H.
Qed.

(* out-of-range slices panic where the documented meaning (clamping) gives an empty result *)
Theorem eval_slice_no_panic_refuted :
  w_eval (Slice w_var (Some 5) (Some 2)) w_arr = Panic SITE_DRAIN /\
  w_eval (Slice w_var (Some 5) None) w_arr = Panic SITE_DRAIN /\
  w_eval (Slice w_var (Some 3) (Some 2)) w_arr = Panic SITE_SLICE_SUB /\
  w_spec_eval (Slice w_var (Some 5) (Some 2)) w_arr = Ok (Some (VArray (mk_meta (Some 100) (Some 7)) (Some []))).
Proof. repeat split; vm_compute; reflexivity. Qed.

(* ================================================================================================ *)
(** * 4. Parsing the canonical text *)

Definition wf_path (p : path) : bool := match snd p with [] => false | _ :: _ => true end.
(* a path in literal position: `true` / `false` are keywords there, and they match as PREFIXES *)
Definition lit_path_ok (p : path) : bool :=
  match p with
  | (_, []) => false
  | (true, _ :: _) => true
  | (false, s :: _) => negb (bool_prefixed s)
  end.

Fixpoint wf_lit (l : lit) : bool :=
  match l with
  | LStr _ => true
  | LInt z => ((- Z.of_N P63 <? z) && (z <? Z.of_N P63))%Z
  | LFloat _ _ fd => float_ok fd
  | LAddr n => n <? P64
  | LBool _ => true
  | LEnum p arg => lit_path_ok p && match arg with Some a => wf_lit a | None => true end
  | LArr items => forallb (fun x => match x with Some l => wf_lit l | None => true end) items
  | LAssoc kvs =>
      match kvs with [] => false | _ :: _ => true end &&
      forallb (fun kv => wf_path (fst kv) && match snd kv with Some l => wf_lit l | None => true end) kvs
  end.

Section LitInd.
Variable P : lit -> Prop.
Definition optP (o : option lit) : Prop := match o with Some a => P a | None => True end.
Hypothesis HStr : forall s, P (LStr s).
Hypothesis HInt : forall z, P (LInt z).
Hypothesis HFloat : forall n i f, P (LFloat n i f).
Hypothesis HAddr : forall n, P (LAddr n).
Hypothesis HBool : forall b, P (LBool b).
Hypothesis HEnum : forall p arg, optP arg -> P (LEnum p arg).
Hypothesis HArr : forall items, Forall optP items -> P (LArr items).
Hypothesis HAssoc : forall kvs, Forall (fun kv : path * option lit => optP (snd kv)) kvs -> P (LAssoc kvs).

Fixpoint lit_ind' (l : lit) : P l :=
  match l with
  | LStr s => HStr s
  | LInt z => HInt z
  | LFloat n i f => HFloat n i f
  | LAddr n => HAddr n
  | LBool b => HBool b
  | LEnum p arg =>
      HEnum p arg (match arg as o return optP o with Some a => lit_ind' a | None => I end)
  | LArr items =>
      HArr items
        ((fix go (xs : list (option lit)) : Forall optP xs :=
            match xs with
            | [] => Forall_nil _
            | x :: r =>
                Forall_cons x (match x as o return optP o with Some l => lit_ind' l | None => I end) (go r)
            end) items)
  | LAssoc kvs =>
      HAssoc kvs
        ((fix go (xs : list (path * option lit)) : Forall (fun kv => optP (snd kv)) xs :=
            match xs with
            | [] => Forall_nil _
            | kv :: r =>
                Forall_cons kv
                  (match snd kv as o return optP o with Some l => lit_ind' l | None => I end) (go r)
            end) kvs)
  end.
End LitInd.

(* printing equations in terms of the top-level helper functions *)
Lemma print_arr_eq : forall items,
  print_lit (LArr items) =
  TLBrace :: match items with [] => [] | x :: r => print_low x ++ print_more r end ++ [TRBrace].
Proof.
  intros [|x r]; reflexivity.
Qed.
Fixpoint pm_kv (xs : list (path * option lit)) : list token :=
  match xs with
  | [] => []
  | (k', y) :: r' => TComma :: print_path k' ++ TColon :: print_low y ++ pm_kv r'
  end.
Lemma print_assoc_eq : forall kvs,
  print_lit (LAssoc kvs) =
  TLBrace :: match kvs with [] => [] | (k, x) :: r => print_path k ++ TColon :: print_low x ++ pm_kv r end ++ [TRBrace].
Proof. intros [|[k x] r]; reflexivity. Qed.
Lemma print_enum_eq : forall p arg,
  print_lit (LEnum p arg) =
  print_path p ++ match arg with Some a => TLParen :: print_lit a ++ [TRParen] | None => [] end.
Proof. intros p [a|]; [reflexivity|]. cbn [print_lit]. rewrite app_nil_r. reflexivity. Qed.

(* paths *)
Definition no_c2 (ts : list token) : bool := match ts with TColon2 :: _ => false | _ => true end.

Lemma path_tail_print : forall segs rest, no_c2 rest = true ->
  path_tail (print_segs segs ++ rest) = (segs, rest).
Proof.
  induction segs as [|s r IH]; intros rest H.
  - cbn [print_segs app]. destruct rest as [|t rest']; [reflexivity|].
    destruct t; try reflexivity. discriminate H.
  - cbn [print_segs app path_tail]. rewrite IH by exact H. reflexivity.
Qed.

Lemma parse_path_print : forall p rest, wf_path p = true -> no_c2 rest = true ->
  parse_path (print_path p ++ rest) = Some (p, rest).
Proof.
  intros [lead [|s segs]] rest Hw Hr; [discriminate Hw|].
  destruct lead; cbn [print_path app parse_path]; rewrite path_tail_print by exact Hr; reflexivity.
Qed.

(* separated lists *)
Definition sep_tail (tl : list token) : Prop := exists r, tl = TComma :: r \/ tl = TRBrace :: r.

Lemma sep_more_ok : forall {A} (item : list token -> res (A * list token)) (pr : A -> list token) xs,
  (forall x tl, In x xs -> sep_tail tl -> item (pr x ++ tl) = Ok (x, tl)) ->
  forall f rest, (length xs < f)%nat ->
  sep_more item f (flat_map (fun x => TComma :: pr x) xs ++ TRBrace :: rest) = Ok (xs, TRBrace :: rest).
Proof.
  intros A item pr xs. induction xs as [|x r IH]; intros Hitem f rest Hf.
  - destruct f; [cbn in Hf; lia|]. reflexivity.
  - destruct f; [cbn in Hf; lia|]. cbn [flat_map app sep_more]. rewrite <- app_assoc.
    rewrite Hitem.
    + rewrite IH; [reflexivity| |cbn [length] in Hf; lia].
      intros y tl Hin Ht. apply Hitem; [right; exact Hin|exact Ht].
    + left. reflexivity.
    + destruct r as [|y r']; [exists rest; right; reflexivity|].
      cbn [flat_map app]. eexists. left. reflexivity.
Qed.

Lemma print_more_flat : forall xs, print_more xs = flat_map (fun x => TComma :: print_low x) xs.
Proof. induction xs as [|x r IH]; [reflexivity|]. cbn [print_more flat_map app]. rewrite IH. reflexivity. Qed.
Lemma pm_kv_flat : forall xs, pm_kv xs = flat_map (fun x => TComma :: print_kv x) xs.
Proof.
  induction xs as [|[k y] r IH]; [reflexivity|]. cbn [pm_kv flat_map app]. rewrite IH.
  unfold print_kv. cbn [fst snd]. rewrite <- app_assoc. reflexivity.
Qed.

Lemma flat_len_in : forall {A} (pr : A -> list token) xs x, In x xs ->
  (length (pr x) < length (flat_map (fun x => TComma :: pr x) xs))%nat.
Proof.
  intros A pr xs. induction xs as [|y r IH]; intros x Hin; [destruct Hin|].
  cbn [flat_map]. rewrite app_length. cbn [length]. destruct Hin as [->|Hin]; [lia|]. specialize (IH x Hin). lia.
Qed.
Lemma flat_len_count : forall {A} (pr : A -> list token) xs,
  (length xs <= length (flat_map (fun x => TComma :: pr x) xs))%nat.
Proof.
  intros A pr xs. induction xs as [|y r IH]; [cbn; lia|]. cbn [flat_map]. rewrite app_length. cbn [length]. lia.
Qed.

Definition lit_tail (ts : list token) : bool :=
  match ts with TColon2 :: _ | TLParen :: _ => false | _ => true end.
Lemma lit_tail_no_c2 : forall ts, lit_tail ts = true -> no_c2 ts = true.
Proof. intros [|t r] H; [reflexivity|]. destruct t; try reflexivity; discriminate H. Qed.
Lemma sep_tail_lit_tail : forall tl, sep_tail tl -> lit_tail tl = true.
Proof. intros tl [r [->| ->]]; reflexivity. Qed.

Lemma list_eqb_prefix : forall a b, list_eqb N.eqb a b = true -> is_prefix N.eqb b a = true.
Proof.
  induction a as [|x a IH]; intros [|y b] H; try discriminate H; [reflexivity|].
  cbn [list_eqb] in H. apply andb_true_iff in H. destruct H as [H1 H2].
  cbn [is_prefix]. rewrite N.eqb_sym, H1. cbn [andb]. apply IH. exact H2.
Qed.

Lemma not_prefixed_not_bool : forall s, bool_prefixed s = false ->
  bstr_eqb s s_true = false /\ bstr_eqb s s_false = false.
Proof.
  intros s H. unfold bool_prefixed in H. apply orb_false_iff in H. destruct H as [H1 H2]. split.
  - destruct (bstr_eqb s s_true) eqn:E; [|reflexivity]. apply list_eqb_prefix in E. rewrite E in H1. discriminate H1.
  - destruct (bstr_eqb s s_false) eqn:E; [|reflexivity]. apply list_eqb_prefix in E. rewrite E in H2. discriminate H2.
Qed.

(* the enum alternative on the canonical text of a path with optional payload *)
Lemma enum_lit_print : forall (pl : lit_parser) p arg rest,
  wf_path p = true -> lit_tail rest = true ->
  match arg with Some a => pl (print_lit a ++ TRParen :: rest) = Ok (a, TRParen :: rest) | None => True end ->
  enum_lit pl (print_lit (LEnum p arg) ++ rest) = Ok (LEnum p arg, rest).
Proof.
  intros pl p arg rest Hw Ht Harg. rewrite print_enum_eq. rewrite <- app_assoc. unfold enum_lit.
  destruct arg as [a|].
  - rewrite parse_path_print; [|exact Hw|reflexivity]. cbn [app]. rewrite <- app_assoc. cbn [app].
    rewrite Harg. reflexivity.
  - cbn [app]. rewrite parse_path_print; [|exact Hw|apply lit_tail_no_c2; exact Ht].
    destruct rest as [|t r]; [reflexivity|]. destruct t; try reflexivity. discriminate Ht.
Qed.

Lemma lit_path_ok_wf : forall p, lit_path_ok p = true -> wf_path p = true.
Proof. intros [[|] [|s r]] H; try discriminate H; reflexivity. Qed.

Lemma low_print : forall (pl : lit_parser) x tl,
  match x with Some l => pl (print_lit l ++ tl) = Ok (l, tl) | None => pl (TStar :: tl) = Err 0 end ->
  low pl (print_low x ++ tl) = Ok (x, tl).
Proof. intros pl [l|] tl H; unfold low; cbn [print_low app]; rewrite H; reflexivity. Qed.

Lemma sep_more_stop : forall {A} (item : list token -> res (A * list token)) f ts,
  match ts with TComma :: _ => False | _ => True end -> sep_more item (S f) ts = Ok ([], ts).
Proof. intros A item f [|t r] H; [reflexivity|]. destruct t; try reflexivity. destruct H. Qed.

(* on `key : ...` the array alternative of `{` fails cleanly, so the assoc alternative is tried *)
Lemma arr_alt_on_key : forall f' k tl, (1 <= f')%nat -> wf_path k = true ->
  exists xs r', sep_list (low (parse_lit f')) f' (print_path k ++ TColon :: tl) = Ok (xs, r') /\
                forall r2, r' <> TRBrace :: r2.
Proof.
  intros f' k tl Hf Hw. destruct f' as [|f'']; [lia|]. destruct k as [lead [|s segs]]; [discriminate Hw|].
  assert (Henum : forall lead0, enum_lit (parse_lit f'') (print_path (lead0, s :: segs) ++ TColon :: tl)
                  = Ok (LEnum (lead0, s :: segs) None, TColon :: tl)).
  { intros lead0. apply (enum_lit_print (parse_lit f'') (lead0, s :: segs) None (TColon :: tl)); [reflexivity|reflexivity|exact I]. }
  destruct lead.
  - specialize (Henum true). cbn [print_path app] in *. unfold sep_list, low. cbn [parse_lit]. rewrite Henum.
    rewrite sep_more_stop by exact I. eexists. eexists. split; [reflexivity|]. intros r2 H. discriminate H.
  - specialize (Henum false). cbn [print_path app] in *. unfold sep_list, low. cbn [parse_lit].
    destruct (bstr_eqb s s_true).
    { rewrite sep_more_stop by (destruct segs; exact I). eexists. eexists. split; [reflexivity|].
      intros r2 H. destruct segs; discriminate H. }
    destruct (bstr_eqb s s_false).
    { rewrite sep_more_stop by (destruct segs; exact I). eexists. eexists. split; [reflexivity|].
      intros r2 H. destruct segs; discriminate H. }
    destruct (bool_prefixed s).
    { eexists. eexists. split; [reflexivity|]. intros r2 H. discriminate H. }
    rewrite Henum. rewrite sep_more_stop by exact I. eexists. eexists. split; [reflexivity|].
    intros r2 H. discriminate H.
Qed.

Lemma first_tail_sep : forall {A} (pr : A -> list token) (r : list A) rest,
  sep_tail (flat_map (fun x => TComma :: pr x) r ++ TRBrace :: rest).
Proof.
  intros A pr [|y r'] rest; [exists rest; right; reflexivity|].
  cbn [flat_map app]. eexists. left. reflexivity.
Qed.

(* the literal grammar reads back the canonical text of every well-formed literal *)
Lemma parse_lit_print : forall l, wf_lit l = true -> forall f rest,
  (length (print_lit l) < f)%nat -> lit_tail rest = true ->
  parse_lit f (print_lit l ++ rest) = Ok (l, rest).
Proof.
  induction l as [s|z|neg ip fd|n|b|p arg IH|items IH|kvs IH] using lit_ind';
    intros Hw f rest Hf Ht; (destruct f as [|f']; [cbn in Hf; lia|]).
  - reflexivity.
  - cbn [wf_lit] in Hw. apply andb_true_iff in Hw. destruct Hw as [H1 H2].
    apply Z.ltb_lt in H1. apply Z.ltb_lt in H2. cbn [print_lit].
    destruct (z <? 0)%Z eqn:E.
    + apply Z.ltb_lt in E. cbn [app parse_lit].
      rewrite int_literal_neg by (unfold P63 in *; lia). cbn [bind]. rewrite Z2N.id by lia.
      rewrite Z.opp_involutive. reflexivity.
    + apply Z.ltb_ge in E. cbn [app parse_lit].
      rewrite int_literal_pos by (unfold P63 in *; lia). cbn [bind]. rewrite Z2N.id by lia. reflexivity.
  - cbn [wf_lit] in Hw. destruct neg; cbn [print_lit app parse_lit]; rewrite Hw; reflexivity.
  - cbn [wf_lit] in Hw. apply N.ltb_lt in Hw. cbn [print_lit app parse_lit].
    rewrite conv_u64_ok by exact Hw. reflexivity.
  - destruct b; reflexivity.
  - cbn [wf_lit] in Hw. apply andb_true_iff in Hw. destruct Hw as [Hp Ha].
    assert (Henum : enum_lit (parse_lit f') (print_lit (LEnum p arg) ++ rest) = Ok (LEnum p arg, rest)).
    { apply enum_lit_print; [apply lit_path_ok_wf; exact Hp|exact Ht|].
      destruct arg as [a|]; [|exact I]. apply IH; [exact Ha| |reflexivity].
      rewrite print_enum_eq in Hf. rewrite !app_length in Hf. cbn [length] in Hf. rewrite app_length in Hf. lia. }
    rewrite print_enum_eq in *. destruct p as [lead [|s segs]]; [destruct lead; discriminate Hp|].
    destruct lead; cbn [print_path app] in *.
    + cbn [parse_lit]. exact Henum.
    + cbn [lit_path_ok] in Hp. apply negb_true_iff in Hp.
      destruct (not_prefixed_not_bool s Hp) as [E1 E2].
      cbn [parse_lit]. rewrite E1, E2, Hp. exact Henum.
  - rewrite print_arr_eq in *. cbn [wf_lit] in Hw.
    pose proof (proj1 (forallb_forall _ _) Hw) as Hw'. clear Hw. rename Hw' into Hw.
    pose proof (proj1 (Forall_forall _ _) IH) as IH'. clear IH. rename IH' into IH. unfold optP in IH.
    cbn [length] in Hf. rewrite app_length in Hf. cbn [length] in Hf.
    assert (Hitem : forall x tl, In x items -> sep_tail tl ->
                    (length (print_low x) < f')%nat ->
                    low (parse_lit f') (print_low x ++ tl) = Ok (x, tl)).
    { intros x tl Hin Hst Hlen. apply low_print. destruct x as [l|].
      - apply (IH (Some l) Hin); [exact (Hw (Some l) Hin)|exact Hlen|apply sep_tail_lit_tail; exact Hst].
      - destruct f' as [|f'']; [cbn in Hlen; lia|reflexivity]. }
    cbn [app parse_lit]. destruct items as [|x r].
    + destruct f' as [|f'']; [cbn in Hf; lia|]. reflexivity.
    + rewrite <- app_assoc. rewrite <- app_assoc. cbn [app]. rewrite print_more_flat in *.
      rewrite app_length in Hf.
      unfold sep_list. rewrite Hitem; [|left; reflexivity|apply first_tail_sep|lia].
      rewrite (sep_more_ok (low (parse_lit f')) print_low r).
      * reflexivity.
      * intros y tl Hin Hst. apply Hitem; [right; exact Hin|exact Hst|].
        pose proof (flat_len_in print_low r y Hin). lia.
      * pose proof (flat_len_count print_low r). lia.
  - destruct kvs as [|[k x] r]; [discriminate Hw|]. rewrite print_assoc_eq in *.
    cbn [wf_lit andb] in Hw.
    pose proof (proj1 (forallb_forall _ _) Hw) as Hw'. clear Hw. rename Hw' into Hw.
    pose proof (proj1 (Forall_forall _ _) IH) as IH'. clear IH. rename IH' into IH. unfold optP in IH.
    cbn [length] in Hf. rewrite app_length in Hf. cbn [length] in Hf.
    assert (Hitem : forall kv tl, In kv ((k, x) :: r) -> sep_tail tl ->
                    (length (print_kv kv) < f')%nat ->
                    kv_item (parse_lit f') (print_kv kv ++ tl) = Ok (kv, tl)).
    { intros [k' y] tl Hin Hst Hlen. specialize (Hw (k', y) Hin). cbn [fst snd] in Hw.
      apply andb_true_iff in Hw. destruct Hw as [Hk Hy].
      unfold kv_item, print_kv. cbn [fst snd]. rewrite <- app_assoc. cbn [app].
      rewrite parse_path_print; [|exact Hk|reflexivity].
      unfold print_kv in Hlen. cbn [fst snd] in Hlen. rewrite app_length in Hlen. cbn [length] in Hlen.
      rewrite low_print; [reflexivity|]. destruct y as [l|].
      - cbn [print_low] in Hlen.
        apply (IH (k', Some l) Hin); [exact Hy|lia|apply sep_tail_lit_tail; exact Hst].
      - destruct f' as [|f'']; [lia|reflexivity]. }
    cbn [app parse_lit]. rewrite <- app_assoc. cbn [app]. rewrite <- app_assoc. cbn [app]. rewrite <- app_assoc.
    assert (Hk : wf_path k = true).
    { specialize (Hw (k, x) (or_introl eq_refl)). cbn [fst] in Hw. apply andb_true_iff in Hw. exact (proj1 Hw). }
    destruct (arr_alt_on_key f' k (print_low x ++ pm_kv r ++ [TRBrace] ++ rest)) as [xs [r' [Ha Hne]]];
      [rewrite !app_length in Hf; cbn [length] in Hf; lia|exact Hk|].
    cbn [app] in Ha. rewrite Ha.
    assert (Halt : forall (o : res (lit * list token)),
              orelse (match r' with TRBrace :: r2 => Ok (LArr xs, r2) | _ => Err 0 end) o = o).
    { intros o. destruct r' as [|t r2]; [reflexivity|]. destruct t; try reflexivity.
      exfalso. exact (Hne r2 eq_refl). }
    rewrite Halt. clear Halt Ha Hne xs r'.
    rewrite pm_kv_flat in *. repeat rewrite app_length in Hf. cbn [length] in Hf.
    repeat rewrite app_length in Hf.
    unfold sep_list.
    change (print_path k ++ TColon :: print_low x ++ flat_map (fun x0 => TComma :: print_kv x0) r ++ TRBrace :: rest)
      with (print_path k ++ TColon :: print_low x ++ (flat_map (fun x0 => TComma :: print_kv x0) r ++ TRBrace :: rest)).
    replace (print_path k ++ TColon :: print_low x ++ (flat_map (fun x0 => TComma :: print_kv x0) r ++ TRBrace :: rest))
      with (print_kv (k, x) ++ (flat_map (fun x0 => TComma :: print_kv x0) r ++ TRBrace :: rest))
      by (unfold print_kv; cbn [fst snd]; rewrite <- app_assoc; reflexivity).
    rewrite Hitem; [|left; reflexivity|apply first_tail_sep|unfold print_kv; cbn [fst snd]; rewrite app_length; cbn [length]; lia].
    rewrite (sep_more_ok (kv_item (parse_lit f')) print_kv r).
    + reflexivity.
    + intros y tl Hin Hst. apply Hitem; [right; exact Hin|exact Hst|].
      pose proof (flat_len_in print_kv r y Hin). lia.
    + pose proof (flat_len_count print_kv r). lia.
Qed.

(* ------------------------------------------------------------------------------------------------ *)
(** ** expressions *)

Definition bound_ok (o : option N) : bool := match o with Some n => n <? P64 | None => true end.

Fixpoint wf_dqe (e : dqe) : bool :=
  match e with
  | Var p => wf_path p
  | PtrCast ty n => match ty with [] => false | _ :: _ => true end && forallb is_ty_tok ty && (n <? P64)
  | Field e1 _ => wf_dqe e1
  | Index e1 l => wf_dqe e1 && wf_lit l
  | Slice e1 a b => wf_dqe e1 && bound_ok a && bound_ok b
  | Deref e1 | Address e1 | Canonic e1 => wf_dqe e1
  end.

Definition stop_ok (ts : list token) : bool :=
  match ts with TDot :: _ | TLBrack :: _ | TColon2 :: _ => false | _ => true end.
Definition op_head (ts : list token) : bool :=
  match ts with TDot :: _ | TLBrack :: _ => true | _ => false end.
Definition hd_not_pre (ts : list token) : bool :=
  match ts with TStar :: _ | TAmp :: _ | TTilde :: _ => false | _ => true end.
Definition tail_ok (e : dqe) (ts : list token) : bool := if is_pre e then stop_ok ts else no_c2 ts.

Lemma stop_ok_no_c2 : forall ts, stop_ok ts = true -> no_c2 ts = true.
Proof. intros [|t r] H; [reflexivity|]. destruct t; try reflexivity; discriminate H. Qed.
Lemma op_head_no_c2 : forall ts, op_head ts = true -> no_c2 ts = true.
Proof. intros [|t r] H; [reflexivity|]. destruct t; try reflexivity; discriminate H. Qed.

Lemma post_stop : forall f e ts, stop_ok ts = true -> parse_post (S f) e ts = Ok (e, ts).
Proof. intros f e [|t r] H; [reflexivity|]. destruct t; try reflexivity; discriminate H. Qed.

Lemma parse_expr_nonprefix : forall f0 ts, hd_not_pre ts = true ->
  parse_expr (S f0) ts = (ar <- parse_atom (parse_expr f0) ts ;; parse_post f0 (fst ar) (snd ar)).
Proof. intros f0 [|t r] H; [reflexivity|]. destruct t; try reflexivity; discriminate H. Qed.

Lemma print_path_ty : forall p, forallb is_ty_tok (print_path p) = true.
Proof.
  intros [lead [|s segs]]; [reflexivity|].
  assert (H : forallb is_ty_tok (print_segs segs) = true) by (induction segs; [reflexivity|exact IHsegs]).
  destruct lead; cbn [print_path app forallb is_ty_tok andb]; exact H.
Qed.

Lemma ty_span_all : forall l x r, forallb is_ty_tok l = true -> is_ty_tok x = false ->
  ty_span (l ++ x :: r) = (l, x :: r).
Proof.
  induction l as [|t l IH]; intros x r Hl Hx.
  - cbn [app ty_span]. rewrite Hx. reflexivity.
  - cbn [forallb] in Hl. apply andb_true_iff in Hl. destruct Hl as [Ht Hl].
    cbn [app ty_span]. rewrite Ht. rewrite IH by assumption. reflexivity.
Qed.

(* the tokens of an expression are either all type characters or stop being so at a token other than ")" *)
Definition span_shape (ts : list token) : Prop :=
  forallb is_ty_tok ts = true \/
  exists pre x post, ts = pre ++ x :: post /\ forallb is_ty_tok pre = true /\ is_ty_tok x = false /\ x <> TRParen.

Lemma span_shape_app : forall ts x post, span_shape ts -> is_ty_tok x = false -> x <> TRParen ->
  span_shape (ts ++ x :: post).
Proof.
  intros ts x post [Hall|[pre [y [post' [-> [Hp [Hy Hne]]]]]]] Hx Hn; right.
  - exists ts, x, post. repeat split; assumption.
  - exists pre, y, (post' ++ x :: post). rewrite <- app_assoc. repeat split; assumption.
Qed.
Lemma span_shape_cons : forall t ts, is_ty_tok t = true -> span_shape ts -> span_shape (t :: ts).
Proof.
  intros t ts Ht [Hall|[pre [y [post' [-> [Hp [Hy Hne]]]]]]].
  - left. cbn [forallb]. rewrite Ht, Hall. reflexivity.
  - right. exists (t :: pre), y, post'. repeat split; try assumption. cbn [forallb]. rewrite Ht, Hp. reflexivity.
Qed.
Lemma span_shape_stop : forall x post, is_ty_tok x = false -> x <> TRParen -> span_shape (x :: post).
Proof. intros x post Hx Hn. right. exists [], x, post. repeat split; assumption. Qed.

Lemma span_shape_post : forall e1, span_shape (print e1) -> span_shape (print_post e1).
Proof.
  intros e1 H. unfold print_post. destruct (is_pre e1); [|exact H].
  apply span_shape_stop; [reflexivity|discriminate].
Qed.

Lemma print_field_eq : forall e1 f, print (Field e1 f) = print_post e1 ++ [TDot; print_fname f].
Proof. reflexivity. Qed.
Lemma print_index_eq : forall e1 l, print (Index e1 l) = print_post e1 ++ TLBrack :: print_lit l ++ [TRBrack].
Proof. reflexivity. Qed.
Lemma print_slice_eq : forall e1 a b,
  print (Slice e1 a b) = print_post e1 ++ TLBrack :: print_bound a ++ TDotDot :: print_bound b ++ [TRBrack].
Proof. reflexivity. Qed.

Lemma print_span_shape : forall e, span_shape (print e).
Proof.
  induction e as [p|ty n|e1 IH f|e1 IH l|e1 IH a b|e1 IH|e1 IH|e1 IH].
  - left. apply print_path_ty.
  - apply span_shape_stop; [reflexivity|discriminate].
  - rewrite print_field_eq. apply span_shape_app; [apply span_shape_post; exact IH|reflexivity|discriminate].
  - rewrite print_index_eq. apply span_shape_app; [apply span_shape_post; exact IH|reflexivity|discriminate].
  - rewrite print_slice_eq. apply span_shape_app; [apply span_shape_post; exact IH|reflexivity|discriminate].
  - cbn [print]. apply span_shape_cons; [reflexivity|exact IH].
  - cbn [print]. apply span_shape_cons; [reflexivity|exact IH].
  - cbn [print]. apply span_shape_stop; [reflexivity|discriminate].
Qed.

(* "(" e ")" followed by a postfix operator is never mistaken for a pointer cast *)
Lemma ptr_cast_paren_fails : forall e X, op_head X = true -> ptr_cast (print e ++ TRParen :: X) = Err 0.
Proof.
  intros e X HX. unfold ptr_cast. destruct (print_span_shape e) as [Hall|[pre [x [post [Heq [Hp [Hx Hne]]]]]]].
  - rewrite ty_span_all by (try exact Hall; reflexivity).
    destruct X as [|t r]; [discriminate HX|]. destruct t; try discriminate HX; destruct (print e); reflexivity.
  - rewrite Heq. rewrite <- app_assoc. cbn [app]. rewrite ty_span_all by assumption.
    destruct pre; destruct x; try reflexivity; exfalso; apply Hne; reflexivity.
Qed.

Lemma int_literal_false_ok : forall n, n < P64 -> int_literal false n = Ok (as_i64 n).
Proof. intros n H. unfold int_literal. rewrite conv_u64_ok by exact H. reflexivity. Qed.

Lemma print_nonempty : forall e, wf_dqe e = true -> (1 <= length (print e))%nat.
Proof.
  intros e H. destruct e as [[lead [|s segs]]| | | | | | |]; try (cbn [print length]; lia).
  - discriminate H.
  - destruct lead; cbn; lia.
  - rewrite print_field_eq, app_length. cbn. lia.
  - rewrite print_index_eq, app_length. cbn. lia.
  - rewrite print_slice_eq, app_length. cbn. lia.
Qed.

Lemma index_op_slice_some : forall f3 n r, n < P64 ->
  index_op (parse_lit (S f3)) (TInt n :: TDotDot :: r) = Err 0.
Proof. intros f3 n r H. unfold index_op. cbn [parse_lit]. rewrite int_literal_false_ok by exact H. reflexivity. Qed.
Lemma index_op_slice_none : forall f3 r, index_op (parse_lit (S f3)) (TDotDot :: r) = Err 0.
Proof. reflexivity. Qed.

Definition expr_stmt (e : dqe) : Prop :=
  wf_dqe e = true -> forall f ts', (length (print e) < f)%nat -> tail_ok e ts' = true ->
  exists f', (f <= f' + length (print e))%nat /\ (1 <= f')%nat /\
             parse_expr f (print e ++ ts') = parse_post f' e ts'.

(* the base of a postfix operator: an atom / postfix chain as is, a prefix expression in parentheses *)
Lemma post_base : forall e1, expr_stmt e1 -> wf_dqe e1 = true -> forall f X,
  (length (print_post e1) < f)%nat -> op_head X = true ->
  exists f1, (f <= f1 + length (print_post e1))%nat /\ (1 <= f1)%nat /\
             parse_expr f (print_post e1 ++ X) = parse_post f1 e1 X.
Proof.
  intros e1 IH Hw f X Hf HX. unfold print_post in *. destruct (is_pre e1) eqn:Epre.
  - destruct f as [|f0]; [lia|]. cbn [length] in Hf. rewrite app_length in Hf. cbn [length] in Hf.
    cbn [app]. rewrite <- app_assoc. cbn [app].
    rewrite parse_expr_nonprefix by reflexivity. unfold parse_atom. cbn [parse_path].
    rewrite ptr_cast_paren_fails by exact HX. cbn [orelse].
    destruct (IH Hw f0 (TRParen :: X)) as [f1 [H1 [H2 H3]]]; [lia|unfold tail_ok; rewrite Epre; reflexivity|].
    rewrite H3. destruct f1 as [|f1']; [lia|]. rewrite post_stop by reflexivity. cbn [bind fst snd].
    exists f0. split; [cbn [length]; rewrite app_length; cbn [length]; lia|]. split; [|reflexivity].
    pose proof (print_nonempty e1 Hw). lia.
  - apply (IH Hw f X Hf). unfold tail_ok. rewrite Epre. apply op_head_no_c2. exact HX.
Qed.

Lemma parse_print_expr : forall e, expr_stmt e.
Proof.
  induction e as [p|ty n|e1 IH fn|e1 IH l|e1 IH a b|e1 IH|e1 IH|e1 IH]; intros Hw f ts' Hf Ht.
  - (* Var *)
    destruct f as [|f0]; [lia|]. cbn [wf_dqe] in Hw. cbn [print] in *.
    assert (Hh : hd_not_pre (print_path p ++ ts') = true).
    { destruct p as [lead [|s segs]]; [discriminate Hw|]. destruct lead; reflexivity. }
    rewrite parse_expr_nonprefix by exact Hh. unfold parse_atom.
    rewrite parse_path_print by (try exact Hw; exact Ht). cbn [bind fst snd].
    exists f0. split; [|split; [|reflexivity]].
    + assert (1 <= length (print_path p))%nat; [|lia].
      destruct p as [lead [|s segs]]; [discriminate Hw|]. destruct lead; cbn; lia.
    + assert (1 <= length (print_path p))%nat; [|lia].
      destruct p as [lead [|s segs]]; [discriminate Hw|]. destruct lead; cbn; lia.
  - (* PtrCast *)
    destruct f as [|f0]; [lia|]. cbn [wf_dqe] in Hw. apply andb_true_iff in Hw. destruct Hw as [Hw Hn].
    apply andb_true_iff in Hw. destruct Hw as [Hne Hty]. apply N.ltb_lt in Hn.
    cbn [print] in *. cbn [app]. rewrite <- app_assoc. cbn [app].
    rewrite parse_expr_nonprefix by reflexivity. unfold parse_atom. cbn [parse_path]. unfold ptr_cast.
    rewrite ty_span_all by (try exact Hty; reflexivity).
    destruct ty as [|t ty']; [discriminate Hne|]. rewrite conv_u64_ok by exact Hn. cbn [bind orelse fst snd].
    exists f0. cbn [length] in *. rewrite app_length in *. cbn [length] in *. split; [lia|]. split; [lia|reflexivity].
  - (* Field *)
    cbn [wf_dqe] in Hw. rewrite print_field_eq in *. rewrite <- app_assoc. cbn [app].
    rewrite app_length in Hf. cbn [length] in Hf.
    destruct (post_base e1 IH Hw f (TDot :: print_fname fn :: ts')) as [f1 [H1 [H2 H3]]]; [lia|reflexivity|].
    rewrite H3. destruct f1 as [|f2]; [lia|].
    exists f2. rewrite app_length. cbn [length]. split; [lia|]. split; [lia|]. destruct fn; reflexivity.
  - (* Index *)
    cbn [wf_dqe] in Hw. apply andb_true_iff in Hw. destruct Hw as [Hw Hl].
    rewrite print_index_eq in *. rewrite <- app_assoc. cbn [app]. rewrite <- app_assoc. cbn [app].
    rewrite app_length in Hf. cbn [length] in Hf. rewrite app_length in Hf. cbn [length] in Hf.
    destruct (post_base e1 IH Hw f (TLBrack :: print_lit l ++ TRBrack :: ts')) as [f1 [H1 [H2 H3]]]; [lia|reflexivity|].
    rewrite H3. destruct f1 as [|f2]; [lia|]. cbn [parse_post]. unfold index_op.
    rewrite parse_lit_print; [|exact Hl|lia|reflexivity].
    exists f2. rewrite app_length. cbn [length]. rewrite app_length. cbn [length].
    split; [lia|]. split; [lia|reflexivity].
  - (* Slice *)
    cbn [wf_dqe] in Hw. apply andb_true_iff in Hw. destruct Hw as [Hw Hb].
    apply andb_true_iff in Hw. destruct Hw as [Hw Ha].
    rewrite print_slice_eq in *. rewrite <- app_assoc. cbn [app]. rewrite <- app_assoc. cbn [app].
    rewrite <- app_assoc. cbn [app].
    repeat (rewrite app_length in Hf; cbn [length] in Hf).
    destruct (post_base e1 IH Hw f (TLBrack :: print_bound a ++ TDotDot :: print_bound b ++ TRBrack :: ts'))
      as [f1 [H1 [H2 H3]]]; [lia|reflexivity|].
    rewrite H3. destruct f1 as [|f2]; [lia|].
    destruct a as [na|]; destruct b as [nb|]; cbn [bound_ok] in Ha, Hb;
      try apply N.ltb_lt in Ha; try apply N.ltb_lt in Hb;
      cbn [print_bound app parse_post length] in *;
      (destruct f2 as [|f3]; [lia|]);
      exists (S f3); (split; [repeat (rewrite app_length; cbn [length]); lia|]); (split; [lia|]);
      rewrite ?index_op_slice_some by assumption; rewrite ?index_op_slice_none;
      unfold slice_op, mb_usize; cbn [bind fst snd];
      repeat (rewrite conv_u64_ok by assumption; cbn [bind fst snd]); reflexivity.
  - (* Deref *)
    destruct f as [|f0]; [lia|]. cbn [wf_dqe] in Hw. cbn [print length] in *. cbn [app parse_expr].
    unfold tail_ok in Ht. cbn [is_pre] in Ht.
    destruct (IH Hw f0 ts') as [f1 [H1 [H2 H3]]];
      [lia|unfold tail_ok; destruct (is_pre e1); [exact Ht|apply stop_ok_no_c2; exact Ht]|].
    rewrite H3. destruct f1 as [|f1']; [lia|]. rewrite post_stop by exact Ht. cbn [bind fst snd].
    exists (S f0). split; [lia|]. split; [lia|]. rewrite post_stop by exact Ht. reflexivity.
  - (* Address *)
    destruct f as [|f0]; [lia|]. cbn [wf_dqe] in Hw. cbn [print length] in *. cbn [app parse_expr].
    unfold tail_ok in Ht. cbn [is_pre] in Ht.
    destruct (IH Hw f0 ts') as [f1 [H1 [H2 H3]]];
      [lia|unfold tail_ok; destruct (is_pre e1); [exact Ht|apply stop_ok_no_c2; exact Ht]|].
    rewrite H3. destruct f1 as [|f1']; [lia|]. rewrite post_stop by exact Ht. cbn [bind fst snd].
    exists (S f0). split; [lia|]. split; [lia|]. rewrite post_stop by exact Ht. reflexivity.
  - (* Canonic *)
    destruct f as [|f0]; [lia|]. cbn [wf_dqe] in Hw. cbn [print length] in *. cbn [app parse_expr].
    unfold tail_ok in Ht. cbn [is_pre] in Ht.
    destruct (IH Hw f0 ts') as [f1 [H1 [H2 H3]]];
      [lia|unfold tail_ok; destruct (is_pre e1); [exact Ht|apply stop_ok_no_c2; exact Ht]|].
    rewrite H3. destruct f1 as [|f1']; [lia|]. rewrite post_stop by exact Ht. cbn [bind fst snd].
    exists (S f0). split; [lia|]. split; [lia|]. rewrite post_stop by exact Ht. reflexivity.
Qed.

(* HEADLINE: the canonical text of every well-formed expression parses back to that expression *)
Theorem parse_print : forall e, wf_dqe e = true -> parse (print e) = Ok e.
Proof.
  intros e Hw. unfold parse.
  destruct (parse_print_expr e Hw (S (length (print e))) []) as [f' [H1 [H2 H3]]];
    [lia|unfold tail_ok; destruct (is_pre e); reflexivity|].
  rewrite app_nil_r in H3. rewrite H3. destruct f' as [|f'']; [lia|]. rewrite post_stop by reflexivity. reflexivity.
Qed.

Corollary parse_opt_print : forall e, wf_dqe e = true -> parse_opt (print e) = Some e.
Proof. intros e Hw. unfold parse_opt. rewrite parse_print by exact Hw. reflexivity. Qed.

(* printing is injective on well-formed expressions: the text determines the expression *)
Corollary print_injective : forall e1 e2, wf_dqe e1 = true -> wf_dqe e2 = true -> print e1 = print e2 -> e1 = e2.
Proof.
  intros e1 e2 H1 H2 H. pose proof (parse_print e1 H1) as P1. rewrite H in P1.
  rewrite (parse_print e2 H2) in P1. injection P1 as P1. symmetry. exact P1.
Qed.

(* ------------------------------------------------------------------------------------------------ *)
(** ** what lies outside [wf_dqe]: every clause of well-formedness is needed *)

Definition w_a : dqe := Var (false, [[109]]).                        (* m *)
Definition s_trueish : bstr := [116; 114; 117; 101; 105; 115; 104].  (* trueish *)

(* The full statement "forall e, parse (print e) = Ok e" is false.  All four witnesses are values the
   Rust `Dqe` type can hold (an enum variant named `trueish`, the f64 1.05, i64::MIN, an empty HashMap). *)
Theorem parse_print_unrestricted_refuted :
  let e1 := Index w_a (LEnum (false, [s_trueish]) None) in
  let e2 := Index w_a (LFloat false 1 [0; 5]) in
  let e3 := Index w_a (LInt (- 9223372036854775808)) in
  let e4 := Index w_a (LAssoc []) in
  parse (print e1) = Err 0 /\ parse (print e2) = Err 0 /\
  parse (print e3) = Panic SITE_EXPR_NEG /\ parse (print e4) = Ok (Index w_a (LArr [])).
Proof. repeat split; vm_compute; reflexivity. Qed.

(* Rust's own `Display for Literal` is not an inverse of the literal grammar *)
Theorem literal_display_reparse_refuted :
  let l1 := LAssoc [((false, [[107]]), Some (LInt 1))] in     (* prints { "k": 1 } *)
  let l2 := LFloat false 1 [0] in                              (* 1.0 prints 1 *)
  wf_lit l1 = true /\ parse_literal (display_lit l1) = Err 0 /\
  wf_lit l2 = true /\ parse_literal (display_lit l2) = Ok (LInt 1).
Proof. repeat split; vm_compute; reflexivity. Qed.

(* whereas the canonical text of a well-formed literal is *)
Theorem parse_literal_print : forall l, wf_lit l = true -> parse_literal (print_lit l) = Ok l.
Proof.
  intros l Hw. unfold parse_literal.
  pose proof (parse_lit_print l Hw (S (length (print_lit l))) []) as H. rewrite app_nil_r in H.
  rewrite H; [reflexivity|lia|reflexivity].
Qed.

(* precedence: postfix operators bind tighter than prefix operators *)
Definition w_id (c : N) : token := TId [c].
Definition w_v (c : N) : dqe := Var (false, [[c]]).
Example prec_deref_field :   (* text: star a . b *)
  parse [TStar; w_id 97; TDot; w_id 98] = Ok (Deref (Field (w_v 97) (FName [98]))).
Proof. vm_compute. reflexivity. Qed.
Example prec_deref_index :   (* text: star a [ 1 ] *)
  parse [TStar; w_id 97; TLBrack; TInt 1; TRBrack] = Ok (Deref (Index (w_v 97) (LInt 1))).
Proof. vm_compute. reflexivity. Qed.
Example prec_paren :         (* text: ( star a ) . b *)
  parse [TLParen; TStar; w_id 97; TRParen; TDot; w_id 98] = Ok (Field (Deref (w_v 97)) (FName [98])).
Proof. vm_compute. reflexivity. Qed.
Example prec_addr_slice :    (* text: & a . b [ 1 .. 2 ] *)
  parse [TAmp; w_id 97; TDot; w_id 98; TLBrack; TInt 1; TDotDot; TInt 2; TRBrack]
  = Ok (Address (Slice (Field (w_v 97) (FName [98])) (Some 1) (Some 2))).
Proof. vm_compute. reflexivity. Qed.
Example prec_canonic_deref : (* text: ~ star a *)
  parse [TTilde; TStar; w_id 97] = Ok (Canonic (Deref (w_v 97))).
Proof. vm_compute. reflexivity. Qed.
Example paren_then_hex_is_cast :   (* (a)0x10 is a pointer cast, not a parenthesised variable *)
  parse [TLParen; w_id 97; TRParen; THex 16] = Ok (PtrCast [w_id 97] 16).
Proof. vm_compute. reflexivity. Qed.

(* "no input panics the parser" is false: one smallest witness per unwrap *)
Theorem parse_no_panic_refuted :
  parse [w_id 120; TLBrack; TInt P64; TRBrack] = Panic SITE_EXPR_INT /\            (* x[18446744073709551616] *)
  parse [w_id 120; TLBrack; TMinus; TInt P63; TRBrack] = Panic SITE_EXPR_NEG /\    (* x[-9223372036854775808] *)
  parse [w_id 120; TLBrack; TDotDot; TInt P64; TRBrack] = Panic SITE_EXPR_USIZE /\ (* x[..18446744073709551616] *)
  parse [w_id 120; TLBrack; THex P64; TRBrack] = Panic SITE_HEX /\                 (* x[0x10000000000000000] *)
  parse [TLParen; w_id 120; TRParen; THex P64] = Panic SITE_HEX.                   (* (x)0x10000000000000000 *)
Proof. repeat split; vm_compute; reflexivity. Qed.

(* ================================================================================================ *)
(** * 5. The parser never panics on inputs whose numbers are in range (for ALL token lists) *)

Definition tok_small (t : token) : bool :=
  match t with TInt n => n <? P63 | THex n => n <? P64 | _ => true end.
Definition small (ts : list token) : bool := forallb tok_small ts.

Definition safeP {A} (r : res (A * list token)) : Prop :=
  match r with Ok (_, rest) => small rest = true | Panic _ => False | _ => True end.

Lemma small_cons : forall t r, small (t :: r) = true -> tok_small t = true /\ small r = true.
Proof. intros t r H. apply andb_true_iff in H. exact H. Qed.

Lemma path_tail_small_n : forall n ts, (length ts <= n)%nat -> small ts = true -> small (snd (path_tail ts)) = true.
Proof.
  induction n as [|n IH]; intros ts Hl Hs.
  - destruct ts; [reflexivity|cbn in Hl; lia].
  - destruct ts as [|t r]; [reflexivity|]. destruct t; try exact Hs.
    destruct r as [|t2 r2]; [exact Hs|]. destruct t2; try exact Hs.
    cbn [path_tail]. destruct (path_tail r2) as [segs r'] eqn:E. cbn [snd].
    apply small_cons in Hs. destruct Hs as [_ Hs]. apply small_cons in Hs. destruct Hs as [_ Hs].
    specialize (IH r2). rewrite E in IH. apply IH; [cbn [length] in Hl; lia|exact Hs].
Qed.
Lemma path_tail_small : forall ts, small ts = true -> small (snd (path_tail ts)) = true.
Proof. intros ts. apply (path_tail_small_n (length ts)). lia. Qed.

Lemma parse_path_small : forall ts p r, parse_path ts = Some (p, r) -> small ts = true -> small r = true.
Proof.
  intros ts p r H Hs. destruct ts as [|t ts1]; [discriminate H|]. destruct t; try discriminate H.
  - cbn [parse_path] in H. apply small_cons in Hs. destruct Hs as [_ Hs].
    pose proof (path_tail_small ts1 Hs) as Hp. destruct (path_tail ts1) as [segs r'].
    injection H as _ H. subst r'. exact Hp.
  - destruct ts1 as [|t2 ts2]; [discriminate H|]. destruct t2; try discriminate H.
    cbn [parse_path] in H. apply small_cons in Hs. destruct Hs as [_ Hs]. apply small_cons in Hs. destruct Hs as [_ Hs].
    pose proof (path_tail_small ts2 Hs) as Hp. destruct (path_tail ts2) as [segs r'].
    injection H as _ H. subst r'. exact Hp.
Qed.

Section SepSafe.
Context {A : Type}.
Variable item : list token -> res (A * list token).
Hypothesis item_safe : forall ts, small ts = true -> safeP (item ts).

Lemma sep_more_safe : forall f ts, small ts = true -> safeP (sep_more item f ts).
Proof.
  induction f as [|f IH]; intros ts Hs; [exact I|].
  destruct ts as [|t r]; [exact Hs|]. destruct t; try exact Hs.
  cbn [sep_more]. apply small_cons in Hs. destruct Hs as [Ht Hr].
  pose proof (item_safe r Hr) as Hi. destruct (item r) as [[x r1]| | |]; cbn [safeP] in Hi.
  - pose proof (IH r1 Hi) as Hm. destruct (sep_more item f r1) as [[xs r2]| | |]; exact Hm.
  - change (tok_small TComma && small r = true). rewrite Hr. reflexivity.
  - destruct Hi.
  - exact I.
Qed.

Lemma sep_list_safe : forall f ts, small ts = true -> safeP (sep_list item f ts).
Proof.
  intros f ts Hs. unfold sep_list. pose proof (item_safe ts Hs) as Hi.
  destruct (item ts) as [[x r]| | |]; cbn [safeP] in Hi.
  - pose proof (sep_more_safe f r Hi) as Hm. destruct (sep_more item f r) as [[xs r']| | |]; exact Hm.
  - exact Hs.
  - destruct Hi.
  - exact I.
Qed.
End SepSafe.

Lemma low_safe : forall (pl : lit_parser), (forall ts, small ts = true -> safeP (pl ts)) ->
  forall ts, small ts = true -> safeP (low pl ts).
Proof.
  intros pl Hpl ts Hs. unfold low. pose proof (Hpl ts Hs) as H.
  destruct (pl ts) as [[l r]| | |]; try exact H.
  destruct ts as [|t r]; [exact I|]. destruct t; try exact I. apply small_cons in Hs. exact (proj2 Hs).
Qed.

Lemma kv_item_safe : forall (pl : lit_parser), (forall ts, small ts = true -> safeP (pl ts)) ->
  forall ts, small ts = true -> safeP (kv_item pl ts).
Proof.
  intros pl Hpl ts Hs. unfold kv_item. destruct (parse_path ts) as [[k r]|] eqn:E; [|exact I].
  pose proof (parse_path_small ts k r E Hs) as Hr. destruct r as [|t r1]; [exact I|]. destruct t; try exact I.
  apply small_cons in Hr. destruct Hr as [_ Hr].
  pose proof (low_safe pl Hpl r1 Hr) as H. destruct (low pl r1) as [[v r']| | |]; exact H.
Qed.

Lemma enum_lit_safe : forall (pl : lit_parser), (forall ts, small ts = true -> safeP (pl ts)) ->
  forall ts, small ts = true -> safeP (enum_lit pl ts).
Proof.
  intros pl Hpl ts Hs. unfold enum_lit. destruct (parse_path ts) as [[p r]|] eqn:E; [|exact I].
  pose proof (parse_path_small ts p r E Hs) as Hr. destruct r as [|t r1]; [exact Hr|].
  destruct t; try exact Hr. pose proof Hr as Hr'. apply small_cons in Hr'. destruct Hr' as [_ Hr1].
  pose proof (Hpl r1 Hr1) as H. destruct (pl r1) as [[a r2]| | |]; cbn [safeP] in H; try exact Hr; try exact H.
  destruct r2 as [|t2 r3]; [exact Hr|]. destruct t2; try exact Hr. apply small_cons in H. exact (proj2 H).
Qed.

Lemma parse_lit_safe : forall f ts, small ts = true -> safeP (parse_lit f ts).
Proof.
  induction f as [|f IH]; intros ts Hs; [exact I|].
  destruct ts as [|t r]; [exact I|]. pose proof Hs as Hs0. apply small_cons in Hs. destruct Hs as [Ht Hr].
  destruct t; cbn [parse_lit]; try exact I.
  - (* TId *)
    destruct (bstr_eqb s s_true); [exact Hr|]. destruct (bstr_eqb s s_false); [exact Hr|].
    destruct (bool_prefixed s); [exact I|]. apply enum_lit_safe; [exact IH|exact Hs0].
  - (* TInt *)
    cbn [tok_small] in Ht. apply N.ltb_lt in Ht. rewrite int_literal_pos by exact Ht. exact Hr.
  - (* THex *)
    cbn [tok_small] in Ht. apply N.ltb_lt in Ht. rewrite conv_u64_ok by exact Ht. exact Hr.
  - (* TFloat *)
    destruct (float_ok fd); [exact Hr|exact I].
  - (* TStr *) exact Hr.
  - (* TMinus *)
    destruct r as [|t2 r2]; [exact I|]. apply small_cons in Hr. destruct Hr as [Ht2 Hr2].
    destruct t2; try exact I.
    + cbn [tok_small] in Ht2. apply N.ltb_lt in Ht2. rewrite int_literal_neg by exact Ht2. exact Hr2.
    + destruct (float_ok fd); [exact Hr2|exact I].
  - (* TColon2 *) apply enum_lit_safe; [exact IH|exact Hs0].
  - (* TLBrace *)
    pose proof (sep_list_safe (low (parse_lit f)) (low_safe _ IH) f r Hr) as H1.
    pose proof (sep_list_safe (kv_item (parse_lit f)) (kv_item_safe _ IH) f r Hr) as H2.
    destruct (sep_list (low (parse_lit f)) f r) as [[items r1]| | |]; cbn [safeP] in H1.
    + destruct r1 as [|t1 r2]; cbn [orelse].
      * destruct (sep_list (kv_item (parse_lit f)) f r) as [[kvs r3]| | |]; cbn [safeP] in H2; try exact H2.
        destruct r3 as [|t3 r4]; [exact I|]. destruct t3; try exact I. apply small_cons in H2. exact (proj2 H2).
      * destruct t1; cbn [orelse];
          try (destruct (sep_list (kv_item (parse_lit f)) f r) as [[kvs r3]| | |]; cbn [safeP] in H2; try exact H2;
               destruct r3 as [|t3 r4]; [exact I|]; destruct t3; try exact I; apply small_cons in H2; exact (proj2 H2)).
        apply small_cons in H1. exact (proj2 H1).
    + cbn [orelse]. destruct (sep_list (kv_item (parse_lit f)) f r) as [[kvs r3]| | |]; cbn [safeP] in H2; try exact H2.
      destruct r3 as [|t3 r4]; [exact I|]. destruct t3; try exact I. apply small_cons in H2. exact (proj2 H2).
    + destruct H1.
    + exact I.
Qed.

Lemma ty_span_small : forall ts, small ts = true -> small (snd (ty_span ts)) = true.
Proof.
  induction ts as [|t r IH]; intros Hs; [reflexivity|]. cbn [ty_span]. destruct (is_ty_tok t); [|exact Hs].
  apply small_cons in Hs. destruct Hs as [_ Hr]. specialize (IH Hr). destruct (ty_span r) as [a b]. exact IH.
Qed.

Lemma ptr_cast_safe : forall ts, small ts = true -> safeP (ptr_cast ts).
Proof.
  intros ts Hs. unfold ptr_cast. pose proof (ty_span_small ts Hs) as H. destruct (ty_span ts) as [ty r]. cbn [snd] in H.
  destruct ty as [|t0 ty']; [exact I|]. destruct r as [|t r1]; [exact I|]. destruct t; try exact I.
  destruct r1 as [|t2 r2]; [exact I|]. destruct t2; try exact I.
  apply small_cons in H. destruct H as [_ H]. apply small_cons in H. destruct H as [Hn H].
  cbn [tok_small] in Hn. apply N.ltb_lt in Hn. rewrite conv_u64_ok by exact Hn. exact H.
Qed.

Lemma index_op_safe : forall f ts, small ts = true -> safeP (index_op (parse_lit f) ts).
Proof.
  intros f ts Hs. unfold index_op. pose proof (parse_lit_safe f ts Hs) as H.
  destruct (parse_lit f ts) as [[l r]| | |]; try exact H. cbn [safeP] in H.
  destruct r as [|t r1]; [exact I|]. destruct t; try exact I. apply small_cons in H. exact (proj2 H).
Qed.

Lemma mb_usize_safe : forall ts, small ts = true -> exists o r, mb_usize ts = Ok (o, r) /\ small r = true.
Proof.
  intros ts Hs. destruct ts as [|t r]; [eexists; eexists; split; [reflexivity|exact Hs]|].
  destruct t; try (eexists; eexists; split; [reflexivity|exact Hs]).
  apply small_cons in Hs. destruct Hs as [Hn Hr]. cbn [tok_small] in Hn. apply N.ltb_lt in Hn.
  cbn [mb_usize]. rewrite conv_u64_ok by (unfold P63, P64 in *; lia). eexists. eexists. split; [reflexivity|exact Hr].
Qed.

Lemma slice_op_safe : forall ts, small ts = true -> safeP (slice_op ts).
Proof.
  intros ts Hs. unfold slice_op. destruct (mb_usize_safe ts Hs) as [a [r1 [E1 H1]]]. rewrite E1. cbn [bind snd fst].
  destruct r1 as [|t r2]; [exact I|]. destruct t; try exact I. apply small_cons in H1. destruct H1 as [_ H2].
  destruct (mb_usize_safe r2 H2) as [b [r3 [E2 H3]]]. rewrite E2. cbn [bind snd fst].
  destruct r3 as [|t r4]; [exact I|]. destruct t; try exact I. apply small_cons in H3. exact (proj2 H3).
Qed.

Lemma parse_post_safe : forall f e ts, small ts = true -> safeP (parse_post f e ts).
Proof.
  induction f as [|f IH]; intros e ts Hs; [exact I|].
  destruct ts as [|t r]; [exact Hs|]. pose proof Hs as Hs0. apply small_cons in Hs. destruct Hs as [_ Hr].
  destruct t; try exact Hs0.
  - (* TDot *)
    destruct r as [|t2 r2]; [exact Hs0|]. pose proof Hr as Hr0. apply small_cons in Hr. destruct Hr as [_ Hr2].
    destruct t2; try exact Hs0; cbn [parse_post]; apply IH; exact Hr2.
  - (* TLBrack *)
    cbn [parse_post]. pose proof (index_op_safe f r Hr) as Hi.
    destruct (index_op (parse_lit f) r) as [[l r']| | |]; cbn [safeP] in Hi.
    + apply IH. exact Hi.
    + pose proof (slice_op_safe r Hr) as Hsl. destruct (slice_op r) as [[[a b] r']| | |]; cbn [safeP] in Hsl.
      * apply IH. exact Hsl.
      * exact Hs0.
      * destruct Hsl.
      * exact I.
    + destruct Hi.
    + exact I.
Qed.

Lemma parse_atom_safe : forall (pe : expr_parser), (forall ts, small ts = true -> safeP (pe ts)) ->
  forall ts, small ts = true -> safeP (parse_atom pe ts).
Proof.
  intros pe Hpe ts Hs. unfold parse_atom. destruct (parse_path ts) as [[p r]|] eqn:E.
  - exact (parse_path_small ts p r E Hs).
  - destruct ts as [|t r]; [exact I|]. destruct t; try exact I. apply small_cons in Hs. destruct Hs as [_ Hr].
    pose proof (ptr_cast_safe r Hr) as Hc. destruct (ptr_cast r) as [[e r']| | |]; cbn [orelse]; try exact Hc.
    pose proof (Hpe r Hr) as H. destruct (pe r) as [[e r']| | |]; try exact H. cbn [safeP] in H.
    destruct r' as [|t r2]; [exact I|]. destruct t; try exact I. apply small_cons in H. exact (proj2 H).
Qed.

Lemma parse_expr_safe : forall f ts, small ts = true -> safeP (parse_expr f ts).
Proof.
  induction f as [|f IH]; intros ts Hs; [exact I|].
  assert (Hatom : safeP (ar <- parse_atom (parse_expr f) ts ;; parse_post f (fst ar) (snd ar))).
  { pose proof (parse_atom_safe (parse_expr f) IH ts Hs) as Ha.
    destruct (parse_atom (parse_expr f) ts) as [[a r]| | |]; try exact Ha. cbn [bind fst snd]. apply parse_post_safe. exact Ha. }
  destruct ts as [|t r]; [exact Hatom|]. destruct t; try exact Hatom;
    cbn [parse_expr]; apply small_cons in Hs; destruct Hs as [_ Hr]; pose proof (IH r Hr) as H;
    destruct (parse_expr f r) as [[e r']| | |]; exact H.
Qed.

(* HEADLINE (C08, parser part): on any token list whose integers are below 2^63 and whose hex numbers are
   below 2^64, the DQE parser returns an expression or a rejection - it never panics. *)
Theorem parse_no_panic : forall ts, small ts = true -> is_panic (parse ts) = false.
Proof.
  intros ts Hs. unfold parse. pose proof (parse_expr_safe (S (length ts)) ts Hs) as H.
  destruct (parse_expr (S (length ts)) ts) as [[e r]| | |]; try reflexivity; [destruct r; reflexivity|destruct H].
Qed.

(* ================================================================================================ *)
(** * 6. Evaluation panics only through the slice operator *)

Fixpoint has_slice (e : dqe) : bool :=
  match e with
  | Var _ | PtrCast _ _ => false
  | Slice _ _ _ => true
  | Field e1 _ | Index e1 _ | Deref e1 | Address e1 | Canonic e1 => has_slice e1
  end.

Theorem eval_no_slice_no_panic : forall mem mem_items ty_size ptr_type float_eq e root,
  has_slice e = false -> is_panic (eval mem mem_items ty_size ptr_type float_eq e root) = false.
Proof.
  intros mem mem_items ty_size ptr_type float_eq e root. unfold eval.
  induction e as [p|ty n|e1 IH fn|e1 IH l|e1 IH a b|e1 IH|e1 IH|e1 IH]; intros H; cbn [eval_gen has_slice] in *;
    try discriminate H; try reflexivity;
    try (specialize (IH H); destruct (eval_gen _ _ _ _ _ _ e1 root); try discriminate IH; reflexivity).
  destruct (ptr_type ty); reflexivity.
Qed.
