(* Proofs about the breakpoint machine: memory = image (+) patches at every prompt, the executed
   instruction stream is the native trace, continue reports exactly the projection of the trace on
   the user's breakpoints, clean memory after remove / detach / quit, restart keeps breakpoints;
   refutation witnesses for the paths where the faithful model violates the properties. *)
From BS Require Import Model.Base.
From BS Require Import Model.BpMachine.
From Coq Require Import Lia.
Open Scope N_scope.

Section Proofs.
Variable code : mem.
Variable tr : list N.
Variable rbrk off : N.
Variable has_place : N -> bool.
Variable exit_code : Z.

Notation peek := (peek).
Notation cpu_step := (cpu_step code tr).
Notation run_cpu := (run_cpu code tr).
Notation single_step := (single_step code tr).
Notation pc_at := (pc_at tr).

(* ---------- words ---------- *)
Definition readable (m : mem) (a : N) : Prop := forall o, In o word_offsets -> m (a + o) <> None.

Lemma read_bytes_word : forall m a w,
  read_bytes m a word_offsets = Some w ->
  exists b0 b1 b2 b3 b4 b5 b6 b7, w = [b0;b1;b2;b3;b4;b5;b6;b7] /\
    m a = Some b0 /\ m (a+1) = Some b1 /\ m (a+2) = Some b2 /\ m (a+3) = Some b3 /\
    m (a+4) = Some b4 /\ m (a+5) = Some b5 /\ m (a+6) = Some b6 /\ m (a+7) = Some b7.
Proof.
  intros m a w H. unfold word_offsets in H. cbn [read_bytes] in H.
  replace (a + 0) with a in H by lia.
  destruct (m a) as [b0|] eqn:E0; [|discriminate].
  destruct (m (a+1)) as [b1|] eqn:E1; [|discriminate].
  destruct (m (a+2)) as [b2|] eqn:E2; [|discriminate].
  destruct (m (a+3)) as [b3|] eqn:E3; [|discriminate].
  destruct (m (a+4)) as [b4|] eqn:E4; [|discriminate].
  destruct (m (a+5)) as [b5|] eqn:E5; [|discriminate].
  destruct (m (a+6)) as [b6|] eqn:E6; [|discriminate].
  destruct (m (a+7)) as [b7|] eqn:E7; [|discriminate].
  inversion H. exists b0,b1,b2,b3,b4,b5,b6,b7. repeat split; reflexivity.
Qed.

Lemma read_bytes_some : forall m a, readable m a -> exists w, read_bytes m a word_offsets = Some w.
Proof.
  intros m a R. unfold word_offsets. cbn [read_bytes].
  assert (H: forall o, In o word_offsets -> exists b, m (a+o) = Some b).
  { intros o Ho. specialize (R o Ho). destruct (m (a+o)); [eauto|congruence]. }
  destruct (H 0) as [b0 E0]; [cbn; tauto|]. destruct (H 1) as [b1 E1]; [cbn; tauto|].
  destruct (H 2) as [b2 E2]; [cbn; tauto|]. destruct (H 3) as [b3 E3]; [cbn; tauto|].
  destruct (H 4) as [b4 E4]; [cbn; tauto|]. destruct (H 5) as [b5 E5]; [cbn; tauto|].
  destruct (H 6) as [b6 E6]; [cbn; tauto|]. destruct (H 7) as [b7 E7]; [cbn; tauto|].
  rewrite E0, E1, E2, E3, E4, E5, E6, E7. eauto.
Qed.

(* writing back a word whose upper seven bytes were just read changes the low byte only *)
Lemma write_low_byte : forall m a lo hi c x,
  read_bytes m a word_offsets = Some (lo :: hi) ->
  write_bytes m a (c :: hi) x = if x =? a then Some c else m x.
Proof.
  intros m a lo hi c x H.
  destruct (read_bytes_word _ _ _ H) as (b0&b1&b2&b3&b4&b5&b6&b7&Hw&E0&E1&E2&E3&E4&E5&E6&E7).
  inversion Hw; subst lo hi. unfold write_bytes. cbn [length].
  destruct (x =? a) eqn:Exa.
  - apply N.eqb_eq in Exa. subst x.
    replace ((a <=? a) && (a <? a + N.of_nat 8))%bool with true
      by (symmetry; apply andb_true_iff; split; [apply N.leb_le|apply N.ltb_lt]; lia).
    replace (a - a) with 0 by lia. reflexivity.
  - apply N.eqb_neq in Exa.
    destruct ((a <=? x) && (x <? a + N.of_nat 8))%bool eqn:Er; [|reflexivity].
    apply andb_true_iff in Er. destruct Er as [E1' E2'].
    apply N.leb_le in E1'. apply N.ltb_lt in E2'.
    assert (Hc: x = a+1 \/ x = a+2 \/ x = a+3 \/ x = a+4 \/ x = a+5 \/ x = a+6 \/ x = a+7) by lia.
    destruct Hc as [Hc|[Hc|[Hc|[Hc|[Hc|[Hc|Hc]]]]]]; subst x.
    + replace (a+1-a) with 1 by lia. cbn. now rewrite E1.
    + replace (a+2-a) with 2 by lia. cbn. now rewrite E2.
    + replace (a+3-a) with 3 by lia. cbn. now rewrite E3.
    + replace (a+4-a) with 4 by lia. cbn. now rewrite E4.
    + replace (a+5-a) with 5 by lia. cbn. now rewrite E5.
    + replace (a+6-a) with 6 by lia. cbn. now rewrite E6.
    + replace (a+7-a) with 7 by lia. cbn. now rewrite E7.
Qed.

(* ---------- enable / disable ---------- *)
Definition same_but_mem (p p' : proc) : Prop :=
  p_alive p' = p_alive p /\ p_pos p' = p_pos p /\ p_pc p' = p_pc p /\ p_exec p' = p_exec p.

Lemma bp_enable_ok : forall p b, p_alive p = true -> readable (p_mem p) (b_addr b) ->
  exists p' lo, bp_enable p b = Ok (p', bp_set b lo true) /\ p_mem p (b_addr b) = Some lo /\
    same_but_mem p p' /\ (forall x, p_mem p' x = if x =? b_addr b then Some INT3 else p_mem p x).
Proof.
  intros p b Ha R. destruct (read_bytes_some _ _ R) as [w Hw].
  destruct (read_bytes_word _ _ _ Hw) as (b0&b1&b2&b3&b4&b5&b6&b7&Hw'&E0&_).
  unfold bp_enable, BpMachine.peek. rewrite Ha, Hw. cbn [bind]. subst w.
  unfold poke. rewrite Ha, Hw. cbn [bind].
  eexists. exists b0. split; [reflexivity|]. split; [exact E0|]. split.
  - unfold same_but_mem, set_mem; cbn. tauto.
  - intro x. unfold set_mem; cbn [p_mem]. eapply write_low_byte. exact Hw.
Qed.

Lemma bp_disable_ok : forall p b, p_alive p = true -> readable (p_mem p) (b_addr b) ->
  exists p', bp_disable p b = Ok (p', bp_set b (b_saved b) false) /\
    same_but_mem p p' /\ (forall x, p_mem p' x = if x =? b_addr b then Some (b_saved b) else p_mem p x).
Proof.
  intros p b Ha R. destruct (read_bytes_some _ _ R) as [w Hw].
  destruct (read_bytes_word _ _ _ Hw) as (b0&b1&b2&b3&b4&b5&b6&b7&Hw'&E0&_).
  unfold bp_disable, BpMachine.peek. rewrite Ha, Hw. cbn [bind]. subst w.
  unfold poke. rewrite Ha, Hw. cbn [bind].
  eexists. split; [reflexivity|]. split.
  - unfold same_but_mem, set_mem; cbn. tauto.
  - intro x. unfold set_mem; cbn [p_mem]. eapply write_low_byte. exact Hw.
Qed.

Lemma bp_disable_dead : forall p b, p_alive p = false -> bp_disable p b = Err ESRCH.
Proof. intros. unfold bp_disable, BpMachine.peek. rewrite H. reflexivity. Qed.

(* ---------- well-formed registry + memory ---------- *)
Definition addrs (bps : list bp) : list N := map b_addr bps.

Record WF (bps : list bp) (m : mem) : Prop := mk_WF {
  wf_nodup : NoDup (addrs bps);
  wf_bp : forall b, In b bps -> b_en b = true /\ code (b_addr b) = Some (b_saved b) /\ readable code (b_addr b);
  wf_mem : forall x, m x = if patched bps x then Some INT3 else code x
}.

Lemma find_bp_some : forall a bps b, find_bp a bps = Some b -> In b bps /\ b_addr b = a.
Proof.
  intros a bps b H. unfold find_bp in H. apply find_some in H. destruct H as [H1 H2].
  apply N.eqb_eq in H2. tauto.
Qed.

Lemma find_bp_none : forall a bps, find_bp a bps = None -> ~ In a (addrs bps).
Proof.
  intros a bps H Hin. unfold addrs in Hin. apply in_map_iff in Hin. destruct Hin as [b [E Hb]].
  unfold find_bp in H. eapply find_none in H; [|exact Hb]. cbn in H. apply N.eqb_neq in H. congruence.
Qed.

Lemma find_bp_in : forall a bps, In a (addrs bps) -> exists b, find_bp a bps = Some b.
Proof.
  intros a bps H. destruct (find_bp a bps) eqn:E; [eauto|]. apply find_bp_none in E. contradiction.
Qed.

Lemma patched_iff : forall bps x, (forall b, In b bps -> b_en b = true) ->
  (patched bps x = true <-> In x (addrs bps)).
Proof.
  intros bps x Hen. unfold patched, addrs. rewrite existsb_exists, in_map_iff. split.
  - intros [b [Hb H]]. apply andb_true_iff in H. destruct H as [H _]. apply N.eqb_eq in H. eauto.
  - intros [b [E Hb]]. exists b. split; [exact Hb|]. rewrite (Hen b Hb), E, N.eqb_refl. reflexivity.
Qed.

Lemma patched_del : forall a bps x, patched (del_bp a bps) x = if x =? a then false else patched bps x.
Proof.
  intros a bps x. unfold patched, del_bp. induction bps as [|b t IH]; cbn [filter existsb].
  - destruct (x =? a); reflexivity.
  - destruct (b_addr b =? a) eqn:E; cbn [negb filter existsb].
    + rewrite IH. apply N.eqb_eq in E. rewrite E. destruct (x =? a) eqn:E2; [reflexivity|].
      rewrite N.eqb_sym, E2. reflexivity.
    + rewrite IH. destruct (x =? a) eqn:E2; [|reflexivity].
      apply N.eqb_eq in E2. subst x. rewrite E. reflexivity.
Qed.

Lemma patched_ins : forall b bps x,
  patched (ins_bp b bps) x = ((b_addr b =? x) && b_en b) || (if x =? b_addr b then false else patched bps x).
Proof. intros. unfold ins_bp. change (patched (b :: ?l) x) with (((b_addr b =? x) && b_en b) || patched l x). now rewrite patched_del. Qed.

Lemma in_del_bp : forall a bps b, In b (del_bp a bps) <-> In b bps /\ b_addr b <> a.
Proof.
  intros. unfold del_bp. rewrite filter_In. rewrite negb_true_iff, N.eqb_neq. tauto.
Qed.

Lemma nodup_del : forall a bps, NoDup (addrs bps) -> NoDup (addrs (del_bp a bps)) /\ ~ In a (addrs (del_bp a bps)).
Proof.
  intros a bps H. split.
  - induction bps as [|b t IH]; cbn; [constructor|]. inversion H; subst.
    destruct (b_addr b =? a); cbn; [auto|]. constructor; [|auto].
    intro Hin. apply H2. unfold addrs in *. apply in_map_iff in Hin. destruct Hin as [c [E Hc]].
    apply in_del_bp in Hc. apply in_map_iff. exists c. tauto.
  - intro Hin. unfold addrs in Hin. apply in_map_iff in Hin. destruct Hin as [c [E Hc]].
    apply in_del_bp in Hc. tauto.
Qed.

Lemma wf_readable : forall bps m a, WF bps m -> readable code a -> readable m a.
Proof.
  intros bps m a W R o Ho. rewrite (wf_mem _ _ W). destruct (patched bps (a+o)); [discriminate|auto].
Qed.

Lemma wf_del : forall bps m m' a, WF bps m ->
  (forall x, m' x = if x =? a then code a else m x) -> WF (del_bp a bps) m'.
Proof.
  intros bps m m' a W Hm. constructor.
  - apply nodup_del, W.
  - intros b Hb. apply in_del_bp in Hb. apply (wf_bp _ _ W). tauto.
  - intro x. rewrite Hm, patched_del. destruct (x =? a) eqn:E.
    + apply N.eqb_eq in E. now subst.
    + apply (wf_mem _ _ W).
Qed.

Lemma wf_ins : forall bps m m' b, WF bps m ->
  b_en b = true -> code (b_addr b) = Some (b_saved b) -> readable code (b_addr b) ->
  (forall x, m' x = if x =? b_addr b then Some INT3 else m x) -> WF (ins_bp b bps) m'.
Proof.
  intros bps m m' b W He Hs Hr Hm. constructor.
  - unfold ins_bp. cbn. destruct (nodup_del (b_addr b) bps (wf_nodup _ _ W)). constructor; auto.
  - intros c [Hc|Hc]; [subst; auto|]. apply in_del_bp in Hc. apply (wf_bp _ _ W). tauto.
  - intro x. rewrite Hm, patched_ins, He. rewrite (N.eqb_sym (b_addr b) x).
    destruct (x =? b_addr b); [reflexivity|]. apply (wf_mem _ _ W).
Qed.

Lemma same_but_mem_trans : forall p q r, same_but_mem p q -> same_but_mem q r -> same_but_mem p r.
Proof. unfold same_but_mem. intros p q r (a&b&c&d) (e&f&g&h). repeat split; congruence. Qed.
Lemma same_but_mem_refl : forall p, same_but_mem p p.
Proof. unfold same_but_mem. tauto. Qed.

(* add_and_enable on a well-formed state: succeeds, the new breakpoint replaces whatever was at
   its address, memory changes at that one byte only *)
Lemma add_and_enable_ok : forall bps p b c,
  WF bps (p_mem p) -> p_alive p = true -> readable code (b_addr b) -> code (b_addr b) = Some c ->
  exists p', add_and_enable bps p b = Ok (ins_bp (bp_set b c true) bps, p') /\
    same_but_mem p p' /\ WF (ins_bp (bp_set b c true) bps) (p_mem p') /\
    (forall x, p_mem p' x = if x =? b_addr b then Some INT3 else p_mem p x).
Proof.
  intros bps p b c W Ha R Hc. unfold add_and_enable.
  assert (Hp1: exists p1, match find_bp (b_addr b) bps with
                          | Some ex => r <- bp_disable p ex ;; Ok (fst r) | None => Ok p end = Ok p1 /\
            same_but_mem p p1 /\ p_mem p1 (b_addr b) = Some c /\
            (forall x, x <> b_addr b -> p_mem p1 x = p_mem p x)).
  { destruct (find_bp (b_addr b) bps) as [ex|] eqn:Ef.
    - apply find_bp_some in Ef. destruct Ef as [Hin Ea].
      destruct (wf_bp _ _ W ex Hin) as (He & Hs & Hr).
      destruct (bp_disable_ok p ex Ha) as (p1 & E1 & S1 & M1).
      { eapply wf_readable; eauto. }
      exists p1. rewrite E1. cbn [bind fst]. split; [reflexivity|]. split; [exact S1|]. split.
      + rewrite M1, Ea, N.eqb_refl. congruence.
      + intros x Hx. rewrite M1, Ea. apply N.eqb_neq in Hx. now rewrite Hx.
    - exists p. split; [reflexivity|]. split; [apply same_but_mem_refl|]. split; [|auto].
      rewrite (wf_mem _ _ W). apply find_bp_none in Ef.
      destruct (patched bps (b_addr b)) eqn:Ep; [|exact Hc].
      apply patched_iff in Ep; [contradiction|]. intros; now apply (wf_bp _ _ W). }
  destruct Hp1 as (p1 & E1 & S1 & Ma & Mo). rewrite E1. cbn [bind].
  destruct (bp_enable_ok p1 b) as (p2 & lo & E2 & Hlo & S2 & M2).
  { destruct S1 as (A&_). congruence. }
  { intros o Ho. destruct (N.eq_dec (b_addr b + o) (b_addr b)) as [E|E].
    - rewrite E, Ma. discriminate.
    - rewrite (Mo _ E). eapply wf_readable; eauto. }
  rewrite E2. cbn [bind fst snd]. assert (lo = c) by congruence. subst lo.
  assert (HM: forall x, p_mem p2 x = if x =? b_addr b then Some INT3 else p_mem p x).
  { intro x. rewrite M2. destruct (x =? b_addr b) eqn:E; [reflexivity|]. apply Mo. now apply N.eqb_neq. }
  exists p2. split; [reflexivity|]. split; [eapply same_but_mem_trans; eauto|]. split; [|exact HM].
  eapply wf_ins; eauto.
Qed.

(* ---------- the CPU on a well-formed state ---------- *)
Hypothesis H_no_int3 : forall a, In a tr -> code a <> Some INT3.
Hypothesis H_mapped : forall a, In a tr -> code a <> None.

Definition proc_at (m : mem) (i : nat) : proc :=
  mk_proc m (Nat.ltb i (length tr)) i (pc_at i) (firstn i tr).

Lemma memb_iff : forall a B, memb a B = true <-> In a B.
Proof.
  intros. unfold memb. rewrite existsb_exists. split.
  - intros [x [H E]]. apply N.eqb_eq in E. now subst.
  - intros H. exists a. split; [auto|apply N.eqb_refl].
Qed.

Lemma nth_error_pc_at : forall i, (i < length tr)%nat -> nth_error tr i = Some (pc_at i).
Proof. intros. unfold BpMachine.pc_at. now apply nth_error_nth'. Qed.

Lemma pc_at_in : forall i, (i < length tr)%nat -> In (pc_at i) tr.
Proof. intros. unfold BpMachine.pc_at. now apply nth_In. Qed.

Lemma firstn_S_nth : forall (l : list N) i, (i < length l)%nat -> firstn (S i) l = firstn i l ++ [nth i l 0].
Proof.
  induction l as [|a t IH]; intros i H; cbn [length] in H; [lia|].
  destruct i as [|i]; [reflexivity|].
  change (a :: firstn (S i) t = a :: (firstn i t ++ [nth i t 0])). f_equal. apply IH. lia.
Qed.
Lemma firstn_S_pc_at : forall i, (i < length tr)%nat -> firstn (S i) tr = firstn i tr ++ [pc_at i].
Proof. intros. now apply firstn_S_nth. Qed.

Lemma skipn_nth : forall (l : list N) i, (i < length l)%nat -> skipn i l = nth i l 0 :: skipn (S i) l.
Proof.
  induction l as [|a t IH]; intros i H; cbn [length] in H; [lia|].
  destruct i as [|i]; [reflexivity|].
  change (skipn i t = nth i t 0 :: skipn (S i) t). apply IH. lia.
Qed.
Lemma skipn_pc_at : forall i, (i < length tr)%nat -> skipn i tr = pc_at i :: skipn (S i) tr.
Proof. intros. now apply skipn_nth. Qed.

Lemma cpu_step_trap : forall bps m i, WF bps m -> (i < length tr)%nat -> In (pc_at i) (addrs bps) ->
  cpu_step (proc_at m i) = (set_pc (proc_at m i) (pc_at i + 1), EvTrap).
Proof.
  intros bps m i W Hi Hin. unfold BpMachine.cpu_step, proc_at. cbn [p_pos p_pc p_mem].
  rewrite (nth_error_pc_at _ Hi), N.eqb_refl. cbn [negb].
  rewrite (wf_mem _ _ W). apply patched_iff in Hin; [|intros; now apply (wf_bp _ _ W)].
  rewrite Hin, N.eqb_refl. reflexivity.
Qed.

Lemma cpu_step_exec : forall bps m i, WF bps m -> (i < length tr)%nat -> ~ In (pc_at i) (addrs bps) ->
  cpu_step (proc_at m i) = (proc_at m (S i), EvExec).
Proof.
  intros bps m i W Hi Hin. unfold BpMachine.cpu_step, proc_at. cbn [p_pos p_pc p_mem p_exec].
  rewrite (nth_error_pc_at _ Hi), N.eqb_refl. cbn [negb].
  rewrite (wf_mem _ _ W).
  destruct (patched bps (pc_at i)) eqn:Ep.
  { apply patched_iff in Ep; [contradiction|]. intros; now apply (wf_bp _ _ W). }
  pose proof (H_mapped _ (pc_at_in _ Hi)) as Hm. pose proof (H_no_int3 _ (pc_at_in _ Hi)) as Hn.
  destruct (code (pc_at i)) as [b|] eqn:Ec; [|congruence].
  destruct (b =? INT3) eqn:Eb. { apply N.eqb_eq in Eb. congruence. }
  cbn [opt_eqb]. rewrite N.eqb_refl. rewrite <- firstn_S_pc_at by exact Hi. reflexivity.
Qed.

Lemma next_hit_from_spec : forall B l k j, next_hit_from B l k = Some j ->
  (k <= j < k + length l)%nat /\ memb (nth (j - k) l 0) B = true /\
  (forall q, (k <= q < j)%nat -> memb (nth (q - k) l 0) B = false).
Proof.
  intros B l. induction l as [|a t IH]; intros k j H; cbn in H; [discriminate|].
  destruct (memb a B) eqn:E.
  - inversion H; subst j. cbn [length]. split; [lia|]. replace (k - k)%nat with O by lia. split; [exact E|]. intros; lia.
  - apply IH in H. destruct H as (H1 & H2 & H3). cbn [length]. split; [lia|].
    replace (j - k)%nat with (S (j - S k)) by lia. split; [exact H2|].
    intros q Hq. destruct (Nat.eq_dec q k) as [->|Hne].
    + replace (k - k)%nat with O by lia. exact E.
    + replace (q - k)%nat with (S (q - S k)) by lia. apply H3. lia.
Qed.

(* PTRACE_CONT runs the native instructions up to the first patched address, or to the exit *)
Lemma run_cpu_spec : forall bps m fuel i, WF bps m -> (i < length tr)%nat -> (fuel > length tr - i)%nat ->
  run_cpu fuel (proc_at m i) =
    match next_hit_from (addrs bps) (skipn i tr) i with
    | Some j => (set_pc (proc_at m j) (pc_at j + 1), EvTrap)
    | None => (proc_at m (length tr), EvExit)
    end.
Proof.
  intros bps m fuel. induction fuel as [|f IH]; intros i W Hi Hf; [lia|].
  cbn [BpMachine.run_cpu]. rewrite (skipn_pc_at _ Hi). cbn [next_hit_from].
  destruct (memb (pc_at i) (addrs bps)) eqn:E.
  - apply memb_iff in E. rewrite (cpu_step_trap _ _ _ W Hi E). reflexivity.
  - assert (Hn: ~ In (pc_at i) (addrs bps)). { intro H. apply memb_iff in H. congruence. }
    rewrite (cpu_step_exec _ _ _ W Hi Hn). cbn [fst snd].
    unfold proc_at at 1. cbn [p_alive].
    destruct (Nat.ltb (S i) (length tr)) eqn:El.
    + apply Nat.ltb_lt in El. apply IH; auto. lia.
    + apply Nat.ltb_ge in El. assert (S i = length tr) by lia. rewrite H.
      rewrite skipn_all. reflexivity.
Qed.

Definition no_stutter : Prop := forall i, (S i < length tr)%nat -> pc_at (S i) <> pc_at i.

(* the core of C02: stepping over a patched instruction executes the ORIGINAL instruction exactly
   once and leaves the patch in place *)
Lemma step_over_core_once : forall bps m i b, no_stutter ->
  WF bps m -> (S i < length tr)%nat -> In b bps -> b_addr b = pc_at i ->
  exists m', step_over_core code tr (proc_at m i) b = Ok (proc_at m' (S i), b, false) /\ WF bps m' /\
             (forall x, m' x = m x).
Proof.
  intros bps m i b NS W Hi Hb Ha.
  destruct (wf_bp _ _ W b Hb) as (He & Hs & Hr).
  assert (Hal: p_alive (proc_at m i) = true). { unfold proc_at; cbn [p_alive]. apply Nat.ltb_lt. lia. }
  destruct (bp_disable_ok (proc_at m i) b Hal) as (p1 & E1 & S1 & M1).
  { eapply wf_readable; eauto. }
  unfold step_over_core. rewrite E1. cbn [bind fst snd].
  set (m1 := p_mem p1).
  assert (Hp1: p1 = proc_at m1 i).
  { destruct p1 as [m1' a1 ps1 pc1 ex1]. destruct S1 as (A&B&C&D). cbn in *. subst. reflexivity. }
  assert (W1: WF (del_bp (b_addr b) bps) m1).
  { eapply wf_del; [exact W|]. intro x. unfold m1. rewrite M1. cbn [p_mem proc_at]. now rewrite Hs. }
  rewrite Hp1. replace (p_pc (proc_at m1 i)) with (pc_at i) by reflexivity.
  unfold fuel0. cbn [BpMachine.single_step].
  assert (Hn: ~ In (pc_at i) (addrs (del_bp (b_addr b) bps))).
  { rewrite <- Ha. apply nodup_del, W. }
  assert (Hi': (i < length tr)%nat) by lia.
  rewrite (cpu_step_exec _ _ _ W1 Hi' Hn). cbn [fst snd].
  replace (p_alive (proc_at m1 (S i))) with true by (symmetry; unfold proc_at; cbn [p_alive]; apply Nat.ltb_lt; lia).
  replace (p_pc (proc_at m1 (S i))) with (pc_at (S i)) by reflexivity.
  destruct (pc_at (S i) =? pc_at i) eqn:Est. { apply N.eqb_eq in Est. exfalso. eapply NS; eauto. }
  cbn [bind fst snd].
  assert (Hal2: p_alive (proc_at m1 (S i)) = true). { unfold proc_at; cbn [p_alive]. apply Nat.ltb_lt. lia. }
  destruct (bp_enable_ok (proc_at m1 (S i)) (bp_set b (b_saved b) false) Hal2) as (p2 & lo & E2 & Hlo & S2 & M2).
  { cbn [b_addr bp_set]. eapply wf_readable; eauto. }
  rewrite E2. cbn [bind fst snd]. cbn [b_addr bp_set p_mem proc_at] in Hlo, M2.
  assert (Hlo': lo = b_saved b).
  { unfold m1 in Hlo. rewrite M1 in Hlo. rewrite N.eqb_refl in Hlo. congruence. }
  subst lo.
  assert (Hb': bp_set (bp_set b (b_saved b) false) (b_saved b) true = b).
  { clear - He. destruct b as [ba bn bs be bt]; cbn in He |- *. rewrite He. reflexivity. }
  rewrite Hb'.
  assert (HM: forall x, p_mem p2 x = m x).
  { intro x. rewrite M2. unfold m1. rewrite M1. cbn [p_mem proc_at].
    destruct (x =? b_addr b) eqn:E; [|reflexivity].
    apply N.eqb_eq in E. subst x. rewrite (wf_mem _ _ W).
    assert (Hp: patched bps (b_addr b) = true).
    { apply patched_iff; [intros; now apply (wf_bp _ _ W)|]. unfold addrs. apply in_map. exact Hb. }
    now rewrite Hp. }
  exists (p_mem p2). split; [|split; [|exact HM]].
  - f_equal. f_equal. clear - S2. destruct p2 as [m2 a2 ps2 pc2 ex2]. destruct S2 as (A&B&C&D).
    cbn [p_alive p_pos p_pc p_exec p_mem proc_at] in *. rewrite A, B, C, D. reflexivity.
  - constructor; [apply W|apply W|]. intro x. rewrite HM. apply (wf_mem _ _ W).
Qed.

(* ---------- the continue loop in the steady state ---------- *)
Lemma next_hit_from_skip : forall B i j, (i <= j <= length tr)%nat ->
  (forall k, (i <= k < j)%nat -> memb (pc_at k) B = false) ->
  next_hit_from B (skipn i tr) i = next_hit_from B (skipn j tr) j.
Proof.
  intros B i j Hij Hk. remember (j - i)%nat as d eqn:Hd. revert i Hij Hk Hd.
  induction d as [|d IH]; intros i Hij Hk Hd.
  - assert (i = j) by lia. now subst.
  - rewrite (skipn_pc_at i) by lia. cbn [next_hit_from]. rewrite Hk by lia. apply IH; [lia| |lia].
    intros k Hk'. apply Hk. lia.
Qed.

Lemma next_hit_from_here : forall B i j, (i <= j < length tr)%nat ->
  (forall k, (i <= k < j)%nat -> memb (pc_at k) B = false) -> memb (pc_at j) B = true ->
  next_hit_from B (skipn i tr) i = Some j.
Proof.
  intros B i j Hij Hk Hj. rewrite (next_hit_from_skip B i j) by (auto; lia).
  rewrite (skipn_pc_at j) by lia. cbn [next_hit_from]. now rewrite Hj.
Qed.

Lemma next_hit_from_none : forall B i, (i <= length tr)%nat ->
  (forall k, (i <= k < length tr)%nat -> memb (pc_at k) B = false) ->
  next_hit_from B (skipn i tr) i = None.
Proof.
  intros B i Hi Hk. rewrite (next_hit_from_skip B i (length tr)) by (auto; lia).
  rewrite skipn_all. reflexivity.
Qed.

(* facts about a hit of next_hit_from on the trace *)
Lemma next_hit_trace : forall B i j, (i <= length tr)%nat -> next_hit_from B (skipn i tr) i = Some j ->
  (i <= j < length tr)%nat /\ memb (pc_at j) B = true /\ (forall k, (i <= k < j)%nat -> memb (pc_at k) B = false).
Proof.
  intros B i j Hi H. apply next_hit_from_spec in H. destruct H as (H1 & H2 & H3).
  rewrite skipn_length in H1. split; [lia|].
  assert (Hn: forall q, (i <= q)%nat -> nth (q - i) (skipn i tr) 0 = pc_at q).
  { intros q Hq. unfold BpMachine.pc_at. rewrite <- (firstn_skipn i tr) at 2.
    rewrite app_nth2; rewrite firstn_length, Nat.min_l by lia; [reflexivity|lia]. }
  split; [now rewrite <- Hn by lia|]. intros k Hk. rewrite <- Hn by lia. now apply H3.
Qed.

Lemma next_hit_none_trace : forall B i, (i <= length tr)%nat -> next_hit_from B (skipn i tr) i = None ->
  forall k, (i <= k < length tr)%nat -> memb (pc_at k) B = false.
Proof.
  intros B i Hi H k Hk. destruct (memb (pc_at k) B) eqn:E; [|reflexivity]. exfalso.
  (* take the least such k *)
  assert (Hex: exists j, (i <= j < length tr)%nat /\ memb (pc_at j) B = true /\
                         forall q, (i <= q < j)%nat -> memb (pc_at q) B = false).
  { clear H. revert k Hk E. induction k as [k IHk] using lt_wf_ind. intros Hk E.
    destruct (existsb (fun q => memb (pc_at q) B) (seq i (k - i))) eqn:Ex.
    - apply existsb_exists in Ex. destruct Ex as [q [Hq Eq]]. apply in_seq in Hq.
      apply (IHk q); [lia|lia|exact Eq].
    - exists k. split; [lia|]. split; [exact E|]. intros q Hq.
      destruct (memb (pc_at q) B) eqn:Eq; [|reflexivity].
      assert (existsb (fun q => memb (pc_at q) B) (seq i (k - i)) = true).
      { apply existsb_exists. exists q. split; [apply in_seq; lia|exact Eq]. }
      congruence. }
  destruct Hex as (j & Hj & Ej & Hq). rewrite (next_hit_from_here B i j Hj Hq Ej) in H. discriminate.
Qed.

(* stepping over a breakpoint on the instruction that ends the process (repair c0ceee6): the
   original instruction is executed, the step reports the exit, the breakpoint stays disabled *)
Lemma step_over_core_exit : forall bps m i b,
  WF bps m -> S i = length tr -> In b bps -> b_addr b = pc_at i ->
  exists m1, step_over_core code tr (proc_at m i) b
             = Ok (proc_at m1 (length tr), bp_set b (b_saved b) false, true).
Proof.
  intros bps m i b W Hi Hb Ha.
  destruct (wf_bp _ _ W b Hb) as (He & Hs & Hr).
  assert (Hi': (i < length tr)%nat) by lia.
  assert (Hal: p_alive (proc_at m i) = true). { unfold proc_at; cbn [p_alive]. apply Nat.ltb_lt. lia. }
  destruct (bp_disable_ok (proc_at m i) b Hal) as (p1 & E1 & S1 & M1).
  { eapply wf_readable; eauto. }
  unfold step_over_core. rewrite E1. cbn [bind fst snd].
  set (m1 := p_mem p1).
  assert (Hp1: p1 = proc_at m1 i).
  { destruct p1 as [m1' a1 ps1 pc1 ex1]. destruct S1 as (A&B&C&D). cbn in *. subst. reflexivity. }
  assert (W1: WF (del_bp (b_addr b) bps) m1).
  { eapply wf_del; [exact W|]. intro x. unfold m1. rewrite M1. cbn [p_mem proc_at]. now rewrite Hs. }
  rewrite Hp1. replace (p_pc (proc_at m1 i)) with (pc_at i) by reflexivity.
  unfold fuel0. cbn [BpMachine.single_step].
  assert (Hn: ~ In (pc_at i) (addrs (del_bp (b_addr b) bps))).
  { rewrite <- Ha. apply nodup_del, W. }
  rewrite (cpu_step_exec _ _ _ W1 Hi' Hn). cbn [fst snd].
  replace (p_alive (proc_at m1 (S i))) with false
    by (symmetry; unfold proc_at; cbn [p_alive]; apply Nat.ltb_ge; lia).
  cbn [bind fst snd]. rewrite Hi. exists m1. reflexivity.
Qed.

Record Steady (bps : list bp) (i : nat) : Prop := mk_Steady {
  st_types : forall b, In b bps -> b_ty b = TUser \/ b_ty b = TLinker \/ b_ty b = TEntry;
  st_entry : forall b, In b bps -> b_ty b = TEntry -> forall k, (i <= k < length tr)%nat -> pc_at k <> b_addr b
}.

Lemma steady_mono : forall bps i j, Steady bps i -> (i <= j)%nat -> Steady bps j.
Proof.
  intros bps i j S Hij. constructor; [apply S|].
  intros b Hb Ht k Hk. apply (st_entry _ _ S b Hb Ht). lia.
Qed.

Lemma steady_no_tmp : forall bps i, Steady bps i -> has_tmp bps = false.
Proof.
  intros bps i S. unfold has_tmp. apply not_true_is_false. intro H. apply existsb_exists in H.
  destruct H as [b [Hb Ht]]. unfold is_temp in Ht. destruct (st_types _ _ S b Hb) as [E|[E|E]]; rewrite E in Ht; discriminate.
Qed.

Definition uaddrs (bps : list bp) : list N := map b_addr (user_bps bps).

Lemma uaddrs_in : forall bps a, In a (uaddrs bps) <-> exists b, In b bps /\ b_ty b = TUser /\ b_addr b = a.
Proof.
  intros. unfold uaddrs, user_bps. rewrite in_map_iff. split.
  - intros [b [E Hb]]. apply filter_In in Hb. destruct Hb as [Hb Ht]. exists b. repeat split; auto.
    destruct (b_ty b); try discriminate; reflexivity.
  - intros [b (Hb & Ht & E)]. exists b. split; [exact E|]. apply filter_In. split; [exact Hb|]. now rewrite Ht.
Qed.

Lemma uaddrs_sub : forall bps a, In a (uaddrs bps) -> In a (addrs bps).
Proof. intros bps a H. apply uaddrs_in in H. destruct H as [b (Hb & _ & E)]. subst a. unfold addrs. now apply in_map. Qed.

Lemma in_addrs_unique : forall bps b c, NoDup (addrs bps) -> In b bps -> In c bps -> b_addr b = b_addr c -> b = c.
Proof.
  induction bps as [|d t IH]; intros b c ND Hb Hc E; [contradiction|].
  cbn in ND. inversion ND; subst. destruct Hb as [->|Hb], Hc as [->|Hc]; auto.
  - exfalso. apply H1. rewrite E. unfold addrs. now apply in_map.
  - exfalso. apply H1. rewrite <- E. unfold addrs. now apply in_map.
Qed.

Lemma put_bp_same : forall bps b, NoDup (addrs bps) -> In b bps -> put_bp b bps = bps.
Proof.
  intros bps b ND Hin. unfold put_bp. rewrite <- (map_id bps) at 2. apply map_ext_in.
  intros c Hc. destruct (b_addr c =? b_addr b) eqn:E; [|reflexivity].
  apply N.eqb_eq in E. symmetry. eapply in_addrs_unique; eauto.
Qed.

Lemma trap_pc : forall m j, p_pc (set_pc (proc_at m j) (pc_at j + 1)) - 1 = pc_at j.
Proof. intros. unfold set_pc. cbn [p_pc]. lia. Qed.
Lemma trap_rewind : forall m j, set_pc (set_pc (proc_at m j) (pc_at j + 1)) (pc_at j) = proc_at m j.
Proof. reflexivity. Qed.

(* what every way of seeing the program end leaves behind *)
Definition ExitedOK (s' : st) : Prop :=
  s_status s' = Exited /\ s_fate s' = FReaped /\ r_bps (s_reg s') = [] /\
  p_exec (s_proc s') = tr /\ p_alive (s_proc s') = false.
(* the exit is reported with the program's code: on_exit(exit_code) fired, either as the
   DebugeeExit stop of `continue` or as Err(ProcessExit(exit_code)) of a step over the last instruction *)
Definition exit_seen (r : cres) : Prop := r = CStop (StopExit exit_code) \/ r = CExitErr.

Lemma disable_all_from_dead : forall l dis p, p_alive p = false -> snd (disable_all_from off l dis p) = p.
Proof.
  induction l as [|c t IHl]; intros dis p Hal; [reflexivity|].
  cbn [disable_all_from]. rewrite (bp_disable_dead p c Hal). now apply IHl.
Qed.

Lemma exit_by_step_ok : forall s bps m1, ExitedOK (exit_by_step off s bps (proc_at m1 (length tr))).
Proof.
  intros. unfold ExitedOK, exit_by_step, disable_all. cbn [s_status s_fate s_reg s_proc fst snd r_bps r_dis].
  rewrite disable_all_from_dead by (cbn [p_alive proc_at]; apply Nat.ltb_irrefl).
  cbn [p_exec p_alive proc_at]. repeat split; auto using firstn_all, Nat.ltb_irrefl.
Qed.

Lemma exit_state_ok : forall s m1,
  ExitedOK (let y := disable_all off (s_reg s) (proc_at m1 (length tr)) in
            mk_st (fst y) (snd y) Exited (s_detached s) (s_external s) FReaped).
Proof.
  intros. unfold ExitedOK, disable_all. cbn [s_status s_fate s_reg s_proc fst snd r_bps].
  rewrite disable_all_from_dead by (cbn [p_alive proc_at]; apply Nat.ltb_irrefl).
  cbn [p_exec p_alive proc_at]. repeat split; auto using firstn_all, Nat.ltb_irrefl.
Qed.

(* C01 core: from position i, with a well-formed steady registry, the loop stops at the first
   position >= i whose address carries a USER breakpoint, reporting that pc and that number,
   having executed exactly the native instructions before it; or runs to the exit. *)
Lemma cont_steady : no_stutter -> forall fuel i m s,
  let bps := r_bps (s_reg s) in
  s_proc s = proc_at m i -> (i < length tr)%nat -> WF bps m -> Steady bps i -> (fuel > length tr - i)%nat ->
  match next_hit_from (uaddrs bps) (skipn i tr) i with
  | Some j => exists m' b, cont_loop code tr rbrk off has_place exit_code fuel s
                           = Ok (with_bps s bps (proc_at m' j), CStop (StopBp (pc_at j) (b_num b))) /\
                find_bp (pc_at j) bps = Some b /\ b_ty b = TUser /\ WF bps m' /\ (forall x, m' x = m x)
  | None => exists s' r, cont_loop code tr rbrk off has_place exit_code fuel s = Ok (s', r) /\
                exit_seen r /\ ExitedOK s'
  end.
Proof.
  intros NS fuel. induction fuel as [|f IH]; intros i m s bps Hp Hi W St Hf; [lia|].
  cbn [cont_loop]. rewrite Hp. unfold fuel0.
  rewrite (run_cpu_spec bps m (S (length tr)) i W Hi) by lia.
  destruct (next_hit_from (addrs bps) (skipn i tr) i) as [j|] eqn:En.
  - (* trap at j *)
    apply next_hit_trace in En; [|lia]. destruct En as (Hj & Ej & Hbefore).
    cbn [fst snd]. rewrite trap_pc, trap_rewind.
    fold bps. apply memb_iff in Ej. destruct (find_bp_in _ _ Ej) as [b Eb]. rewrite Eb.
    destruct (find_bp_some _ _ _ Eb) as [Hb Hab].
    rewrite (steady_no_tmp _ _ St). cbn [andb].
    assert (Hnu: forall k, (i <= k < j)%nat -> memb (pc_at k) (uaddrs bps) = false).
    { intros k Hk. apply not_true_is_false. intro H. apply memb_iff in H. apply uaddrs_sub in H.
      apply memb_iff in H. rewrite Hbefore in H by lia. discriminate. }
    destruct (st_types _ _ St b Hb) as [Et|[Et|Et]]; rewrite Et.
    + (* user breakpoint: report *)
      assert (Hju: memb (pc_at j) (uaddrs bps) = true) by (apply memb_iff, uaddrs_in; exists b; auto).
      rewrite (next_hit_from_here (uaddrs bps) i j Hj Hnu Hju).
      exists m, b. split; [reflexivity|]. split; [exact Eb|]. split; [exact Et|]. split; [exact W|reflexivity].
    + (* linker-map breakpoint: step over, go on *)
      assert (Hnj: memb (pc_at j) (uaddrs bps) = false).
      { apply not_true_is_false. intro H. apply memb_iff in H. apply uaddrs_in in H.
        destruct H as [c (Hc & Htc & Hac)].
        assert (c = b) by (eapply in_addrs_unique; eauto; [apply W|congruence]). subst c. congruence. }
      assert (Hnu': forall k, (i <= k < S j)%nat -> memb (pc_at k) (uaddrs bps) = false).
      { intros k Hk. destruct (Nat.eq_dec k j) as [Ekj|Ekj]; [rewrite Ekj; exact Hnj|apply Hnu; lia]. }
      assert (Hisj: (i <= S j <= length tr)%nat) by lia.
      rewrite (next_hit_from_skip (uaddrs bps) i (S j) Hisj Hnu').
      unfold step_over_breakpoint. cbn [p_pc proc_at]. rewrite Eb.
      destruct (wf_bp _ _ W b Hb) as (Hen & _). rewrite Hen.
      destruct (Nat.eq_dec (S j) (length tr)) as [Elast|Elast].
      * (* it sits on the last instruction: the step ends the process *)
        destruct (step_over_core_exit bps m j b W Elast Hb Hab) as (m1 & Ec).
        rewrite Ec. cbn [bind fst snd]. rewrite Elast, skipn_all. cbn [next_hit_from].
        eexists. eexists. split; [reflexivity|]. split; [right; reflexivity|apply exit_by_step_ok].
      * assert (HSj: (S j < length tr)%nat) by lia.
        destruct (step_over_core_once bps m j b NS W HSj Hb Hab) as (m' & Ec & W' & Hm').
        rewrite Ec. cbn [bind fst snd]. rewrite (put_bp_same _ _ (wf_nodup _ _ W) Hb).
        specialize (IH (S j) m' (with_bps s bps (proc_at m' (S j)))).
        cbn [with_bps with_rp s_reg s_proc r_bps] in IH.
        assert (Hle: (i <= S j)%nat) by lia. assert (Hfu: (f > length tr - S j)%nat) by lia.
        specialize (IH eq_refl HSj W' (steady_mono _ _ _ St Hle) Hfu).
        destruct (next_hit_from (uaddrs bps) (skipn (S j) tr) (S j)) as [j'|].
        -- destruct IH as (m'' & b' & E & F & T & W'' & Hm''). exists m'', b'.
           split; [exact E|]. split; [exact F|]. split; [exact T|]. split; [exact W''|].
           intro x. rewrite Hm''. apply Hm'.
        -- exact IH.
    + (* entry point reached again: excluded by Steady *)
      exfalso. apply (st_entry _ _ St b Hb Et j); [lia|]. congruence.
  - (* no patched address ahead: runs to the exit *)
    cbn [fst snd].
    assert (Hil: (i <= length tr)%nat) by lia.
    assert (Hnone: forall k, (i <= k < length tr)%nat -> memb (pc_at k) (uaddrs bps) = false).
    { intros k Hk. apply not_true_is_false. intro H. apply memb_iff in H. apply uaddrs_sub in H.
      apply memb_iff in H. rewrite (next_hit_none_trace _ _ Hil En k Hk) in H. discriminate. }
    rewrite (next_hit_from_none (uaddrs bps) i Hil Hnone).
    eexists. eexists. split; [reflexivity|]. split; [left; reflexivity|apply exit_state_ok].
Qed.

(* ---------- C01: continue from a prompt ---------- *)
(* a prompt of a running debuggee: position i, well-formed registry, no temporaries, the entry
   point is behind us *)
Record Prompt (s : st) (i : nat) (m : mem) : Prop := mk_Prompt {
  pr_status : s_status s = InProgress;
  pr_proc : s_proc s = proc_at m i;
  pr_pos : (i < length tr)%nat;
  pr_wf : WF (r_bps (s_reg s)) m;
  pr_steady : Steady (r_bps (s_reg s)) i
}.

Theorem C01_continue : no_stutter -> forall s i m, Prompt s i m ->
  let bps := r_bps (s_reg s) in
  match next_hit tr (uaddrs bps) (S i) with
  | Some j => exists m' b s', continue_execution code tr rbrk off has_place exit_code s
                                = Ok (s', CStop (StopBp (pc_at j) (b_num b))) /\
                find_bp (pc_at j) bps = Some b /\ b_ty b = TUser /\
                r_bps (s_reg s') = bps /\ Prompt s' j m' /\ (forall x, m' x = m x) /\
                r_dis (s_reg s') = r_dis (s_reg s)
  | None => exists s' r, continue_execution code tr rbrk off has_place exit_code s = Ok (s', r) /\
                exit_seen r /\ ExitedOK s'
  end.
Proof.
  intros NS s i m [Hst Hp Hi W St] bps. unfold continue_execution. rewrite Hst.
  unfold step_over_breakpoint. rewrite Hp. cbn [p_pc proc_at]. fold bps.
  (* the loop from position i0 *)
  assert (Hloop: forall i0 m0, (i <= i0 <= S i)%nat -> (i0 < length tr)%nat -> WF bps m0 -> (forall x, m0 x = m x) ->
            (i0 = i -> ~ In (pc_at i) (addrs bps)) ->
            match next_hit tr (uaddrs bps) (S i) with
            | Some j => exists m' b s', cont_loop code tr rbrk off has_place exit_code (loop_fuel tr)
                                          (with_bps s bps (proc_at m0 i0))
                                = Ok (s', CStop (StopBp (pc_at j) (b_num b))) /\
                find_bp (pc_at j) bps = Some b /\ b_ty b = TUser /\
                r_bps (s_reg s') = bps /\ Prompt s' j m' /\ (forall x, m' x = m x) /\
                r_dis (s_reg s') = r_dis (s_reg s)
            | None => exists s' r, cont_loop code tr rbrk off has_place exit_code (loop_fuel tr)
                                          (with_bps s bps (proc_at m0 i0)) = Ok (s', r) /\
                exit_seen r /\ ExitedOK s'
            end).
  { intros i0 m0 Hi0 Hi0l W0 Hm0 Hnot.
    assert (St0: Steady bps i0) by (eapply steady_mono; [exact St|lia]).
    pose proof (cont_steady NS (loop_fuel tr) i0 m0 (with_bps s bps (proc_at m0 i0))) as C.
    cbn [with_bps with_rp s_reg s_proc r_bps] in C.
    assert (Hfu: (loop_fuel tr > length tr - i0)%nat) by (unfold loop_fuel; lia).
    specialize (C eq_refl Hi0l W0 St0 Hfu).
    assert (Hsame: next_hit_from (uaddrs bps) (skipn i0 tr) i0 = next_hit tr (uaddrs bps) (S i)).
    { unfold next_hit. destruct (Nat.eq_dec i0 i) as [E0|E0].
      - subst i0. apply next_hit_from_skip; [lia|]. intros k Hk. assert (k = i) by lia. subst k.
        apply not_true_is_false. intro H. apply memb_iff in H. apply uaddrs_sub in H. now apply Hnot.
      - assert (i0 = S i) by lia. now subst. }
    rewrite <- Hsame.
    destruct (next_hit_from (uaddrs bps) (skipn i0 tr) i0) as [j|] eqn:En.
    - destruct C as (m' & b & E & F & T & W' & Hm').
      apply next_hit_trace in En; [|lia]. destruct En as (Hj & _).
      exists m', b. eexists. split; [exact E|]. split; [exact F|]. split; [exact T|]. split; [reflexivity|].
      split; [|split; [intro x; rewrite Hm'; apply Hm0|reflexivity]].
      constructor; cbn [with_bps with_rp s_status s_proc s_reg r_bps]; auto; [lia|].
      eapply steady_mono; [exact St|lia].
    - exact C. }
  destruct (find_bp (pc_at i) bps) as [b|] eqn:Eb.
  - destruct (find_bp_some _ _ _ Eb) as [Hb Hab].
    destruct (wf_bp _ _ W b Hb) as (Hen & _). rewrite Hen.
    destruct (Nat.eq_dec (S i) (length tr)) as [Elast|Elast].
    + (* a breakpoint on the instruction that ends the process: continuing reports the exit *)
      destruct (step_over_core_exit bps m i b W Elast Hb Hab) as (m1 & Ec).
      rewrite Ec. cbn [bind fst snd]. unfold next_hit. rewrite Elast, skipn_all. cbn [next_hit_from].
      eexists. eexists. split; [reflexivity|]. split; [right; reflexivity|apply exit_by_step_ok].
    + assert (HSi: (S i < length tr)%nat) by lia.
      destruct (step_over_core_once bps m i b NS W HSi Hb Hab) as (m' & Ec & W' & Hm').
      rewrite Ec. cbn [bind fst snd]. rewrite (put_bp_same bps b (wf_nodup _ _ W) Hb).
      apply Hloop; auto; lia.
  - cbn [bind fst snd]. apply Hloop; auto; try lia. intros _. now apply find_bp_none.
Qed.

Lemma filter_id : forall {A} (f : A -> bool) l, (forall x, In x l -> f x = true) -> filter f l = l.
Proof.
  intros A f l. induction l as [|a t IH]; intros H; [reflexivity|]. cbn [filter].
  rewrite (H a (or_introl eq_refl)). f_equal. apply IH. intros x Hx. apply H. now right.
Qed.

(* ---------- invariants at a prompt ---------- *)
Theorem mem_is_patch_prompt : forall s i m, Prompt s i m -> mem_is_patch code s.
Proof.
  intros s i m P x. rewrite (pr_proc _ _ _ P). cbn [p_mem proc_at]. apply (wf_mem _ _ (pr_wf _ _ _ P)).
Qed.

(* C02: what the process has executed at a prompt is exactly the native prefix *)
Theorem C02_transparent_prompt : forall s i m, Prompt s i m ->
  p_exec (s_proc s) = firstn i tr /\ p_pc (s_proc s) = pc_at i /\ p_pos (s_proc s) = i.
Proof. intros s i m P. rewrite (pr_proc _ _ _ P). cbn. auto. Qed.

(* break <addr> at a prompt *)
Theorem add_prompt : forall s i m a c,
  Prompt s i m -> mapped code a = true -> has_place a = true -> readable code a -> code a = Some c ->
  exists s' m', add_at_addr code has_place s a = (s', OAdded (r_next (s_reg s))) /\ Prompt s' i m' /\
    r_bps (s_reg s') = ins_bp (mk_bp a (r_next (s_reg s)) c true TUser) (r_bps (s_reg s)) /\
    (forall x, m' x = if x =? a then Some INT3 else m x) /\ r_dis (s_reg s') = r_dis (s_reg s).
Proof.
  intros s i m a c [Hst Hp Hi W St] Hm Hpl Hr Hc. unfold add_at_addr. rewrite Hst, Hm, Hpl. cbn [andb].
  assert (Hal: p_alive (s_proc s) = true). { rewrite Hp. cbn [p_alive proc_at]. now apply Nat.ltb_lt. }
  assert (W0: WF (r_bps (s_reg s)) (p_mem (s_proc s))). { rewrite Hp. exact W. }
  destruct (add_and_enable_ok (r_bps (s_reg s)) (s_proc s) (mk_bp a (r_next (s_reg s)) 0 false TUser) c W0 Hal Hr Hc)
    as (p' & E & Sm & W' & M'). cbn [b_addr] in *. rewrite E. cbn [fst snd].
  eexists. exists (p_mem p'). split; [reflexivity|]. split; [|split; [reflexivity|]].
  - constructor; cbn [with_rp s_status s_proc s_reg r_bps]; auto.
    + destruct p' as [m2 a2 ps2 pc2 ex2]. destruct Sm as (A&B&C&D). rewrite Hp in A, B, C, D.
      cbn [p_alive p_pos p_pc p_exec p_mem proc_at] in *. rewrite A, B, C, D. reflexivity.
    + constructor.
      * intros b [Hb|Hb]; [subst b; cbn; auto|]. apply in_del_bp in Hb. apply (st_types _ _ St). tauto.
      * intros b [Hb|Hb] Ht; [subst b; cbn in Ht; discriminate|]. apply in_del_bp in Hb. apply (st_entry _ _ St); tauto.
  - split; [|reflexivity]. intro x. rewrite M'. rewrite Hp. reflexivity.
Qed.

(* break remove <addr> at a prompt (no uninit breakpoints while the debuggee runs) *)
Theorem remove_prompt : forall s i m a,
  Prompt s i m -> r_dis (s_reg s) = [] ->
  let x := remove_by_addr (Reloc a) (s_reg s) (s_proc s) in
  exists m' v, snd x = Ok v /\ Prompt (with_rp s (fst (fst x)) (snd (fst x))) i m' /\
    r_bps (fst (fst x)) = del_bp a (r_bps (s_reg s)) /\ r_dis (fst (fst x)) = [] /\
    m' a = code a /\ (forall y, y <> a -> m' y = m y).
Proof.
  intros s i m a [Hst Hp Hi W St] Hd. unfold remove_by_addr. rewrite Hd. cbn [find_dis find].
  assert (Hal: p_alive (s_proc s) = true). { rewrite Hp. cbn [p_alive proc_at]. now apply Nat.ltb_lt. }
  destruct (find_bp a (r_bps (s_reg s))) as [b|] eqn:Eb.
  - destruct (find_bp_some _ _ _ Eb) as [Hb Hab]. destruct (wf_bp _ _ W b Hb) as (Hen & Hs & Hr). rewrite Hen.
    destruct (bp_disable_ok (s_proc s) b Hal) as (p1 & E1 & S1 & M1).
    { rewrite Hp. cbn [p_mem proc_at]. eapply wf_readable; eauto. }
    rewrite E1. cbn [fst snd]. exists (p_mem p1). eexists. split; [reflexivity|].
    assert (HM: forall y, p_mem p1 y = if y =? a then code a else m y).
    { intro y. rewrite M1, Hp. cbn [p_mem proc_at]. rewrite <- Hs, Hab. reflexivity. }
    split; [|split; [reflexivity|split; [first [reflexivity|exact Hd]|]]].
    + constructor; cbn [with_rp s_status s_proc s_reg r_bps]; auto.
      * destruct p1 as [m2 a2 ps2 pc2 ex2]. destruct S1 as (A&B&C&D). rewrite Hp in A, B, C, D.
        cbn [p_alive p_pos p_pc p_exec p_mem proc_at] in *. rewrite A, B, C, D. reflexivity.
      * eapply wf_del; [exact W|exact HM].
      * constructor.
        -- intros c Hc. apply in_del_bp in Hc. apply (st_types _ _ St). tauto.
        -- intros c Hc. apply in_del_bp in Hc. apply (st_entry _ _ St). tauto.
    + split; [rewrite HM, N.eqb_refl; reflexivity|]. intros y Hy. rewrite HM. apply N.eqb_neq in Hy. now rewrite Hy.
  - cbn [fst snd]. exists m. eexists. split; [reflexivity|].
    pose proof (find_bp_none _ _ Eb) as Hn.
    assert (Hdel: del_bp a (r_bps (s_reg s)) = r_bps (s_reg s)).
    { unfold del_bp. apply filter_id. intros c Hc. apply negb_true_iff, N.eqb_neq.
      intro E. apply Hn. rewrite <- E. unfold addrs. now apply in_map. }
    split; [|split; [now rewrite Hdel|split; [first [reflexivity|exact Hd]|]]].
    + constructor; cbn [with_rp s_status s_proc s_reg]; auto.
    + split; [|auto]. rewrite (wf_mem _ _ W).
      destruct (patched (r_bps (s_reg s)) a) eqn:Ep; [|reflexivity].
      apply patched_iff in Ep; [contradiction|]. intros; now apply (wf_bp _ _ W).
Qed.

(* ---------- clean memory after detach / quit ---------- *)
Lemma disable_all_from_clean : forall l dis p m, p_alive p = true -> WF l m -> p_mem p = m ->
  forall x, p_mem (snd (disable_all_from off l dis p)) x = code x.
Proof.
  induction l as [|b t IH]; intros dis p m Hal W Hm x.
  - cbn [disable_all_from snd]. rewrite Hm, (wf_mem _ _ W). reflexivity.
  - cbn [disable_all_from].
    destruct (wf_bp _ _ W b (or_introl eq_refl)) as (Hen & Hs & Hr).
    destruct (bp_disable_ok p b Hal) as (p1 & E1 & S1 & M1).
    { rewrite Hm. eapply wf_readable; eauto. }
    rewrite E1. cbn [fst]. apply (IH _ p1 (p_mem p1)); [destruct S1; congruence| |reflexivity].
    assert (Hdel: del_bp (b_addr b) (b :: t) = t).
    { pose proof (wf_nodup _ _ W) as ND. cbn in ND. inversion ND; subst. unfold del_bp. cbn [filter].
      rewrite N.eqb_refl. cbn [negb]. apply filter_id. intros c Hc.
      apply negb_true_iff, N.eqb_neq. intro E. apply H1. rewrite <- E. unfold addrs. now apply in_map. }
    rewrite <- Hdel. eapply wf_del; [exact W|]. intro y. rewrite M1, Hm, Hs. reflexivity.
Qed.

(* C02 / C11: detaching from, or dropping the debugger of, a debuggee stopped at a prompt leaves the
   original code in its memory and an empty active-breakpoint table *)
Theorem C02_clean_after_detach : forall s i m, Prompt s i m -> s_detached s = false ->
  let s' := detach off s in
  (forall x, p_mem (s_proc s') x = code x) /\ r_bps (s_reg s') = [] /\ s_fate s' = FReleased /\ s_detached s' = true.
Proof.
  intros s i m [Hst Hp Hi W St] Hd. unfold detach. rewrite Hd, Hst. unfold disable_all. cbn [fst snd s_proc s_reg r_bps s_fate s_detached].
  split; [|auto]. intro x. eapply disable_all_from_clean; [| |reflexivity].
  - rewrite Hp. cbn [p_alive proc_at]. now apply Nat.ltb_lt.
  - rewrite Hp. exact W.
Qed.

Theorem C11_drop_at_prompt : forall s i m, Prompt s i m -> s_detached s = false ->
  let s' := drop off s in
  (forall x, p_mem (s_proc s') x = code x) /\ r_bps (s_reg s') = [] /\
  s_fate s' = (if s_external s then FReleased else FReaped).
Proof.
  intros s i m [Hst Hp Hi W St] Hd. unfold drop. rewrite Hd, Hst.
  assert (Hc: forall dis x, p_mem (snd (disable_all_from off (r_bps (s_reg s)) dis (s_proc s))) x = code x).
  { intros dis x. eapply disable_all_from_clean; [| |reflexivity].
    - rewrite Hp. cbn [p_alive proc_at]. now apply Nat.ltb_lt.
    - rewrite Hp. exact W. }
  destruct (s_external s); unfold disable_all; cbn [fst snd s_proc s_reg r_bps s_fate]; auto.
Qed.

(* C11: Drop never leaves a launched, not detached debuggee behind, whatever the state *)
Theorem C11_no_orphan_not_detached : forall s, s_detached s = false -> s_external s = false ->
  (s_status s = Exited -> s_fate s = FReaped) -> s_fate (drop off s) = FReaped.
Proof.
  intros s Hd He Hx. unfold drop. rewrite Hd, He. destruct (s_status s); cbn; auto.
Qed.

(* ====================================================================================== *)
(* ---------- start-up: from the initial state through `run` to the first prompt ---------- *)
Section Startup.
Variable entry : N.
Hypothesis H_off : off <= entry.
Hypothesis H_entry_readable : readable code entry.
Hypothesis H_rbrk_readable : readable code rbrk.
Hypothesis H_rbrk_entry : rbrk <> entry.
(* the ELF entry point (_start) is executed at most once *)
Hypothesis H_entry_once : forall k k', (k < length tr)%nat -> (k' < length tr)%nat ->
  pc_at k = entry -> pc_at k' = entry -> k = k'.

Lemma readable_some : forall a, readable code a -> exists c, code a = Some c.
Proof.
  intros a R. specialize (R 0). replace (a + 0) with a in R by lia.
  destruct (code a) as [c|]; [eauto|]. exfalso. apply R; [cbn; tauto|reflexivity].
Qed.

Definition entry_u : ubp := mk_ubp (Glob (entry - off)) 0 TEntry false.

(* an uninit user breakpoint that will convert and enable: H_boundary for `break` before `run` *)
Definition GoodU (u : ubp) : Prop :=
  u_ty u = TUser /\ exists a, u_key u = Reloc a /\ mapped code a = true /\ has_place a = true /\
                              readable code a /\ a <> entry /\ a <> rbrk.

Lemma try_into_good : forall u, GoodU u -> exists a, u_key u = Reloc a /\
  try_into_brkpt code off has_place u = Ok (mk_bp a (u_num u) 0 false TUser) /\ readable code a /\ a <> entry /\ a <> rbrk.
Proof.
  intros u (Ht & a & Hk & Hm & Hp & Hr & He & Hb). exists a. split; [exact Hk|]. split; [|auto].
  unfold try_into_brkpt. rewrite Hk, Hm. cbn [bind]. rewrite Ht, Hp, orb_true_r. reflexivity.
Qed.

Definition EA_post (l : list ubp) (bps bps' : list bp) : Prop :=
  (forall b, In b bps' -> In b bps \/
     (b_ty b = TUser /\ exists u, In u l /\ u_key u = Reloc (b_addr b) /\ b_num b = u_num u)) /\
  (forall b, In b bps -> (forall u, In u l -> u_key u <> Reloc (b_addr b)) -> In b bps') /\
  (forall u, In u l -> exists b, In b bps' /\ u_key u = Reloc (b_addr b) /\ b_ty b = TUser).

(* enable_all_breakpoints at the entry point: every good uninit breakpoint becomes an enabled
   user breakpoint with its number; nothing else changes *)
Lemma enable_all_ok : forall l bps p, Forall GoodU l -> WF bps (p_mem p) -> p_alive p = true ->
  let r := enable_all_from code off has_place l bps p in
  WF (fst r) (p_mem (snd r)) /\ same_but_mem p (snd r) /\ EA_post l bps (fst r).
Proof.
  induction l as [|u t IH]; intros bps p HG W Hal.
  - cbn. split; [exact W|]. split; [apply same_but_mem_refl|]. unfold EA_post. repeat split; auto.
    intros u [].
  - inversion HG as [|? ? Gu Gt]; subst. cbn [enable_all_from].
    destruct (try_into_good u Gu) as (a & Hk & Et & Hr & Hne & Hnb). rewrite Et.
    destruct (readable_some a Hr) as [c Hc].
    destruct (add_and_enable_ok bps p (mk_bp a (u_num u) 0 false TUser) c W Hal Hr Hc) as (p1 & E1 & S1 & W1 & M1).
    rewrite E1. cbn [fst snd].
    set (nb := bp_set (mk_bp a (u_num u) 0 false TUser) c true) in *.
    assert (Hal1: p_alive p1 = true) by (destruct S1; congruence).
    specialize (IH (ins_bp nb bps) p1 Gt W1 Hal1). cbn zeta in IH.
    destruct IH as (W' & S' & (P1 & P2 & P3)).
    split; [exact W'|]. split; [eapply same_but_mem_trans; eauto|].
    unfold EA_post. split; [|split].
    + intros b Hb. destruct (P1 b Hb) as [Hin|(Hty & u' & Hu' & Hk' & Hn')].
      * destruct Hin as [Hnb'|Hin].
        -- right. subst b. split; [reflexivity|]. exists u. split; [now left|]. split; [exact Hk|reflexivity].
        -- left. apply in_del_bp in Hin. tauto.
      * right. split; [exact Hty|]. exists u'. split; [now right|auto].
    + intros b Hb Hno. apply P2.
      * right. apply in_del_bp. split; [exact Hb|]. cbn [b_addr nb bp_set]. intro E.
        apply (Hno u (or_introl eq_refl)). rewrite Hk, E. reflexivity.
      * intros u' Hu'. apply Hno. now right.
    + intros u' [Hu'|Hu'].
      * subst u'.
        destruct (existsb (fun v => address_eqb (u_key v) (Reloc a)) t) eqn:Ex.
        -- apply existsb_exists in Ex. destruct Ex as [v [Hv Ev]].
           destruct (P3 v Hv) as (b & Hb & Hkb & Htb). exists b. split; [exact Hb|]. split; [|exact Htb].
           destruct (u_key v) as [a'|g]; cbn in Ev; [|discriminate]. apply N.eqb_eq in Ev. subst a'.
           rewrite Hk. exact Hkb.
        -- exists nb. split; [|split; [exact Hk|reflexivity]]. apply P2; [now left|].
           intros v Hv E. cbn [b_addr nb bp_set] in E.
           assert (existsb (fun v => address_eqb (u_key v) (Reloc a)) t = true).
           { apply existsb_exists. exists v. split; [exact Hv|]. rewrite E. cbn. apply N.eqb_refl. }
           congruence.
      * apply P3. exact Hu'.
Qed.

Record PreStart (s : st) : Prop := mk_PreStart {
  ps_status : s_status s = Unload;
  ps_bps : r_bps (s_reg s) = [];
  ps_entry_in : In entry_u (r_dis (s_reg s));
  ps_others : forall u, In u (r_dis (s_reg s)) -> u = entry_u \/ GoodU u
}.

Lemma prestart_init : PreStart (init_launched code tr entry off).
Proof.
  constructor; cbn; auto. intros u [Hu|[]]. left. now subst.
Qed.

(* break <addr> before the program runs *)
Lemma prestart_add : forall s a, PreStart s ->
  mapped code a = true -> has_place a = true -> readable code a -> a <> entry -> a <> rbrk ->
  PreStart (fst (add_at_addr code has_place s a)) /\
  snd (add_at_addr code has_place s a) = OAdded (r_next (s_reg s)).
Proof.
  intros s a [Hs Hb He Ho] Hm Hp Hr Hne Hnb. unfold add_at_addr. rewrite Hs. cbn [fst snd]. split; [|reflexivity].
  constructor; cbn [with_rp s_status s_reg r_bps r_dis]; auto.
  - right. unfold del_dis. apply filter_In. split; [exact He|]. reflexivity.
  - intros u [Hu|Hu].
    + right. subst u. split; [reflexivity|]. exists a. cbn. auto 10.
    + unfold del_dis in Hu. apply filter_In in Hu. apply Ho. tauto.
Qed.

Lemma next_hit_from_ext : forall B B' l k, (forall a, memb a B = memb a B') ->
  next_hit_from B l k = next_hit_from B' l k.
Proof.
  intros B B' l. induction l as [|a t IH]; intros k H; [reflexivity|].
  cbn [next_hit_from]. rewrite H. destruct (memb a B'); [reflexivity|]. now apply IH.
Qed.

Lemma memb_ext : forall B B' a, (forall x, In x B <-> In x B') -> memb a B = memb a B'.
Proof.
  intros B B' a H. destruct (memb a B) eqn:E1, (memb a B') eqn:E2; auto.
  - apply memb_iff in E1. apply H in E1. apply memb_iff in E1. congruence.
  - apply memb_iff in E2. apply H in E2. apply memb_iff in E2. congruence.
Qed.

(* C01 for `run`: from a pre-start state the program runs to the first arrival at the entry point,
   arms every pending user breakpoint there, and stops at the first later position that carries one
   (true pc, that breakpoint's number), at a Prompt; or reports the exit *)
Theorem C01_run : no_stutter -> (0 < length tr)%nat -> forall s, PreStart s ->
  let U := pending_addrs off s in
  match next_hit tr [entry] O with
  | None => exists s' r, continue_execution code tr rbrk off has_place exit_code s = Ok (s', r) /\
                         exit_seen r /\ ExitedOK s'
  | Some e =>
      match next_hit tr U (S e) with
      | Some j => exists m' b s', continue_execution code tr rbrk off has_place exit_code s
                                    = Ok (s', CStop (StopBp (pc_at j) (b_num b))) /\
                    Prompt s' j m' /\ r_dis (s_reg s') = [] /\
                    find_bp (pc_at j) (r_bps (s_reg s')) = Some b /\ b_ty b = TUser /\
                    (forall a, In a (uaddrs (r_bps (s_reg s'))) <-> In a U) /\
                    (exists u, In u (r_dis (s_reg s)) /\ u_key u = Reloc (pc_at j) /\ u_num u = b_num b)
      | None => exists s' r, continue_execution code tr rbrk off has_place exit_code s = Ok (s', r) /\
                             exit_seen r /\ ExitedOK s'
      end
  end.
Proof.
  intros NS Hlen s [Hs Hb He Ho] U. unfold continue_execution. rewrite Hs.
  (* enable_entry_breakpoint *)
  unfold enable_entry.
  destruct (find (fun u => bty_eqb (u_ty u) TEntry) (r_dis (s_reg s))) as [u0|] eqn:Ef.
  2:{ eapply find_none in Ef; [|exact He]. cbn in Ef. discriminate. }
  apply find_some in Ef. destruct Ef as [Hu0 Ht0].
  assert (u0 = entry_u).
  { destruct (Ho u0 Hu0) as [|[Ht _]]; [assumption|]. rewrite Ht in Ht0. discriminate. }
  subst u0. unfold try_into_brkpt. cbn [entry_u u_key u_ty u_num bind].
  replace (entry - off + off) with entry by lia.
  destruct (readable_some entry H_entry_readable) as [ce Hce].
  assert (Wnil: WF [] (p_mem (fresh_proc code tr))).
  { constructor; [constructor|intros b []|intro x; reflexivity]. }
  destruct (add_and_enable_ok [] (fresh_proc code tr) (mk_bp entry 0 0 false TEntry) ce) as (p1 & E1 & S1 & W1 & M1); auto.
  rewrite Hb, E1. cbn [bind fst snd].
  set (eb := bp_set (mk_bp entry 0 0 false TEntry) ce true) in *.
  set (dis1 := del_dis (Glob (entry - off)) (r_dis (s_reg s))).
  assert (Hins: ins_bp eb [] = [eb]) by reflexivity. rewrite Hins in *.
  set (m1 := p_mem p1) in *.
  assert (Hp1: p1 = proc_at m1 0).
  { destruct p1 as [mm a1 ps1 pc1 ex1]. destruct S1 as (A&B&C&D). unfold fresh_proc in *. cbn in *. subst.
    unfold proc_at. f_equal. symmetry. now apply Nat.ltb_lt. }
  (* the pending user breakpoints *)
  assert (Hdis1: Forall GoodU dis1).
  { apply Forall_forall. intros u Hu. unfold dis1, del_dis in Hu. apply filter_In in Hu. destruct Hu as [Hu Hk].
    destruct (Ho u Hu) as [->|G]; [|exact G]. cbn in Hk. rewrite N.eqb_refl in Hk. discriminate. }
  assert (HU: forall a, In a U <-> exists u, In u dis1 /\ u_key u = Reloc a).
  { intro a. unfold U, pending_addrs. rewrite in_map_iff. split.
    - intros [u [Ea Hu]]. apply filter_In in Hu. destruct Hu as [Hu Ht].
      destruct (Ho u Hu) as [->|G]; [cbn in Ht; discriminate|].
      destruct G as (_ & a' & Hk & _). rewrite Hk in Ea. cbn in Ea. subst a'.
      exists u. split; [|exact Hk]. unfold dis1, del_dis. apply filter_In. split; [exact Hu|]. now rewrite Hk.
    - intros [u [Hu Hk]]. unfold dis1, del_dis in Hu. apply filter_In in Hu. destruct Hu as [Hu _].
      exists u. split; [now rewrite Hk|]. apply filter_In. split; [exact Hu|].
      destruct (Ho u Hu) as [->|(Ht & _)]; [discriminate|]. now rewrite Ht. }
  (* first iteration of the loop: run to the entry point *)
  unfold loop_fuel. remember (S (length tr)) as f1 eqn:Ef1. cbn [cont_loop s_proc]. rewrite Hp1. unfold fuel0.
  rewrite (run_cpu_spec [eb] m1 (S (length tr)) 0 W1 Hlen) by lia.
  assert (Haddr: addrs [eb] = [entry]) by reflexivity. rewrite Haddr.
  unfold next_hit. change (skipn 0 tr) with tr.
  destruct (next_hit_from [entry] tr 0) as [e|] eqn:En.
  2:{ cbn [fst snd]. eexists. eexists. split; [reflexivity|]. split; [left; reflexivity|apply exit_state_ok]. }
  pose proof (next_hit_trace [entry] 0 e (Nat.le_0_l _) En) as (Hel & Hee & _).
  apply memb_iff in Hee. destruct Hee as [Hee|[]].
  cbn [fst snd]. rewrite trap_pc, trap_rewind. cbn [s_reg r_bps r_dis r_next].
  rewrite <- Hee. unfold find_bp. cbn [find b_addr eb bp_set]. rewrite N.eqb_refl.
  cbn [has_tmp existsb is_temp b_ty eb bp_set bty_eqb andb orb negb].
  (* enable_all_breakpoints *)
  assert (Hal0: p_alive (proc_at m1 e) = true) by (cbn [p_alive proc_at]; apply Nat.ltb_lt; lia).
  pose proof (enable_all_ok dis1 [eb] (proc_at m1 e) Hdis1 W1 Hal0) as EA. cbn zeta in EA.
  fold dis1.
  destruct (enable_all_from code off has_place dis1 [eb] (proc_at m1 e)) as [bps2 p2] eqn:Eea.
  cbn [fst snd] in EA |- *. destruct EA as (W2 & S2 & (P1 & P2 & P3)).
  (* the linker-map breakpoint *)
  destruct (readable_some rbrk H_rbrk_readable) as [cr Hcr].
  assert (Hal2: p_alive p2 = true) by (destruct S2 as (A&_); congruence).
  destruct (add_and_enable_ok bps2 p2 (mk_bp rbrk 0 0 false TLinker) cr W2 Hal2 H_rbrk_readable Hcr) as (p3 & E3 & S3 & W3 & M3).
  rewrite E3. cbn [bind fst snd].
  set (lb := bp_set (mk_bp rbrk 0 0 false TLinker) cr true) in *.
  set (bps3 := ins_bp lb bps2) in *.
  assert (Hp3: p3 = proc_at (p_mem p3) e).
  { pose proof (same_but_mem_trans _ _ _ S2 S3) as (A&B&C&D). clear - A B C D.
    destruct p3 as [mm a1 ps1 pc1 ex1]. cbn [p_alive p_pos p_pc p_exec p_mem proc_at] in *.
    rewrite A, B, C, D. reflexivity. }
  set (m3 := p_mem p3) in *.
  (* facts about the registry after the entry-point handling *)
  assert (Heb_in: In eb bps3).
  { right. apply in_del_bp. split.
    - apply P2; [now left|]. intros u Hu Ek. cbn [b_addr eb bp_set] in Ek.
      rewrite Forall_forall in Hdis1. destruct (Hdis1 u Hu) as (_ & a & Hk & _ & _ & _ & Hne & _). congruence.
    - cbn. auto. }
  assert (Hin3: forall b, In b bps3 -> b = lb \/ b = eb \/
            (b_ty b = TUser /\ b_addr b <> rbrk /\ exists u, In u dis1 /\ u_key u = Reloc (b_addr b) /\ b_num b = u_num u)).
  { intros b [Hb3|Hb3]; [now left|]. apply in_del_bp in Hb3. destruct Hb3 as [Hb3 Hnr]. right.
    destruct (P1 b Hb3) as [[Hbe|[]]|(Hty & Hex)]; [now left|]. right. cbn [b_addr lb bp_set] in Hnr. auto. }
  assert (Hua: forall a, In a (uaddrs bps3) <-> In a U).
  { intro a. rewrite uaddrs_in, HU. split.
    - intros (b & Hb3 & Hty & Hab). destruct (Hin3 b Hb3) as [->|[->|(_ & _ & u & Hu & Hk & _)]]; try discriminate.
      exists u. rewrite <- Hab. auto.
    - intros (u & Hu & Hk). destruct (P3 u Hu) as (b & Hb2 & Hkb & Hty).
      assert (b_addr b = a) by congruence. exists b. split; [|auto]. right. apply in_del_bp. split; [exact Hb2|].
      cbn [b_addr lb bp_set]. rewrite Forall_forall in Hdis1.
      destruct (Hdis1 u Hu) as (_ & a' & Hk' & _ & _ & _ & _ & Hnb). congruence. }
  assert (St3: Steady bps3 (S e)).
  { constructor.
    - intros b Hb3. destruct (Hin3 b Hb3) as [->|[->|(Hty & _)]]; cbn; auto.
    - intros b Hb3 Hty k Hk. destruct (Hin3 b Hb3) as [->|[->|(Hty' & _)]]; [discriminate| |congruence].
      cbn [b_addr eb bp_set]. intro E. assert (k = e) by (apply H_entry_once; auto; lia). lia. }
  (* step over the entry-point breakpoint *)
  unfold step_over_breakpoint. rewrite Hp3. cbn [p_pc proc_at]. rewrite <- Hee.
  destruct (find_bp_in entry bps3) as [b0 Eb0].
  { unfold addrs. apply in_map_iff. exists eb. split; [reflexivity|exact Heb_in]. }
  rewrite Eb0. destruct (find_bp_some _ _ _ Eb0) as [Hb0 Hab0].
  destruct (wf_bp _ _ W3 b0 Hb0) as (Hen0 & _). rewrite Hen0.
  assert (Hab0': b_addr b0 = pc_at e) by congruence.
  assert (Hsame: forall i0, next_hit_from (uaddrs bps3) (skipn i0 tr) i0 = next_hit_from U (skipn i0 tr) i0).
  { intro i0. apply next_hit_from_ext. intro a. apply memb_ext. exact Hua. }
  destruct (Nat.eq_dec (S e) (length tr)) as [Elast|Elast].
  - (* the entry point is the last instruction: the step ends the process *)
    destruct (step_over_core_exit bps3 m3 e b0 W3 Elast Hb0 Hab0') as (m4 & Ec).
    rewrite Ec. cbn [bind fst snd]. rewrite Elast, skipn_all. cbn [next_hit_from].
    eexists. eexists. split; [reflexivity|]. split; [right; reflexivity|apply exit_by_step_ok].
  - assert (HSe: (S e < length tr)%nat) by lia.
    destruct (step_over_core_once bps3 m3 e b0 NS W3 HSe Hb0 Hab0') as (m4 & Ec & W4 & Hm4).
    rewrite Ec. cbn [bind fst snd]. rewrite (put_bp_same bps3 b0 (wf_nodup _ _ W3) Hb0).
    match goal with |- context [cont_loop _ _ _ _ _ _ ?f ?s2] =>
      pose proof (cont_steady NS f (S e) m4 s2) as C end.
    cbn [with_rp s_reg s_proc r_bps] in C.
    assert (Hfu: (f1 > length tr - S e)%nat) by lia.
    specialize (C eq_refl HSe W4 St3 Hfu). rewrite Hsame in C.
    destruct (next_hit_from U (skipn (S e) tr) (S e)) as [j|] eqn:Enj.
    + destruct C as (m' & b & E & F & T & W' & Hm').
      apply next_hit_trace in Enj; [|lia]. destruct Enj as (Hj & _).
      exists m', b. eexists. split; [exact E|].
      split; [|split; [reflexivity|split; [exact F|split; [exact T|split; [exact Hua|]]]]].
      * constructor; cbn [with_bps with_rp s_status s_proc s_reg r_bps]; auto; [lia|].
        eapply steady_mono; [exact St3|lia].
      * destruct (find_bp_some _ _ _ F) as [Hbin Hbaddr].
        destruct (Hin3 b Hbin) as [->|[->|(_ & _ & u & Hu & Hk & Hn)]]; try discriminate.
        exists u. unfold dis1, del_dis in Hu. apply filter_In in Hu. destruct Hu as [Hu _]. rewrite <- Hbaddr.
        split; [exact Hu|split; [exact Hk|symmetry; exact Hn]].
    + exact C.
Qed.

(* ---------- whole histories [Add*; Continue; (Add | RemoveAddr | Continue)*] ---------- *)
(* H_boundary for one user address *)
Definition GoodA (a : N) : Prop :=
  mapped code a = true /\ has_place a = true /\ readable code a /\ a <> entry /\ a <> rbrk.

(* states before `run`: the initial state after any number of `break <addr>` *)
Inductive Pre : st -> Prop :=
| Pre_init : Pre (init_launched code tr entry off)
| Pre_add : forall s a, Pre s -> GoodA a -> Pre (fst (add_at_addr code has_place s a)).

(* states of the running program reached by run / break / break remove / continue, while the
   commands stop at breakpoints *)
Inductive Run : st -> Prop :=
| Run_start : forall s s' pc n, Pre s ->
    continue_execution code tr rbrk off has_place exit_code s = Ok (s', CStop (StopBp pc n)) -> Run s'
| Run_add : forall s a, Run s -> GoodA a -> Run (fst (add_at_addr code has_place s a))
| Run_remove : forall s a, Run s ->
    Run (let x := remove_by_addr (Reloc a) (s_reg s) (s_proc s) in with_rp s (fst (fst x)) (snd (fst x)))
| Run_cont : forall s s' pc n, Run s ->
    continue_execution code tr rbrk off has_place exit_code s = Ok (s', CStop (StopBp pc n)) -> Run s'.

Lemma pre_prestart : forall s, Pre s -> PreStart s.
Proof.
  induction 1 as [|s a HP IH (Hm & Hp & Hr & He & Hb)]; [apply prestart_init|].
  now apply prestart_add.
Qed.

Lemma exit_seen_not_bp : forall r pc n, exit_seen r -> r <> CStop (StopBp pc n).
Proof. intros r pc n [->| ->]; discriminate. Qed.

(* every state of such a history is a Prompt: C01_continue / add_prompt / remove_prompt /
   mem_is_patch_prompt / C02_transparent_prompt apply at every step of the history *)
Theorem run_is_prompt : no_stutter -> (0 < length tr)%nat -> forall s, Run s ->
  exists i m, Prompt s i m /\ r_dis (s_reg s) = [].
Proof.
  intros NS Hlen s HR. induction HR as [s s' pc n HP E|s a HR IH G|s a HR IH|s s' pc n HR IH E].
  - pose proof (C01_run NS Hlen s (pre_prestart s HP)) as C. cbn zeta in C.
    destruct (next_hit tr [entry] 0) as [e|].
    + destruct (next_hit tr (pending_addrs off s) (S e)) as [j|].
      * destruct C as (m' & b & s'' & E' & P & Hd & _). rewrite E in E'. inversion E'; subst. eauto.
      * destruct C as (s'' & r & E' & Hx & _). rewrite E in E'. inversion E'; subst.
        exfalso. eapply exit_seen_not_bp; eauto.
    + destruct C as (s'' & r & E' & Hx & _). rewrite E in E'. inversion E'; subst.
      exfalso. eapply exit_seen_not_bp; eauto.
  - destruct IH as (i & m & P & Hd). destruct G as (Hm & Hp & Hr & _).
    destruct (readable_some a Hr) as [c Hc].
    destruct (add_prompt s i m a c P Hm Hp Hr Hc) as (s' & m' & E & P' & _ & _ & Hd').
    rewrite E. cbn [fst]. exists i, m'. split; [exact P'|congruence].
  - destruct IH as (i & m & P & Hd).
    destruct (remove_prompt s i m a P Hd) as (m' & v & _ & P' & _ & Hd' & _).
    exists i, m'. split; [exact P'|exact Hd'].
  - destruct IH as (i & m & P & Hd).
    pose proof (C01_continue NS s i m P) as C. cbn zeta in C.
    destruct (next_hit tr (uaddrs (r_bps (s_reg s))) (S i)) as [j|].
    + destruct C as (m' & b & s'' & E' & _ & _ & _ & P' & _ & Hd'). rewrite E in E'. inversion E'; subst.
      exists j, m'. split; [exact P'|congruence].
    + destruct C as (s'' & r & E' & Hx & _). rewrite E in E'. inversion E'; subst.
      exfalso. eapply exit_seen_not_bp; eauto.
Qed.

End Startup.

(* ---------- the instruction that ends the process (repair c0ceee6) ---------- *)
(* continuing from a prompt on the last instruction of the trace (with or without a breakpoint on
   it) reports the exit with the program's code and leaves the registry / process as a normal exit *)
Theorem C02_continue_from_last : no_stutter -> forall s i m, Prompt s i m -> S i = length tr ->
  exists s' r, continue_execution code tr rbrk off has_place exit_code s = Ok (s', r) /\
               exit_seen r /\ ExitedOK s'.
Proof.
  intros NS s i m P Hl. pose proof (C01_continue NS s i m P) as C. cbn zeta in C.
  unfold next_hit in C. rewrite Hl, skipn_all in C. cbn [next_hit_from] in C. exact C.
Qed.

(* stepi on the last instruction: Err(ProcessExit(exit_code)) after the exit handling *)
Theorem C02_stepi_last : forall s i m, Prompt s i m -> S i = length tr ->
  exists s', stepi code tr off exit_code s = (s', OExit exit_code) /\ ExitedOK s'.
Proof.
  intros s i m [Hst Hp Hi W St] Hl. unfold stepi. rewrite Hst, Hp. cbn [p_pc proc_at].
  destruct (find_bp (pc_at i) (r_bps (s_reg s))) as [b|] eqn:Eb.
  - destruct (find_bp_some _ _ _ Eb) as [Hb Hab]. destruct (wf_bp _ _ W b Hb) as (Hen & _).
    unfold step_over_breakpoint. cbn [p_pc proc_at]. rewrite Eb, Hen.
    destruct (step_over_core_exit _ m i b W Hl Hb Hab) as (m1 & Ec). rewrite Ec. cbn [bind fst snd].
    eexists. split; [reflexivity|apply exit_by_step_ok].
  - pose proof (find_bp_none _ _ Eb) as Hn. unfold fuel0. cbn [BpMachine.single_step].
    rewrite (cpu_step_exec _ _ _ W Hi Hn). cbn [fst snd].
    replace (p_alive (proc_at m (S i))) with false
      by (symmetry; unfold proc_at; cbn [p_alive]; apply Nat.ltb_ge; lia).
    cbn [fst snd]. rewrite Hl. eexists. split; [reflexivity|apply exit_by_step_ok].
Qed.

End Proofs.


(* Drop of a debugger whose launched program was never started (or was re-installed by a restart and
   not yet run): SIGKILL, then waitpid until the child has really terminated (repair 74c6c3e): nothing
   is left, the registry is untouched *)
Theorem C11_drop_never_started : forall off s, s_status s = Unload -> s_detached s = false -> s_external s = false ->
  s_fate (drop off s) = FReaped /\ s_reg (drop off s) = s_reg s.
Proof. intros off s Hs Hd He. unfold drop. rewrite Hd, He, Hs. cbn. auto. Qed.

Example C11_drop_init : forall code tr entry off,
  s_fate (drop off (init_launched code tr entry off)) = FReaped.
Proof. reflexivity. Qed.

(* ---------- decidable forms of the hypotheses ---------- *)
Fixpoint no_stutterb (l : list N) : bool :=
  match l with
  | a :: t => match t with b :: _ => negb (b =? a) | [] => true end && no_stutterb t
  | [] => true
  end.

Lemma no_stutterb_sound : forall tr, no_stutterb tr = true -> no_stutter tr.
Proof.
  unfold no_stutter, pc_at. induction tr as [|a t IH]; intros H i Hi; cbn [length] in Hi; [lia|].
  cbn [no_stutterb] in H. apply andb_true_iff in H. destruct H as [H1 H2].
  destruct i as [|i].
  - destruct t as [|b t']; cbn [length] in Hi; [lia|]. cbn [nth]. apply negb_true_iff, N.eqb_neq in H1. exact H1.
  - cbn [nth]. apply IH; [exact H2|lia].
Qed.

Definition trace_okb (code : mem) (tr : list N) : bool :=
  forallb (fun a => match code a with Some b => negb (b =? INT3) | None => false end) tr.

Lemma trace_okb_sound : forall code tr, trace_okb code tr = true ->
  (forall a, In a tr -> code a <> Some INT3) /\ (forall a, In a tr -> code a <> None).
Proof.
  intros code tr H. unfold trace_okb in H. rewrite forallb_forall in H. split; intros a Ha E; specialize (H a Ha); rewrite E in H.
  - rewrite N.eqb_refl in H. discriminate.
  - discriminate.
Qed.

(* ---------- witnesses: where the faithful model violates the properties ---------- *)
Definition nop : mem := fun _ => Some 144.
Definition wrun (tr : list N) (ops : list op) : st * list outcome :=
  run_ops nop tr 99 0 (fun _ => true) 7%Z (init_launched nop tr 10 0) ops.
Definition wspec (tr : list N) (ops : list op) : list outcome := abs_run tr 10 7%Z abs_init ops.
Definition tr_w : list N := [10; 20; 30; 20; 30; 40; 50].

(* decidable form of "the entry point is executed at most once" *)
Definition entry_onceb (entry : N) (tr : list N) : bool :=
  Nat.leb (length (filter (N.eqb entry) tr)) 1.

Lemma count_two : forall (e : N) (l : list N) k k', (k < k')%nat -> (k' < length l)%nat ->
  nth k l 0 = e -> nth k' l 0 = e -> (2 <= length (filter (N.eqb e) l))%nat.
Proof.
  intros e l. induction l as [|a t IH]; intros k k' Hlt Hk' E1 E2; cbn [length] in Hk'; [lia|].
  destruct k' as [|k']; [lia|]. destruct k as [|k].
  - cbn [nth] in E1, E2. subst a. cbn [filter]. rewrite N.eqb_refl. cbn [length].
    assert (In e t). { rewrite <- E2. apply nth_In. lia. }
    assert (In e (filter (N.eqb e) t)). { apply filter_In. split; [assumption|apply N.eqb_refl]. }
    destruct (filter (N.eqb e) t); [contradiction|cbn [length]; lia].
  - cbn [nth] in E1, E2. cbn [filter]. assert (2 <= length (filter (N.eqb e) t))%nat by (eapply (IH k k'); eauto; lia).
    destruct (e =? a); cbn [length]; lia.
Qed.

Lemma entry_onceb_sound : forall entry tr, entry_onceb entry tr = true ->
  forall k k', (k < length tr)%nat -> (k' < length tr)%nat -> pc_at tr k = entry -> pc_at tr k' = entry -> k = k'.
Proof.
  intros entry tr H k k' Hk Hk' E1 E2. unfold entry_onceb in H. apply Nat.leb_le in H. unfold pc_at in *.
  destruct (Nat.lt_trichotomy k k') as [Hlt|[Heq|Hgt]]; [|exact Heq|].
  - pose proof (count_two entry tr k k' Hlt Hk' E1 E2). lia.
  - pose proof (count_two entry tr k' k Hgt Hk E2 E1). lia.
Qed.

(* the start-up theorem applies to the witness machine: its conclusion computed by the theorem
   agrees with what vm_compute gives for the model *)
Example startup_hypotheses_nonvacuous :
  entry_onceb 10 tr_w = true /\ trace_okb nop tr_w = true /\ no_stutterb tr_w = true /\
  next_hit tr_w [10] 0 = Some 0%nat /\ next_hit tr_w [20] 1 = Some 1%nat /\
  snd (wrun tr_w [Add 20; Continue]) = [OAdded 1; OStop (StopBp 20 1)].
Proof. vm_compute. auto 10. Qed.

Example hypotheses_nonvacuous : trace_okb nop tr_w = true /\ no_stutterb tr_w = true.
Proof. vm_compute. auto. Qed.

(* the model and the ideal debugger agree on an ordinary session (loop arrival twice, removal,
   addition, exit, restart with the surviving breakpoint) *)
Example C01_session_agrees :
  let ops := [Add 20; Continue; Continue; Add 30; RemoveAddr 20; Continue; Continue; Restart; Continue] in
  only_stops (snd (wrun tr_w ops)) = only_stops (wspec tr_w ops) /\
  only_stops (snd (wrun tr_w ops)) = [StopBp 20 1; StopBp 20 1; StopBp 30 2; StopExit 7; StopBp 30 2; StopBp 30 2].
Proof. vm_compute. auto. Qed.

(* `break remove 0` removes the (number 0) entry-point breakpoint; the next run never arms any
   user breakpoint and runs to the exit *)
Theorem C01_remove_zero_refuted : exists tr ops,
  only_stops (snd (wrun tr ops)) = [StopExit 7] /\ only_stops (wspec tr ops) = [StopBp 30 1].
Proof. exists tr_w, [Add 30; RemoveNum 0; Continue]. vm_compute. auto. Qed.

(* after the debuggee has exited, user breakpoints are kept under Address::Global keys, but
   `break remove <addr>` looks up Address::Relocated: nothing is removed and the breakpoint
   stops the next run *)
Theorem C01_removed_silent_refuted : exists tr ops,
  snd (wrun tr ops) = [OAdded 1; OStop (StopBp 50 1); OStop (StopExit 7); ORemoved None; OStop (StopBp 50 1)].
Proof. exists [10; 20; 50; 60], [Add 50; Continue; Continue; RemoveAddr 50; Restart]. vm_compute. reflexivity. Qed.

(* an instruction that jumps to itself: single_step repeats while pc == initial pc, so the second
   arrival is never reported (and `jmp .` never returns) *)
Theorem C01_self_loop_refuted : exists tr ops,
  only_stops (snd (wrun tr ops)) = [StopBp 20 1; StopExit 7] /\
  only_stops (wspec tr ops) = [StopBp 20 1; StopBp 20 1].
Proof. exists [10; 20; 20; 30; 40], [Add 20; Continue; Continue]. vm_compute. auto. Qed.

(* stepping (stepi, or continue from a breakpoint) over the instruction that terminates the
   process reports the exit with the program's code (was a panic before /repo c0ceee6); the user
   breakpoint survives as an uninit breakpoint with its number, as after a normal exit *)
Example C02_exit_step_example :
  let x := wrun [10; 20; 40; 50] [Add 40; Continue; StepI; StepI] in
  snd x = [OAdded 1; OStop (StopBp 40 1); ODone; OExit 7] /\
  s_status (fst x) = Exited /\ s_fate (fst x) = FReaped /\ snapshot (s_reg (fst x)) = [(1, Glob 40)] /\
  snd (wrun [10; 20; 40] [Add 40; Continue; Continue]) = [OAdded 1; OStop (StopBp 40 1); OExit 7].
Proof. vm_compute. auto. Qed.

(* C02_error_paths: an early `?` return between the installation of the temporaries and their
   removal leaves them behind: the byte stays 0xCC, the registry keeps a Temporary; from then on
   the user's breakpoints are stepped over silently (tracer.rs:432) and `continue` stops at the
   stale temporary *)
Theorem C02_error_paths_refuted : exists tr ops,
  let s := fst (wrun tr ops) in
  p_mem (s_proc s) 30 = Some INT3 /\ map b_ty (r_bps (s_reg s)) = [TTemp; TLinker; TUser; TEntry] /\
  only_stops (snd (wrun tr (ops ++ [Continue; Continue; Continue]))) =
     [StopBp 20 1; StopTemp 30; StopTemp 30; StopExit 7] /\
  only_stops (wspec tr (ops ++ [Continue; Continue; Continue])) = [StopBp 20 1; StopBp 20 1; StopExit 7].
Proof. exists tr_w, [Add 20; Continue; StepTemps [30; 50] (Some 1%nat)]. vm_compute. auto. Qed.

(* without an injected failure the same step leaves no temporary and no patched byte *)
Example C02_step_clean_example :
  let s := fst (wrun tr_w [Add 20; Continue; StepTemps [30; 50] None]) in
  p_mem (s_proc s) 30 = Some 144 /\ p_mem (s_proc s) 50 = Some 144 /\
  map b_ty (r_bps (s_reg s)) = [TLinker; TUser; TEntry].
Proof. vm_compute. auto. Qed.

(* detach() of a LAUNCHED debuggee (DAP `disconnect` without terminateDebuggee) releases it and
   makes Drop a no-op: the process the debugger started keeps running after quit *)
Theorem C11_no_orphan_refuted : exists tr ops,
  let s := fst (wrun tr ops) in s_external s = false /\ s_fate s = FReleased.
Proof. exists tr_w, [Add 20; Continue; Detach; Quit]. vm_compute. auto. Qed.

(* restart keeps numbers and places, and the breakpoints hit again at the same places *)
Example C11_restart_keeps_example :
  snapshot (s_reg (fst (wrun tr_w [Add 20; Add 30; Continue; Restart]))) = [(1, Reloc 20); (2, Reloc 30)] /\
  only_stops (snd (wrun tr_w [Add 20; Add 30; Continue; Restart; Continue])) = [StopBp 20 1; StopBp 20 1; StopBp 30 2].
Proof. vm_compute. auto. Qed.

(* numbering: a second `break` at an address that already has a breakpoint silently replaces it;
   the first number disappears from the list *)
Example second_break_replaces :
  snapshot (s_reg (fst (wrun tr_w [Add 20; Continue; Add 20; Add 30]))) = [(2, Reloc 20); (3, Reloc 30)].
Proof. vm_compute. reflexivity. Qed.

(* after an exit the same place can be listed twice (Global key from the previous run, Relocated
   key from the new `break`); at the next entry point one replaces the other (HashMap order) *)
Example double_listing_after_exit :
  snapshot (s_reg (fst (wrun [10; 20; 50; 60] [Add 50; Continue; Continue; Add 50]))) = [(1, Glob 50); (2, Reloc 50)].
Proof. vm_compute. reflexivity. Qed.

(* the checkers accept what the model / ideal debugger produce *)
Example stop_check_example :
  stop_check (mk_stop_case tr_w 10 99 7%Z [Add 20; Continue; Continue; RemoveAddr 20; Continue]
                           [StopBp 20 1; StopBp 20 1; StopExit 7]) = 0.
Proof. vm_compute. reflexivity. Qed.

Example reg_check_example :
  reg_check (mk_reg_case (map (fun k => (N.of_nat k, 144)) (seq 0 120)) [10; 20; 30; 40] 10 99 0
               [Add 20; Continue; Add 30; RemoveAddr 20]
               [mk_reg_obs [(1, Reloc 20)] [];
                mk_reg_obs [(1, Reloc 20)] [(20, true, 144); (30, false, 144); (10, true, 144); (99, true, 144)];
                mk_reg_obs [(1, Reloc 20); (2, Reloc 30)] [(20, true, 144); (30, true, 144)];
                mk_reg_obs [(2, Reloc 30)] [(20, false, 144); (30, true, 144)]]) = 0.
Proof. vm_compute. reflexivity. Qed.

(* a patched byte left behind after a removal is a specification violation (verdict 2) *)
Example reg_check_detects_leak :
  reg_check (mk_reg_case (map (fun k => (N.of_nat k, 144)) (seq 0 120)) [10; 20; 30; 40] 10 99 0
               [Add 20; Continue; RemoveAddr 20]
               [mk_reg_obs [(1, Reloc 20)] [];
                mk_reg_obs [(1, Reloc 20)] [(20, true, 144)];
                mk_reg_obs [] [(20, true, 144)]]) = 2.
Proof. vm_compute. reflexivity. Qed.
