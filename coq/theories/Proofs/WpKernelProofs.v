(* The kernel accepts every debug-register sync the (repaired) watchpoint machine asks for;
   the pre-repair disable does not have that property.  Builds on Proofs/DrProofs.v and
   Proofs/WpProofs.v without changing them. *)
From BS Require Import Model.Base Gen.Dr Model.Dr Model.Wp Spec.DrArch Proofs.DrProofs Proofs.WpProofs.
From BS Require Import Model.WpKernel.
From Coq Require Import Lia.
Open Scope N_scope.

Lemma klen_dec_is_len_dec s : klen_dec s = len_dec s.
Proof. reflexivity. Qed.

(* ---------- bit level: the LEN field of DR7 under the debugger's own operations
   (style of Proofs/DrProofs.v: exhaustive over the four slots, `bits` / `split_bits`) ---------- *)
Lemma size_bits_set_dr_on d r r' :
  valid_r r -> valid_r r' -> size_bits (set_dr d r false true) r' = size_bits d r'.
Proof.
  intros Hr Hr'. cases_r Hr; cases_r Hr'.
  all: bits; try reflexivity. all: split_bits.
Qed.

Lemma size_bits_set_dr_off d r r' :
  valid_r r -> valid_r r' -> size_bits (set_dr d r false false) r' = size_bits d r'.
Proof.
  intros Hr Hr'. cases_r Hr; cases_r Hr'.
  all: bits; try reflexivity. all: split_bits.
Qed.

Lemma size_bits_configure_other d r r' c sz :
  valid_r r -> valid_r r' -> r <> r' -> size_bits (configure_bp d r c sz) r' = size_bits d r'.
Proof.
  intros Hr Hr' Hne. cases_r Hr; cases_r Hr'; try congruence.
  all: bits; try reflexivity. all: split_bits.
Qed.

Lemma size_bits_configure_same d r c sz :
  valid_r r -> valid_size sz -> size_bits (configure_bp d r c sz) r = sz.
Proof.
  intros Hr Hs. cases_r Hr; cases_r Hs.
  all: bits; try reflexivity. all: split_bits.
Qed.

(* HardwareBreakpoint::enable leaves the LEN field of every other slot alone *)
Lemma enable_size_other d7 r r' c sz :
  valid_r r -> valid_r r' -> r <> r' ->
  size_bits (set_dr (configure_bp d7 r c sz) r false true) r' = size_bits d7 r'.
Proof.
  intros Hr Hr' Hne. rewrite size_bits_set_dr_on by assumption.
  apply size_bits_configure_other; assumption.
Qed.

(* the repaired HardwareBreakpoint::disable: LEN of the freed slot is "1 byte" ... *)
Lemma disable_size_same d7 r : valid_r r -> size_bits (disabled_d7 d7 r) r = SIZE_Bytes1.
Proof.
  intros Hr. unfold disabled_d7. apply size_bits_configure_same; [exact Hr | left; reflexivity].
Qed.

(* ... and the LEN field of every other slot is untouched *)
Lemma disable_size_other d7 r r' :
  valid_r r -> valid_r r' -> r <> r' -> size_bits (disabled_d7 d7 r) r' = size_bits d7 r'.
Proof.
  intros Hr Hr' Hne. unfold disabled_d7. rewrite size_bits_configure_other by assumption.
  apply size_bits_set_dr_off; assumption.
Qed.

(* ---------- small facts ---------- *)
Lemma addr_ok_0 len : addr_ok 0 len = true.
Proof. unfold addr_ok. destruct len; reflexivity. Qed.

Lemma addr_ok_1 a : addr_ok a 1 = true.
Proof. unfold addr_ok. rewrite N.mod_1_r. reflexivity. Qed.

Lemma nth_set_nth_zero l i : nth i (set_nth l i 0) 0 = 0.
Proof. revert i; induction l as [|x t IH]; intros [|i]; cbn; auto. Qed.

Lemma nth_set_nth_other l i j v : i <> j -> nth j (set_nth l i v) 0 = nth j l 0.
Proof.
  revert i j; induction l as [|x t IH]; intros [|i] [|j] H; cbn; try congruence; try reflexivity.
  apply IH; congruence.
Qed.

(* ---------- the per-image kernel invariant ---------- *)
(* a disabled slot is neutral (address 0, LEN = 1 byte); an enabled slot's address is
   aligned to its length *)
Definition slot_k (h : hw) (r : N) : Prop :=
  match slot_view h r with
  | None => slot_addr h r = 0 /\ size_bits (h_dr7 h) r = SIZE_Bytes1
  | Some _ => addr_ok (slot_addr h r) (klen h r) = true
  end.
Definition hw_k (h : hw) : Prop := forall r, valid_r r -> slot_k h r.

Record KInv (s : st) : Prop := {
  k_inv : Inv s;
  k_thr : forall t h, In (t, h) (threads s) -> hw_k h;
  k_last : match last_seen s with Some h => hw_k h | None => True end
}.

Lemma view_some h r a c sz :
  slot_view h r = Some (a, c, sz) -> slot_addr h r = a /\ size_bits (h_dr7 h) r = sz.
Proof.
  unfold slot_view, slot_addr. destruct (dr_enabled (h_dr7 h) r false); [|discriminate].
  intros H; injection H as Ea Ec Es. split; assumption.
Qed.

Lemma slot_k_some h r a c sz :
  slot_view h r = Some (a, c, sz) -> (slot_k h r <-> addr_ok a (klen_dec sz) = true).
Proof.
  intros H. destruct (view_some _ _ _ _ _ H) as [Ea Es]. unfold slot_k, klen. rewrite H, Ea, Es. reflexivity.
Qed.

Lemma slot_k_none h r :
  slot_view h r = None -> (slot_k h r <-> slot_addr h r = 0 /\ size_bits (h_dr7 h) r = SIZE_Bytes1).
Proof. intros H. unfold slot_k. rewrite H. reflexivity. Qed.

(* slot_k moves between two images with the same view of the slot, provided they agree on
   address and LEN when the slot is disabled (the view says nothing then) *)
Lemma slot_k_transfer h1 h2 r :
  slot_view h1 r = slot_view h2 r -> slot_k h2 r ->
  (slot_view h2 r = None ->
   slot_addr h1 r = slot_addr h2 r /\ size_bits (h_dr7 h1) r = size_bits (h_dr7 h2) r) ->
  slot_k h1 r.
Proof.
  intros Hv K Hn. remember (slot_view h2 r) as v2 eqn:E2. symmetry in E2.
  destruct v2 as [[[a c] sz]|].
  - apply (proj2 (slot_k_some h1 r a c sz Hv)). apply (proj1 (slot_k_some h2 r a c sz E2)). exact K.
  - apply (proj2 (slot_k_none h1 r Hv)). destruct (Hn eq_refl) as [Ea Es]. rewrite Ea, Es.
    apply (proj1 (slot_k_none h2 r E2)). exact K.
Qed.

Lemma hw_zero_k : hw_k hw_zero.
Proof. intros r Hr; cases_r Hr; vm_compute; split; reflexivity. Qed.

(* ---------- when a sync is accepted ---------- *)
Lemma slot_accepted_intro old new r :
  slot_k old r -> slot_k new r ->
  (slot_view old r = None \/ slot_view new r = None \/ slot_view new r = slot_view old r) ->
  slot_accepted old new r = true.
Proof.
  intros Ko Kn H. unfold slot_accepted.
  remember (slot_view new r) as vn eqn:En. symmetry in En. destruct vn as [[[a c] sz]|].
  - destruct (view_some _ _ _ _ _ En) as [Ea Es].
    apply (proj1 (slot_k_some new r a c sz En)) in Kn.
    unfold klen. rewrite Ea, Es, Kn, andb_true_r.
    remember (slot_view old r) as vo eqn:Eo. symmetry in Eo. destruct vo as [[[a' c'] sz']|].
    + destruct H as [H|[H|H]]; try discriminate. injection H as Ha Hc Hs. subst a' c' sz'.
      destruct (view_some _ _ _ _ _ Eo) as [_ Es']. rewrite Es'. exact Kn.
    + apply (proj1 (slot_k_none old r Eo)) in Ko. destruct Ko as [_ Ks]. rewrite Ks.
      change (klen_dec SIZE_Bytes1) with 1. apply addr_ok_1.
  - apply (proj1 (slot_k_none new r En)) in Kn. destruct Kn as [Ka _].
    rewrite Ka, !addr_ok_0. reflexivity.
Qed.

Lemma sync_accepted_intro old new :
  hw_k old -> hw_k new ->
  (forall r, valid_r r ->
     slot_view old r = None \/ slot_view new r = None \/ slot_view new r = slot_view old r) ->
  sync_accepted old new = true.
Proof.
  intros Ko Kn H.
  assert (A : forall r, valid_r r -> slot_accepted old new r = true).
  { intros r Hr. apply slot_accepted_intro; auto. }
  unfold sync_accepted. cbn [forallb].
  rewrite (A 0), (A 1), (A 2), (A 3) by (unfold valid_r; auto 6). reflexivity.
Qed.

(* ---------- the two images the debugger builds ---------- *)
Definition enabled_hw (m : hw) (r a c sz : N) : hw :=
  mk_hw (set_nth (h_regs m) (N.to_nat r) a) (h_dr6 m) (set_dr (configure_bp (h_dr7 m) r c sz) r false true).
Definition disabled_hw (m : hw) (r : N) : hw :=
  mk_hw (set_nth (h_regs m) (N.to_nat r) 0) (h_dr6 m) (disabled_d7 (h_dr7 m) r).

Lemma enabled_view_same m r a c sz :
  valid_r r -> valid_cond c -> valid_size sz -> length (h_regs m) = 4%nat ->
  slot_view (enabled_hw m r a c sz) r = Some (a, c, sz).
Proof. intros. unfold enabled_hw. apply enable_view_same; assumption. Qed.

Lemma enabled_view_other m r r' a c sz :
  valid_r r -> valid_r r' -> r <> r' -> valid_cond c -> valid_size sz -> length (h_regs m) = 4%nat ->
  slot_view (enabled_hw m r a c sz) r' = slot_view m r'.
Proof.
  destruct m as [regs d6 d7]. unfold enabled_hw. cbn [h_regs h_dr6 h_dr7]. intros.
  apply enable_view_other; assumption.
Qed.

Lemma disabled_view_same m r : valid_r r -> slot_view (disabled_hw m r) r = None.
Proof. intros. unfold disabled_hw. apply disable_view_same; assumption. Qed.

Lemma disabled_view_other m r r' :
  valid_r r -> valid_r r' -> r <> r' -> length (h_regs m) = 4%nat ->
  slot_view (disabled_hw m r) r' = slot_view m r'.
Proof.
  destruct m as [regs d6 d7]. unfold disabled_hw. cbn [h_regs h_dr6 h_dr7]. intros.
  apply disable_view_other; assumption.
Qed.

Lemma to_nat_neq r r' : r <> r' -> N.to_nat r <> N.to_nat r'.
Proof. intros H E. apply H, N2Nat.inj, E. Qed.

Lemma enabled_hw_k m r a c sz :
  length (h_regs m) = 4%nat -> hw_k m -> valid_r r -> valid_cond c -> valid_size sz ->
  addr_ok a (klen_dec sz) = true -> hw_k (enabled_hw m r a c sz).
Proof.
  intros Hl Km Hr Hc Hs Ha r' Hr'. destruct (N.eq_dec r r') as [<-|Hne].
  - apply (proj2 (slot_k_some _ r a c sz (enabled_view_same m r a c sz Hr Hc Hs Hl))). exact Ha.
  - apply (slot_k_transfer _ m r').
    + apply enabled_view_other; assumption.
    + apply Km, Hr'.
    + intros _. split.
      * unfold slot_addr, enabled_hw; cbn [h_regs]. apply nth_set_nth_other, to_nat_neq, Hne.
      * unfold enabled_hw; cbn [h_dr7]. apply enable_size_other; assumption.
Qed.

Lemma disabled_hw_k m r :
  length (h_regs m) = 4%nat -> hw_k m -> valid_r r -> hw_k (disabled_hw m r).
Proof.
  intros Hl Km Hr r' Hr'. destruct (N.eq_dec r r') as [<-|Hne].
  - apply (proj2 (slot_k_none _ r (disabled_view_same m r Hr))). split.
    + unfold slot_addr, disabled_hw; cbn [h_regs]. apply nth_set_nth_zero.
    + unfold disabled_hw; cbn [h_dr7]. apply disable_size_same, Hr.
  - apply (slot_k_transfer _ m r').
    + apply disabled_view_other; assumption.
    + apply Km, Hr'.
    + intros _. split.
      * unfold slot_addr, disabled_hw; cbn [h_regs]. apply nth_set_nth_other, to_nat_neq, Hne.
      * unfold disabled_hw; cbn [h_dr7]. apply disable_size_other; assumption.
Qed.

(* a thread whose image t shows the same slots as the main image m accepts the image
   built from m by enable (into a slot free in m) ... *)
Lemma enabled_accepted m t r a c sz :
  length (h_regs m) = 4%nat -> hw_k m -> hw_k t -> same_view t m ->
  valid_r r -> slot_view m r = None -> valid_cond c -> valid_size sz ->
  addr_ok a (klen_dec sz) = true ->
  sync_accepted t (enabled_hw m r a c sz) = true.
Proof.
  intros Hl Km Kt Sv Hr Hn Hc Hs Ha.
  apply sync_accepted_intro; [exact Kt | apply enabled_hw_k; assumption |].
  intros r' Hr'. destruct (N.eq_dec r r') as [<-|Hne].
  - left. rewrite (Sv r Hr). exact Hn.
  - right; right. rewrite enabled_view_other by assumption. symmetry; apply Sv, Hr'.
Qed.

(* ... and by the repaired disable *)
Lemma disabled_accepted m t r :
  length (h_regs m) = 4%nat -> hw_k m -> hw_k t -> same_view t m -> valid_r r ->
  sync_accepted t (disabled_hw m r) = true.
Proof.
  intros Hl Km Kt Sv Hr.
  apply sync_accepted_intro; [exact Kt | apply disabled_hw_k; assumption |].
  intros r' Hr'. destruct (N.eq_dec r r') as [<-|Hne].
  - right; left. apply disabled_view_same, Hr.
  - right; right. rewrite disabled_view_other by assumption. symmetry; apply Sv, Hr'.
Qed.

(* ---------- state level ---------- *)
(* the part of KInv that only depends on the thread list *)
Definition thr_ok (s : st) : Prop :=
  threads s <> [] /\
  forall t h, In (t, h) (threads s) -> hw_ok h /\ same_view h (main_hw s) /\ hw_k h.

Lemma kinv_thr_ok s : KInv s -> thr_ok s.
Proof.
  intros K. split; [apply (i_main _ (k_inv _ K))|]. intros t h Hin.
  destruct (i_thr _ (k_inv _ K) t h Hin) as [A B]. split; [exact A|]. split; [exact B|].
  apply (k_thr _ K t h Hin).
Qed.

Lemma thr_ok_threads s s' : threads s' = threads s -> thr_ok s -> thr_ok s'.
Proof. intros E T. unfold thr_ok, main_hw in *. rewrite E. exact T. Qed.

Lemma thr_ok_main s : thr_ok s -> hw_ok (main_hw s) /\ hw_k (main_hw s).
Proof.
  intros [Hne H].
  assert (Hin : exists t0, In (t0, main_hw s) (threads s)).
  { unfold main_hw. destruct (threads s) as [|[t0 h0] rest]; [congruence|]. exists t0. left; reflexivity. }
  destruct Hin as [t0 Hin]. destruct (H _ _ Hin) as [A [_ B]]. split; assumption.
Qed.

Lemma hw_enable_eq s a sz c r :
  free_register (h_dr7 (main_hw s)) = Some r ->
  hw_enable s a sz c = Ok (sync_all s (enabled_hw (main_hw s) r a c sz), enabled_hw (main_hw s) r a c sz, r).
Proof. intros E. unfold hw_enable. rewrite E. reflexivity. Qed.

Lemma hw_enable_form s a sz c s1 h r :
  hw_enable s a sz c = Ok (s1, h, r) ->
  valid_r r /\ slot_view (main_hw s) r = None /\ h = enabled_hw (main_hw s) r a c sz /\ s1 = sync_all s h.
Proof.
  intros H. destruct (free_register (h_dr7 (main_hw s))) as [r0|] eqn:Ef.
  - rewrite (hw_enable_eq s a sz c r0 Ef) in H.
    destruct (free_register_spec _ _ Ef) as [Hr Hdis].
    assert (r0 = r) by congruence. subst r0.
    split; [exact Hr|]. split; [unfold slot_view; rewrite Hdis; reflexivity|]. split; congruence.
  - unfold hw_enable in H. rewrite Ef in H. discriminate.
Qed.

Lemma hw_disable_eq s r :
  hw_disable s (Some r) = Ok (sync_all s (disabled_hw (main_hw s) r), disabled_hw (main_hw s) r).
Proof. reflexivity. Qed.

Lemma enable_state_accepted s a sz c s1 h r :
  thr_ok s -> valid_size sz -> valid_cond c -> addr_ok a (klen_dec sz) = true ->
  hw_enable s a sz c = Ok (s1, h, r) ->
  hw_k h /\ Forall (fun th => sync_accepted (snd th) h = true) (threads s).
Proof.
  intros T Hs Hc Ha He. destruct (hw_enable_form _ _ _ _ _ _ _ He) as [Hr [Hn [-> _]]].
  destruct (thr_ok_main s T) as [[Hl _] Km].
  split; [apply enabled_hw_k; assumption|].
  apply Forall_forall. intros [t ht] Hin. cbn [snd].
  destruct (proj2 T t ht Hin) as [_ [Sv Kt]]. apply enabled_accepted; assumption.
Qed.

Lemma disable_state_accepted s r :
  thr_ok s -> valid_r r ->
  hw_k (disabled_hw (main_hw s) r) /\
  Forall (fun th => sync_accepted (snd th) (disabled_hw (main_hw s) r) = true) (threads s).
Proof.
  intros T Hr. destruct (thr_ok_main s T) as [[Hl _] Km].
  split; [apply disabled_hw_k; assumption|].
  apply Forall_forall. intros [t ht] Hin. cbn [snd].
  destruct (proj2 T t ht Hin) as [_ [Sv Kt]]. apply disabled_accepted; assumption.
Qed.

(* ---------- what each command does to threads / last_seen, in terms of cmd_image ---------- *)
Definition synced (s s' : st) (h : hw) : Prop :=
  threads s' = map (fun th => (fst th, h)) (threads s) /\ last_seen s' = Some h.
Definition untouched (s s' : st) : Prop := threads s' = threads s /\ last_seen s' = last_seen s.

Lemma add_addr_image s a sz c :
  match cmd_image s (WAddAddr a sz c) with
  | Some h => exists s', add_addr s a sz c = Ok s' /\ synced s s' h
  | None => forall s', add_addr s a sz c <> Ok s'
  end.
Proof.
  cbn [cmd_image]. unfold add_addr, enable_image.
  destruct (already_observed s a); [intros s'; discriminate|].
  destruct (hw_enable s a sz c) as [[[s1 h] r]| | |] eqn:He; cbn [bind]; try (intros s'; discriminate).
  destruct (hw_enable_form _ _ _ _ _ _ _ He) as [_ [_ [_ ->]]].
  eexists. split; [reflexivity|]. split; reflexivity.
Qed.

Lemma add_expr_image s a sz c e :
  match cmd_image s (WAddExpr a sz c e) with
  | Some h => exists s', add_expr s a sz c e = Ok s' /\ synced s s' h
  | None => forall s', add_expr s a sz c e <> Ok s'
  end.
Proof.
  cbn [cmd_image]. unfold add_expr, enable_image.
  destruct (already_observed s a); [intros s'; discriminate|].
  destruct (add_expr_prepare_shape s e) as [bc [cs Hshape]].
  destruct (add_expr_prepare s e) as [s0 companion]. cbn [fst] in *.
  destruct (hw_enable s0 a sz c) as [[[s1 h] r]| | |] eqn:He; try (intros s'; discriminate).
  destruct (hw_enable_form _ _ _ _ _ _ _ He) as [_ [_ [_ ->]]]. subst s0.
  eexists. split; [reflexivity|]. split; reflexivity.
Qed.

Lemma remove_at_image s i :
  match remove_image s i with
  | Some h => exists s', remove_at s i = Ok s' /\ synced s s' h
  | None => forall s', remove_at s i <> Ok s'
  end.
Proof.
  unfold remove_image, remove_at. cbv zeta.
  destruct (nth_error (wps s) i) as [w|]; [|intros s'; discriminate].
  destruct (w_reg w) as [r|]; [|intros s'; cbn; discriminate].
  rewrite hw_disable_eq. cbn [bind].
  destruct (w_companion w) as [b|].
  - match goal with |- context [decrease_rc ?x ?y ?z] => destruct (decrease_rc_shape x y z) as [cs ->] end.
    eexists. split; [reflexivity|]. split; reflexivity.
  - eexists. split; [reflexivity|]. split; reflexivity.
Qed.

Definition sync_op (o : wop) : Prop :=
  match o with WNewThread _ | WExitThread _ => False | _ => True end.

(* cmd_image is exactly what a command distributes: Some h -> the command succeeds and
   every thread (and last_seen) now holds h; None -> no thread image changes *)
Lemma wstep_image s o :
  sync_op o ->
  match cmd_image s o with
  | Some h => snd (wstep s o) = 0 /\ synced s (fst (wstep s o)) h
  | None => untouched s (fst (wstep s o))
  end.
Proof.
  destruct o as [a sz c|a sz c e|n|a|t|t]; intros So; try destruct So.
  - pose proof (add_addr_image s a sz c) as R. cbn [wstep].
    destruct (cmd_image s (WAddAddr a sz c)) as [h|].
    + destruct R as [s' [E Hs]]. rewrite E. cbn [fst snd]. split; [reflexivity | exact Hs].
    + destruct (add_addr s a sz c) as [s'| | |] eqn:E; cbn [fst]; try (split; reflexivity).
      exfalso. apply (R s'). reflexivity.
  - pose proof (add_expr_image s a sz c e) as R. cbn [wstep].
    destruct (cmd_image s (WAddExpr a sz c e)) as [h|].
    + destruct R as [s' [E Hs]]. rewrite E. cbn [fst snd]. split; [reflexivity | exact Hs].
    + destruct (add_expr_error_frame s a sz c e) as [H1 [_ [H3 _]]].
      destruct (add_expr s a sz c e) as [s'| | |] eqn:E; cbn [fst]; try (split; assumption).
      exfalso. apply (R s'). reflexivity.
  - cbn [cmd_image wstep]. unfold remove_by_num.
    destruct (position (fun w => w_num w =? n) (wps s)) as [i|]; [|split; reflexivity].
    pose proof (remove_at_image s i) as R. destruct (remove_image s i) as [h|].
    + destruct R as [s' [E Hs]]. rewrite E. cbn [fst snd]. split; [reflexivity | exact Hs].
    + destruct (remove_at s i) as [s'| | |] eqn:E; cbn [fst]; try (split; reflexivity).
      exfalso. apply (R s'). reflexivity.
  - cbn [cmd_image wstep]. unfold remove_by_addr.
    destruct (position (fun w => w_addr w =? a) (wps s)) as [i|]; [|split; reflexivity].
    pose proof (remove_at_image s i) as R. destruct (remove_image s i) as [h|].
    + destruct R as [s' [E Hs]]. rewrite E. cbn [fst snd]. split; [reflexivity | exact Hs].
    + destruct (remove_at s i) as [s'| | |] eqn:E; cbn [fst]; try (split; reflexivity).
      exfalso. apply (R s'). reflexivity.
Qed.

(* ---------- the image of every command is well formed and accepted by every thread ---------- *)
Lemma remove_image_accepted s i h :
  KInv s -> remove_image s i = Some h ->
  hw_k h /\ Forall (fun th => sync_accepted (snd th) h = true) (threads s).
Proof.
  intros K. unfold remove_image. destruct (nth_error (wps s) i) as [w|] eqn:En; [|discriminate].
  assert (Hw : wp_ok w).
  { pose proof (i_wps _ (k_inv _ K)) as F. rewrite Forall_forall in F. apply F. eapply nth_error_In; exact En. }
  destruct (w_reg w) as [r|] eqn:Er; [|cbn; discriminate].
  assert (Hr : valid_r r) by (destruct Hw as [_ [_ Hw]]; rewrite Er in Hw; exact Hw).
  rewrite hw_disable_eq. intros H.
  assert (E : h = disabled_hw (main_hw s) r) by (symmetry; injection H as H; exact H).
  subst h. apply disable_state_accepted; [apply kinv_thr_ok, K | exact Hr].
Qed.

Lemma cmd_image_accepted s o h :
  KInv s -> valid_op o -> aligned_op o = true -> cmd_image s o = Some h ->
  hw_k h /\ Forall (fun th => sync_accepted (snd th) h = true) (threads s).
Proof.
  intros K V A. pose proof (kinv_thr_ok s K) as T.
  destruct o as [a sz c|a sz c e|n|a|t|t]; cbn [cmd_image valid_op aligned_op] in *.
  - destruct V as [Hs Hc]. destruct (already_observed s a); [discriminate|]. unfold enable_image.
    destruct (hw_enable s a sz c) as [[[s1 h'] r]| | |] eqn:He; try discriminate.
    intros H. assert (h' = h) by congruence. subst h'.
    eapply enable_state_accepted; eassumption.
  - destruct V as [Hs Hc]. destruct (already_observed s a); [discriminate|]. unfold enable_image.
    destruct (add_expr_prepare_shape s e) as [bc [cs Hshape]].
    destruct (add_expr_prepare s e) as [s0 companion]. cbn [fst] in *.
    assert (Et : threads s0 = threads s) by (subst s0; reflexivity).
    destruct (hw_enable s0 a sz c) as [[[s1 h'] r]| | |] eqn:He; try discriminate.
    intros H. assert (h' = h) by congruence. subst h'.
    rewrite <- Et. eapply enable_state_accepted; try eassumption. apply (thr_ok_threads s s0 Et T).
  - destruct (position (fun w => w_num w =? n) (wps s)) as [i|]; [|discriminate].
    apply remove_image_accepted, K.
  - destruct (position (fun w => w_addr w =? a) (wps s)) as [i|]; [|discriminate].
    apply remove_image_accepted, K.
  - discriminate.
  - discriminate.
Qed.

(* ---------- KInv is an invariant ---------- *)
Theorem kinv_init m : KInv (st_init m).
Proof.
  split.
  - apply inv_init.
  - intros t h Hin. cbn in Hin. destruct Hin as [H|[]]. inversion H; subst. apply hw_zero_k.
  - cbn. exact I.
Qed.

Lemma kinv_new_thread s t : KInv s -> KInv (new_thread s t).
Proof.
  intros K. split.
  - apply inv_new_thread, (k_inv _ K).
  - intros t' h' Hin. cbn [threads new_thread] in Hin. apply in_app_or in Hin.
    destruct Hin as [Hin|[E|[]]]; [apply (k_thr _ K _ _ Hin)|].
    inversion E; subst. pose proof (k_last _ K) as L.
    destruct (last_seen s) as [h|]; [exact L | apply hw_zero_k].
  - cbn [last_seen new_thread]. apply (k_last _ K).
Qed.

Lemma kinv_exit_thread s t : KInv s -> KInv (exit_thread s t).
Proof.
  intros K. split.
  - apply inv_exit_thread, (k_inv _ K).
  - unfold exit_thread. destruct (threads s) as [|m rest] eqn:Et; [apply (k_thr _ K)|].
    cbn [threads]. intros t' h' Hin. apply (k_thr _ K t' h'). rewrite Et.
    destruct Hin as [E|Hin]; [left; exact E|]. right. apply filter_In in Hin. tauto.
  - unfold exit_thread. destruct (threads s) as [|m rest]; apply (k_last _ K).
Qed.

Theorem kinv_wstep s o :
  KInv s -> valid_op o -> aligned_op o = true -> KInv (fst (wstep s o)).
Proof.
  intros K V A.
  assert (So : sync_op o \/ (exists t, o = WNewThread t) \/ (exists t, o = WExitThread t)).
  { destruct o; cbn; eauto. }
  destruct So as [So|[[t ->]|[t ->]]].
  - pose proof (wstep_image s o So) as W.
    pose proof (inv_wstep s o (k_inv _ K) V) as I'.
    destruct (cmd_image s o) as [h|] eqn:Ec.
    + destruct (cmd_image_accepted s o h K V A Ec) as [Kh _].
      destruct W as [_ [Ht Hl]]. split; [exact I'| |rewrite Hl; exact Kh].
      intros t h' Hin. rewrite Ht in Hin. apply in_map_iff in Hin.
      destruct Hin as [[t0 h0] [E _]]. inversion E; subst. exact Kh.
    + destruct W as [Ht Hl]. split; [exact I'| rewrite Ht; apply (k_thr _ K) | rewrite Hl; apply (k_last _ K)].
  - cbn [wstep fst]. apply kinv_new_thread, K.
  - cbn [wstep fst]. apply kinv_exit_thread, K.
Qed.

Definition aligned_ops (ops : list wop) : Prop := Forall (fun o => aligned_op o = true) ops.

Theorem kinv_wrun ops s : KInv s -> Forall valid_op ops -> aligned_ops ops -> KInv (wrun ops s).
Proof.
  revert s; induction ops as [|o t IH]; intros s K V A; [exact K|].
  inversion V; subst. inversion A; subst. cbn [wrun fold_left].
  apply IH; [apply kinv_wstep; assumption | assumption | assumption].
Qed.

(* ---------- headline theorems ---------- *)
(* In every reachable state, whatever valid aligned command comes next, the image it asks
   all threads to take is accepted by the kernel for EVERY thread (threads created later
   included): all four address writes and the DR7 write of HardwareDebugState::sync pass. *)
Theorem every_sync_accepted ops m o h :
  Forall valid_op ops -> aligned_ops ops -> valid_op o -> aligned_op o = true ->
  cmd_image (wrun ops (st_init m)) o = Some h ->
  Forall (fun th => sync_accepted (snd th) h = true) (threads (wrun ops (st_init m))).
Proof.
  intros V A Vo Ao Ec. pose proof (kinv_wrun ops _ (kinv_init m) V A) as K.
  apply (cmd_image_accepted _ o h K Vo Ao Ec).
Qed.

(* the same, stated on the results of the model functions themselves *)
Theorem every_enable_accepted ops m a sz c s1 h r :
  Forall valid_op ops -> aligned_ops ops -> valid_size sz -> valid_cond c ->
  addr_ok a (klen_dec sz) = true ->
  hw_enable (wrun ops (st_init m)) a sz c = Ok (s1, h, r) ->
  Forall (fun th => sync_accepted (snd th) h = true) (threads (wrun ops (st_init m))).
Proof.
  intros V A Hs Hc Ha He. pose proof (kinv_wrun ops _ (kinv_init m) V A) as K.
  eapply enable_state_accepted; try eassumption. apply kinv_thr_ok, K.
Qed.

(* add_expr calls hw_enable on the state add_expr_prepare returns (companion bookkeeping) *)
Theorem every_expr_enable_accepted ops m a sz c e s1 h r :
  Forall valid_op ops -> aligned_ops ops -> valid_size sz -> valid_cond c ->
  addr_ok a (klen_dec sz) = true ->
  hw_enable (fst (add_expr_prepare (wrun ops (st_init m)) e)) a sz c = Ok (s1, h, r) ->
  Forall (fun th => sync_accepted (snd th) h = true) (threads (wrun ops (st_init m))).
Proof.
  intros V A Hs Hc Ha He. pose proof (kinv_wrun ops _ (kinv_init m) V A) as K.
  destruct (add_expr_prepare_shape (wrun ops (st_init m)) e) as [bc [cs Hshape]].
  assert (Et : threads (fst (add_expr_prepare (wrun ops (st_init m)) e)) = threads (wrun ops (st_init m)))
    by (rewrite Hshape; reflexivity).
  rewrite <- Et. eapply enable_state_accepted; try eassumption.
  apply (thr_ok_threads _ _ Et), kinv_thr_ok, K.
Qed.

(* the hw_disable call inside remove_at *)
Theorem every_disable_accepted ops m i w s1 h :
  Forall valid_op ops -> aligned_ops ops ->
  let s := wrun ops (st_init m) in
  nth_error (wps s) i = Some w ->
  hw_disable (with_wps s (firstn i (wps s) ++ skipn (S i) (wps s)) (last_seen s) (wp_counter s)) (w_reg w)
    = Ok (s1, h) ->
  Forall (fun th => sync_accepted (snd th) h = true) (threads s).
Proof.
  intros V A s En Hd. pose proof (kinv_wrun ops _ (kinv_init m) V A) as K. fold s in K.
  apply (remove_image_accepted s i h K). unfold remove_image. rewrite En. cbv zeta. rewrite Hd. reflexivity.
Qed.

(* a thread that appears later: the kernel hands it cleared debug registers, and the
   last_seen image distribute_to_tracee writes to it is accepted *)
Theorem new_thread_sync_accepted ops m h :
  Forall valid_op ops -> aligned_ops ops ->
  new_thread_image (wrun ops (st_init m)) = Some h -> sync_accepted hw_zero h = true.
Proof.
  intros V A E. pose proof (kinv_wrun ops _ (kinv_init m) V A) as K.
  pose proof (k_last _ K) as L. unfold new_thread_image in E. rewrite E in L.
  apply sync_accepted_intro; [apply hw_zero_k | exact L |].
  intros r Hr. left. apply hw_zero_view, Hr.
Qed.

(* cmd_image is not an arbitrary definition: it is what wstep distributes *)
Theorem cmd_image_distributed s o h :
  cmd_image s o = Some h ->
  snd (wstep s o) = 0 /\
  threads (fst (wstep s o)) = map (fun th => (fst th, h)) (threads s) /\
  last_seen (fst (wstep s o)) = Some h.
Proof.
  intros E. assert (So : sync_op o) by (destruct o; cbn in *; try exact I; discriminate).
  pose proof (wstep_image s o So) as W. rewrite E in W. destruct W as [W0 [W1 W2]]. auto.
Qed.

Theorem no_image_no_sync s o :
  sync_op o -> cmd_image s o = None ->
  threads (fst (wstep s o)) = threads s /\ last_seen (fst (wstep s o)) = last_seen s.
Proof. intros So E. pose proof (wstep_image s o So) as W. rewrite E in W. exact W. Qed.

(* the kernel invariant itself, for every thread of every reachable state *)
Theorem reachable_images_neutral ops m t h r :
  Forall valid_op ops -> aligned_ops ops -> In (t, h) (threads (wrun ops (st_init m))) -> valid_r r ->
  match slot_view h r with
  | None => slot_addr h r = 0 /\ klen h r = 1
  | Some _ => addr_ok (slot_addr h r) (klen h r) = true
  end.
Proof.
  intros V A Hin Hr. pose proof (kinv_wrun ops _ (kinv_init m) V A) as K.
  pose proof (k_thr _ K t h Hin r Hr) as S. unfold slot_k in S.
  destruct (slot_view h r); [exact S|]. destruct S as [Sa Ss]. split; [exact Sa|].
  unfold klen. rewrite Ss. reflexivity.
Qed.

(* ---------- the pre-repair disable ---------- *)
Definition old_history : list wop := [WAddAddr 4096 SIZE_Bytes8 COND_DataWrites; WRemoveNum 1].
Definition old_next : wop := WAddAddr 4108 SIZE_Bytes1 COND_DataWrites.
Definition old_image : hw :=
  match cmd_image (wrun_old old_history (st_init 100)) old_next with Some h => h | None => hw_zero end.

(* With the old disable the statement of every_sync_accepted is false: after
   `watch 8 bytes at 4096; remove it`, slot 0 still holds address 4096 and LEN = 8 in
   every thread, so the image built for `watch 1 byte at 4108` (slot 0 again) is refused
   by the main thread: the DR0 write 4108 is checked against the stale length 8. *)
Theorem old_disable_sync_rejected_refuted :
  exists ops o h,
    Forall valid_op ops /\ aligned_ops ops /\ valid_op o /\ aligned_op o = true /\
    cmd_image (wrun_old ops (st_init 100)) o = Some h /\
    sync_accepted (main_hw (wrun_old ops (st_init 100))) h = false /\
    (* precisely: the address write of slot 0 against the old length 8 *)
    klen (main_hw (wrun_old ops (st_init 100))) 0 = 8 /\ slot_addr h 0 = 4108 /\
    Exists (fun th => sync_accepted (snd th) h = false) (threads (wrun_old ops (st_init 100))).
Proof.
  exists old_history, old_next, old_image.
  assert (V8 : valid_size SIZE_Bytes8) by (right; right; right; reflexivity).
  assert (V1 : valid_size SIZE_Bytes1) by (left; reflexivity).
  assert (VC : valid_cond COND_DataWrites) by (left; reflexivity).
  split. { constructor; [split; assumption|]. constructor; [exact I|]. constructor. }
  split. { constructor; [reflexivity|]. constructor; [reflexivity|]. constructor. }
  split. { split; assumption. }
  split. { reflexivity. }
  split. { vm_compute. reflexivity. }
  split. { vm_compute. reflexivity. }
  split. { vm_compute. reflexivity. }
  split. { vm_compute. reflexivity. }
  constructor. vm_compute. reflexivity.
Qed.

(* the same history on the repaired machine is accepted (instance of the theorem; also by computation) *)
Example repaired_same_history_accepted :
  match cmd_image (wrun old_history (st_init 100)) old_next with
  | Some h => forallb (fun th => sync_accepted (snd th) h) (threads (wrun old_history (st_init 100))) = true
  | None => False
  end.
Proof. vm_compute. reflexivity. Qed.
