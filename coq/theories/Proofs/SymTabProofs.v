From BS Require Import Model.Base Model.SymTab Proofs.PathIndexProofs.
From Coq Require Import Lia.

Section P.
Context {V : Type}.
Variable matches : bstr -> bool.
Notation symtab := (@symtab V).

Lemma bstr_eqb_spec a b : bstr_eqb a b = true <-> a = b.
Proof. apply list_eqb_N_spec. Qed.

Lemma st_remove_keys (t : symtab) k k' v : In (k', v) (st_remove t k) <-> In (k', v) t /\ k' <> k.
Proof.
  induction t as [|[k0 v0] r IH]; cbn [st_remove In]; [tauto|].
  destruct (bstr_eqb k k0) eqn:E.
  - apply bstr_eqb_spec in E; subst k0. rewrite IH. split.
    + intros [H1 H2]; auto.
    + intros [[H|H] H2]; [inversion H; subst; congruence | auto].
  - cbn [In]. rewrite IH. split.
    + intros [H|[H1 H2]]; [inversion H; subst|]; split; auto.
      intros ->. assert (bstr_eqb k k = true) by (apply bstr_eqb_spec; reflexivity). congruence.
    + intros [[H|H] H2]; auto.
Qed.

(* keys of the collected table are unique ... *)
Definition keys_unique (t : symtab) : Prop := NoDup (map fst t).

Lemma st_remove_notin (t : symtab) k : ~ In k (map fst (st_remove t k)).
Proof.
  intros H. apply in_map_iff in H. destruct H as [[k' v] [E H]]. cbn in E; subst k'.
  apply st_remove_keys in H. destruct H as [_ H]; congruence.
Qed.

Lemma st_remove_unique (t : symtab) k : keys_unique t -> keys_unique (st_remove t k).
Proof.
  unfold keys_unique. induction t as [|[k0 v0] r IH]; cbn [st_remove map fst]; [auto|].
  intros H; inversion H; subst. destruct (bstr_eqb k k0); [auto|].
  cbn [map fst]. constructor; [|auto].
  intros Hin. apply in_map_iff in Hin. destruct Hin as [[k' v] [E Hin]]. cbn in E; subst k'.
  apply st_remove_keys in Hin. apply H2. apply in_map_iff. exists (k0, v). tauto.
Qed.

Lemma st_collect_unique_gen syms (t : symtab) : keys_unique t -> keys_unique (fold_left st_insert syms t).
Proof.
  revert t; induction syms as [|kv r IH]; intros t H; cbn [fold_left]; [exact H|].
  apply IH. unfold st_insert, keys_unique. cbn [map]. constructor.
  - apply st_remove_notin.
  - apply st_remove_unique, H.
Qed.

Lemma st_collect_unique syms : keys_unique (@st_collect V syms).
Proof. apply st_collect_unique_gen. constructor. Qed.

(* ... and are exactly the names that occur among the symbols *)
Lemma st_collect_keys_gen syms (t : symtab) k :
  In k (map fst (fold_left st_insert syms t)) <-> In k (map fst syms) \/ In k (map fst t).
Proof.
  revert t; induction syms as [|[k0 v0] r IH]; intros t; cbn [fold_left map fst In]; [tauto|].
  rewrite IH. unfold st_insert. cbn [map fst In]. split.
  - intros [H|[H|H]]; auto.
    apply in_map_iff in H. destruct H as [[k' v] [E H]]. cbn in E; subst.
    apply st_remove_keys in H. right. apply in_map_iff. exists (k, v). tauto.
  - intros [[H|H]|H]; auto.
    destruct (bstr_eqb k k0) eqn:E.
    + apply bstr_eqb_spec in E. auto.
    + right; right. apply in_map_iff in H. destruct H as [[k' v] [E' H]]. cbn in E'; subst.
      apply in_map_iff. exists (k, v). split; [reflexivity|]. apply st_remove_keys. split; [exact H|].
      intros ->. assert (bstr_eqb k0 k0 = true) by (apply bstr_eqb_spec; reflexivity). congruence.
Qed.

Theorem st_find_exact (syms : list (bstr * V)) name :
  In name (map fst (st_find matches (st_collect syms))) <->
  In name (map fst syms) /\ matches name = true.
Proof.
  unfold st_find. split.
  - intros H. apply in_map_iff in H. destruct H as [[k v] [E H]]. cbn in E; subst k.
    apply filter_In in H. destruct H as [H1 H2]. split; [|exact H2].
    pose proof (proj1 (st_collect_keys_gen syms [] name)) as K. cbn [map In] in K.
    destruct K as [K|[]]; [|exact K]. apply in_map_iff. exists (name, v). auto.
  - intros [H1 H2]. pose proof (proj2 (st_collect_keys_gen syms [] name) (or_introl H1)) as H.
    apply in_map_iff in H. destruct H as [[k v] [E H]]. cbn in E; subst k.
    apply in_map_iff. exists (name, v). split; [reflexivity|]. apply filter_In. auto.
Qed.

Theorem st_find_no_dup (syms : list (bstr * V)) : NoDup (map fst (st_find matches (st_collect syms))).
Proof.
  unfold st_find. pose proof (st_collect_unique syms) as H. unfold keys_unique in H.
  induction (st_collect syms) as [|[k v] r IH]; cbn [filter map fst]; [constructor|].
  inversion H; subst. destruct (matches k); cbn [map fst]; [|auto].
  constructor; [|auto]. intros Hin. apply H2. apply in_map_iff in Hin. destruct Hin as [[k' v'] [E Hin]].
  cbn in E; subst. apply filter_In in Hin. apply in_map_iff. exists (k, v'). tauto.
Qed.
End P.
